import hashlib, gzip, os, shutil, sys, tempfile
from gemato.cli import main
d0 = tempfile.mkdtemp(prefix='gvd18.')
try:
    open(os.path.join(d0, 'a'), 'w').write('hello\n')
    open(os.path.join(d0, 'Manifest.gz'), 'wb').write(gzip.compress(b'IGNORE zz\n'))
    d = open(os.path.join(d0, 'Manifest.gz'), 'rb').read()
    open(os.path.join(d0, 'Manifest'), 'w').write('DATA a 6 SHA1 %s\nMANIFEST Manifest.gz %d SHA1 %s\n' % (
        hashlib.sha1(b'hello\n').hexdigest(), len(d), hashlib.sha1(d).hexdigest()))
    print('verify before:', main(['gemato', 'verify', d0]))
    print('update -c 1000 -f:', main(['gemato', 'update', '--hashes', 'SHA1', '-c', '1000', '-f', d0]))
    print(sorted(os.listdir(d0)))
    print(repr(open(os.path.join(d0, 'Manifest')).read()))
    print('verify after:', main(['gemato', 'verify', d0]))
finally:
    shutil.rmtree(d0)
