"""D24: get_file_metadata() leaks the descriptor it opened whenever its consumer stops early (GeneratorExit is not an
Exception): one descriptor per file skipped by `update --incremental`, per stray file and per size mismatch in
verification.  With more such files than RLIMIT_NOFILE the run dies with EMFILE although nothing is wrong with the tree.
usage: PYTHONPATH=<repo> python repro_d24.py"""
import os, resource, tempfile
from gemato.cli import main
resource.setrlimit(resource.RLIMIT_NOFILE, (256, resource.getrlimit(resource.RLIMIT_NOFILE)[1]))
d = tempfile.mkdtemp()
for i in range(400):
    with open(os.path.join(d, 'f%03d' % i), 'w') as f:
        f.write('x%d' % i)
    os.utime(os.path.join(d, 'f%03d' % i), (1500000000, 1500000000))
r0 = main(['gemato', 'create', '-t', '-H', 'SHA1', d])
before = len(os.listdir('/proc/self/fd'))
try:
    r1 = main(['gemato', 'update', '-i', '-H', 'SHA1', d])
except OSError as e:
    r1 = 'OSError: %s' % e.strerror
try:
    after = len(os.listdir('/proc/self/fd'))
except OSError:
    after = 10**6
print('create ->', r0, ' update -i ->', r1, ' open descriptors before/after:', before, after)
print('DEFECT' if (r1 != 0 or after > before + 5) else 'ok')
