import os, sys, tempfile, subprocess, hashlib, shutil, time
def run(args, cwd=None):
    return subprocess.run([sys.executable, '-c', 'import sys,gemato.cli; sys.exit(gemato.cli.main(["gemato"]+sys.argv[1:]))']+args, capture_output=True, text=True)
def sha1(b): return hashlib.sha1(b).hexdigest()
with tempfile.TemporaryDirectory() as d:
    t = os.path.join(d,'tree'); os.makedirs(os.path.join(t,'dir/sub'))
    open(os.path.join(t,'dir/sub/f'),'w').write('hello')
    old = time.time()-10000
    os.utime(os.path.join(t,'dir/sub/f'),(old,old))
    open(os.path.join(t,'dir/sub/Manifest'),'w').write('')
    open(os.path.join(t,'Manifest'),'w').write('TIMESTAMP 2000-01-01T00:00:00Z\nMANIFEST dir/sub/Manifest 0 SHA1 x\n')
    print(run(['update','--hashes','SHA1',t]))
    print(open(os.path.join(t,'Manifest')).read()); print(open(os.path.join(t,'dir/sub/Manifest')).read())
    # now drop a foreign Manifest in dir/ with stale digest for sub/f
    open(os.path.join(t,'dir/Manifest'),'w').write('DATA sub/f 5 SHA1 '+'0'*40+'\n')
    t2 = os.path.join(d,'tree2'); shutil.copytree(t,t2,symlinks=True)
    print(run(['update','--incremental','--hashes','SHA1',t]))
    print(run(['update','--hashes','SHA1',t2]))
    for x in ('Manifest','dir/Manifest','dir/sub/Manifest'):
        print(x); print(' inc :',open(os.path.join(t,x)).read()); print(' full:',open(os.path.join(t2,x)).read())
