"""D22: duplicate entries for one path in two Manifests whose hash sets together make up the requested set:
the kept entry is completed in memory only, its Manifest is not queued for writing, so on disk it keeps the
old hash set although update reports success.   usage: PYTHONPATH=<repo> python repro_d22.py"""
import hashlib, os, tempfile
from gemato.cli import main
d = tempfile.mkdtemp()
os.mkdir(os.path.join(d, 'sub'))
open(os.path.join(d, 'sub', 'f'), 'w').write('1')
sub = 'DATA f 1 SHA1 %s\n' % hashlib.sha1(b'1').hexdigest()
open(os.path.join(d, 'sub', 'Manifest'), 'w').write(sub)
open(os.path.join(d, 'Manifest'), 'w').write(
    'MANIFEST sub/Manifest %d SHA1 %s MD5 %s\nDATA sub/f 1 MD5 %s\n' % (
        len(sub), hashlib.sha1(sub.encode()).hexdigest(), hashlib.md5(sub.encode()).hexdigest(), hashlib.md5(b'1').hexdigest()))
r = main(['gemato', 'update', '-H', 'MD5 SHA1', d])
text = open(os.path.join(d, 'sub', 'Manifest')).read()
print('update ->', r, repr(text))
print('DEFECT' if (r == 0 and 'MD5' not in text) else 'ok')
