"""D34: a directory symlink back to the top directory, with an IGNORE entry for what lies behind it: no symlink-loop error.
usage: PYTHONPATH=<repo> python notes/repro_d34.py   -> exit 0 when the loop is reported"""
import os, sys, tempfile, gemato.cli
with tempfile.TemporaryDirectory() as d:
    top = os.path.join(d, 'top'); os.mkdir(top)
    open(os.path.join(top, 'f'), 'w').write('x')
    os.symlink('.', os.path.join(top, 'd'))
    body = 'IGNORE d/d\nDATA f 1\nDATA d/f 1\n'
    for n in range(10, 200):
        t = body + 'DATA d/Manifest %d\n' % n
        if len(t) == n:
            break
    open(os.path.join(top, 'Manifest'), 'w').write(t)
    rc = gemato.cli.main(['gemato', 'verify', top])
    print('gemato verify exits', rc, '(1 = symlink loop reported)')
    sys.exit(0 if rc == 1 else 1)
