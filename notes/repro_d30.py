"""D30: gemato update -p ebuild on a tree first covered by the default profile, with metadata/timestamp.chk: NotImplementedError"""
import os, sys, tempfile
import gemato.cli
with tempfile.TemporaryDirectory() as d:
    os.makedirs(os.path.join(d, 'metadata'))
    open(os.path.join(d, 'metadata', 'timestamp.chk'), 'w').write('now\n')
    open(os.path.join(d, 'metadata', 'layout.conf'), 'w').write('masters =\n')
    print('create (default profile):', gemato.cli.main(['gemato', 'create', '-H', 'SHA1', d]))
    try:
        print('update -p ebuild:', gemato.cli.main(['gemato', 'update', '-p', 'ebuild', '-H', 'SHA1', d]))
    except NotImplementedError as e:
        print('update -p ebuild: NotImplementedError escapes:', e)
        sys.exit(1)
