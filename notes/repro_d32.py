import os, tempfile, subprocess, sys
from gemato.recursiveloader import ManifestRecursiveLoader
with tempfile.TemporaryDirectory() as root:
    os.mkdir(os.path.join(root,'sub'))
    open(os.path.join(root,'sub/f'),'w').write('1\n')
    open(os.path.join(root,'sub/Manifest.extra'),'w').write('')
    open(os.path.join(root,'sub/Manifest'),'w').write('MANIFEST Manifest.extra 0\n')
    open(os.path.join(root,'Manifest'),'w').write('MANIFEST sub/Manifest 0\n')
    m = ManifestRecursiveLoader(os.path.join(root,'Manifest'), hashes=['MD5'])
    m.load_manifests_for_path('', recursive=True, verify=False)
    m.update_entry_for_path('sub/f')
    m.save_manifests(force=True, compress_watermark=0)
    print(sorted(m.loaded_manifests))
    ManifestRecursiveLoader(os.path.join(root,'Manifest')).assert_directory_verifies('')
    print('after save 1: verifies')
    open(os.path.join(root,'sub/f'),'w').write('22\n')
    m.update_entry_for_path('sub/f')
    m.save_manifests(compress_watermark=0)
    try:
        ManifestRecursiveLoader(os.path.join(root,'Manifest')).assert_directory_verifies('')
        print('after save 2: verifies')
    except Exception as e:
        print('after save 2: FAILS', str(e)[:200])
