"""D28: a sub-directory update leaves a stale MANIFEST reference above it stale; update exits 0, verify of the directory fails.
Usage: PYTHONPATH=/repo /venv/bin/python notes/repro_d28.py     exit 1 = defect present"""
import os, sys, tempfile, logging
import gemato.cli
logging.disable(logging.CRITICAL)
with tempfile.TemporaryDirectory() as d:
    os.makedirs(os.path.join(d, 'sub/deep'))
    open(os.path.join(d, 'sub/deep/f'), 'w').write('x')
    open(os.path.join(d, 'sub/Manifest'), 'w').write('DATA deep/f 1 MD5 9dd4e461268c8034f5c8564e155c67a6\n')
    open(os.path.join(d, 'Manifest'), 'w').write('MANIFEST sub/Manifest 3 MD5 00\n')
    u = gemato.cli.main(['gemato', 'update', '--hashes', 'MD5', os.path.join(d, 'sub/deep')])
    v = gemato.cli.main(['gemato', 'verify', os.path.join(d, 'sub/deep')])
    print('update exit', u, 'verify exit', v, '| top-level Manifest:', open(os.path.join(d, 'Manifest')).read().strip())
    sys.exit(1 if (u == 0 and v != 0) else 0)
