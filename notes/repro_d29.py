import os, tempfile
from gemato.recursiveloader import ManifestRecursiveLoader
with tempfile.TemporaryDirectory() as d:
    os.mkdir(os.path.join(d,'sub'))
    open(os.path.join(d,'sub/test'),'w').write('hello world')
    open(os.path.join(d,'sub/Manifest'),'w').write('DATA test 11 MD5 5eb63bbbe01eeed093cb22bb8f5acdc3\n')
    open(os.path.join(d,'Manifest'),'w').write('DATA sub/Manifest 0 MD5 d41d8cd98f00b204e9800998ecf8427e\n')
    m = ManifestRecursiveLoader(os.path.join(d,'Manifest'), hashes=['MD5'])
    m.update_entries_for_directory('')
    m.save_manifests()
    print(open(os.path.join(d,'Manifest')).read())
    print(open(os.path.join(d,'sub/Manifest')).read())
    ManifestRecursiveLoader(os.path.join(d,'Manifest')).assert_directory_verifies('')
    print("ok")
