"""D19: with a compression watermark, a sub-Manifest that falls below it is 'uncompressed' by renaming
dir/Manifest.gz -> dir/Manifest even when a different file (here an invalid, hence unregistered, dir/Manifest
that update has just recorded as a DATA entry) already has that name: the file is overwritten and the tree
no longer verifies.   usage: PYTHONPATH=<repo> python repro_d19.py"""
import gzip, hashlib, os, sys, tempfile
from gemato.cli import main
d = tempfile.mkdtemp()
os.mkdir(os.path.join(d, 'dir'))
sub = gzip.compress(b'')
open(os.path.join(d, 'dir', 'Manifest.gz'), 'wb').write(sub)
open(os.path.join(d, 'dir', 'Manifest'), 'w').write('FOO bar\n')
open(os.path.join(d, 'Manifest'), 'w').write('MANIFEST dir/Manifest.gz %d SHA1 %s\n' % (len(sub), hashlib.sha1(sub).hexdigest()))
r1 = main(['gemato', 'update', '-H', 'SHA1', '-c', '100000', d])
try:
    r2 = main(['gemato', 'verify', d])
except SystemExit as e:
    r2 = e.code
print('update ->', r1, ' verify ->', r2, ' dir:', sorted(os.listdir(os.path.join(d, 'dir'))))
print('DEFECT' if (r1 == 0 and r2 != 0) else 'ok')
