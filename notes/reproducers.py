#!/usr/bin/env python3
"""Design-time reproducers for the defects D1..D15 listed in DESIGN.md section 6.

Usage:  PYTHONPATH=<repo> /venv/bin/python reproducers.py [<repo>]
Prints one line per defect: REPRODUCED (the defective behaviour is observed)
or not-reproduced.  Scratch trees are created under a temporary directory and
removed.  This is documentation of the findings, not part of the check
machinery.
"""
import datetime, gzip, hashlib, io, logging, os, shutil, subprocess, sys, tempfile, time

repo = sys.argv[1] if len(sys.argv) > 1 else '/repo'
sys.path.insert(0, repo)
logging.disable(logging.CRITICAL)
from gemato.cli import main                                    # noqa: E402
from gemato.exceptions import GematoException                  # noqa: E402
from gemato.manifest import ManifestFile                       # noqa: E402
from gemato.recursiveloader import ManifestRecursiveLoader     # noqa: E402

TMP = tempfile.mkdtemp(prefix='gemato-repro.')


def mk(files):
    d = tempfile.mkdtemp(dir=TMP)
    for k, v in files.items():
        p = os.path.join(d, k)
        os.makedirs(os.path.dirname(p), exist_ok=True)
        with open(p, 'wb') as f:
            f.write(v if isinstance(v, bytes) else v.encode())
    return d


def ent(tag, path, data, hs=('SHA1',)):
    b = data if isinstance(data, bytes) else data.encode()
    return f'{tag} {path} {len(b)}' + ''.join(
        f' {h} {hashlib.new(h.lower(), b).hexdigest()}' for h in hs) + '\n'


def outcome(fn):
    try:
        return ('ret', fn())
    except GematoException as e:
        return ('gemato', type(e).__name__)
    except OSError as e:
        return ('os', type(e).__name__)
    except BaseException as e:           # internal error
        return ('internal', type(e).__name__)


def load(text):
    def f():
        m = ManifestFile()
        m.load(io.StringIO(text), verify_openpgp=False)
        return [tuple(e.to_list()) for e in m.entries]
    return outcome(f)


results = {}

# D1: keep-going stops at the first failing directory
d = mk({'Manifest': '', 'a/x': '1', 'b/y': '2', 'c/z': '3'})
calls = []
m = ManifestRecursiveLoader(os.path.join(d, 'Manifest'))
m.assert_directory_verifies('', fail_handler=lambda e: calls.append(e.path) or False)
results['D1'] = sorted(calls) != ['a/x', 'b/y', 'c/z']

# D2: out-of-range escapes raise ValueError / OverflowError
results['D2'] = (load('DATA \\U00110000 0\n')[0] == 'internal'
                 or load('DATA \\UFFFFFFFF 0\n')[0] == 'internal')

# D3: escaped absolute path accepted; AUX variant asserts
results['D3'] = (load('DATA \\x2Ffoo 0\n')[0] == 'ret'
                 or load('AUX \\x2Ffoo 0\n')[0] == 'internal')

# D4: duplicate IGNORE -> AttributeError
d = mk({'Manifest': 'IGNORE foo\nIGNORE foo\n'})
results['D4'] = (outcome(lambda: main(['gemato', 'verify', d]))[0] == 'internal'
                 or outcome(lambda: main(['gemato', 'update', '-H', 'SHA1', d]))[0] == 'internal')

# D5: unknown Manifest hash name -> KeyError
d = mk({'Manifest': 'DATA foo 1 FOO abc\n', 'foo': '1'})
results['D5'] = outcome(lambda: main(['gemato', 'verify', d]))[0] == 'internal'

# D6: Manifest referencing a Manifest of the same directory
sub = ent('DATA', 'a/x', '1')
d = mk({'Manifest.files': sub, 'a/x': '1', 'Manifest': ent('MANIFEST', 'Manifest.files', sub)})
with open(os.path.join(d, 'a/x'), 'w') as f:
    f.write('22')
r1 = outcome(lambda: main(['gemato', 'update', '-H', 'SHA1', d]))
r2 = outcome(lambda: main(['gemato', 'verify', d]))
results['D6'] = not (r1 == ('ret', 0) and r2 == ('ret', 0))

# D7: sub-directory update meeting an unregistered Manifest
d = mk({'Manifest': '', 'sub/Manifest': '', 'sub/f': '1'})
results['D7'] = outcome(lambda: main(['gemato', 'update', '-H', 'SHA1', os.path.join(d, 'sub')]))[0] == 'internal'

# D8: old-ebuild profile, AUX-typed file not governed by its package's Manifest
d = mk({'cat/pkg/zz': 'x', 'cat/pkg/a-1.ebuild': 'e', 'cat/pkg/metadata.xml': 'm', 'cat/pkg/files': 'x'})
results['D8'] = outcome(lambda: main(['gemato', 'create', '-p', 'old-ebuild', d]))[0] == 'internal'

# D9: TIMESTAMP year < 1000 is not re-parseable
r = load('TIMESTAMP 0001-01-01T00:00:00Z\n')
results['D9'] = r[0] == 'ret' and load(' '.join(r[1][0]) + '\n')[0] != 'ret'

# D10: incremental update west of UTC skips a file modified after TIMESTAMP
old_tz = os.environ.get('TZ')
os.environ['TZ'] = 'Etc/GMT+5'
time.tzset()
d = mk({'f': 'aaaa'})
main(['gemato', 'create', '-t', '-H', 'SHA1', d])
with open(os.path.join(d, 'f'), 'w') as f:
    f.write('bbbb')
t = time.time() + 3600
os.utime(os.path.join(d, 'f'), (t, t))
main(['gemato', 'update', '-i', '-H', 'SHA1', d])
results['D10'] = outcome(lambda: main(['gemato', 'verify', d])) != ('ret', 0)
if old_tz is None:
    del os.environ['TZ']
else:
    os.environ['TZ'] = old_tz
time.tzset()

# D11: identical duplicate lines: the stale twin survives an update
d = mk({'Manifest': 'DATA f 1 MD5 00\nDATA f 1 MD5 00\n', 'f': '1'})
main(['gemato', 'update', '-H', 'MD5', d])
results['D11'] = outcome(lambda: main(['gemato', 'verify', d])) != ('ret', 0)

# D12: registered Manifest inside a hidden directory
hm = ent('DATA', 'foo', '1')
d = mk({'.hid/Manifest': hm, '.hid/foo': '1', 'x': '2', 'Manifest': ent('MANIFEST', '.hid/Manifest', hm)})
results['D12'] = outcome(lambda: main(['gemato', 'update', '-H', 'SHA1', d]))[0] == 'internal'

# D13: lone surrogate in a path
d = mk({'Manifest': 'DATA \\uD800 0\n'})
results['D13'] = outcome(lambda: main(['gemato', 'verify', d]))[0] == 'internal'

# D14: second Manifest-named file beside the top-level Manifest
d = mk({'Manifest': '', 'f': '1', 'Manifest.gz': gzip.compress(b'', mtime=0)})
r1 = outcome(lambda: main(['gemato', 'update', '-H', 'SHA1', d]))
results['D14'] = r1 == ('ret', 0) and outcome(lambda: main(['gemato', 'verify', d])) != ('ret', 0)

# D15: TRUST_FULLY is not recognised (transcript level, no gpg needed)
from gemato.openpgp import SystemGPGEnvironment                # noqa: E402


class Env(SystemGPGEnvironment):
    def _spawn_gpg(self, argv, stdin='', env_override={}, raise_on_error=None):
        out = (b'[GNUPG:] NEWSIG\n'
               b'[GNUPG:] GOODSIG 136880E72A7B1384 gemato test key\n'
               b'[GNUPG:] VALIDSIG 81E12C16BD8DCD60BE180845136880E72A7B1384 2026-09-30 1790793126 0 4 0 1 10 01 81E12C16BD8DCD60BE180845136880E72A7B1384\n'
               b'[GNUPG:] TRUST_FULLY 0 direct\n')
        return (0, out, b'')


results['D15'] = outcome(lambda: Env().verify_file(io.StringIO('x')))[0] == 'gemato'

shutil.rmtree(TMP, ignore_errors=True)
for k in sorted(results, key=lambda s: (int(''.join(c for c in s if c.isdigit())), s)):
    print(f'{k:4} {"REPRODUCED" if results[k] else "not-reproduced"}')
