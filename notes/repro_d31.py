"""D31 (fixed): update --incremental kept the entries of a Manifest that arrived with old mtimes (hash set / digests not refreshed).
Usage: PYTHONPATH=<repo> /venv/bin/python notes/repro_d31.py    exit 1 = defect present"""
import hashlib, os, shutil, sys, tempfile, logging
import gemato.cli
logging.disable(logging.CRITICAL)
with tempfile.TemporaryDirectory() as d:
    a, b = os.path.join(d, 'a'), os.path.join(d, 'b')
    os.makedirs(a)
    open(os.path.join(a, 'f'), 'w').write('x')
    assert gemato.cli.main(['gemato', 'create', '-H', 'SHA256', '-t', a]) == 0
    os.makedirs(os.path.join(a, 'vendor'))
    data = b'payload'
    open(os.path.join(a, 'vendor', 'data.bin'), 'wb').write(data)
    open(os.path.join(a, 'vendor', 'Manifest'), 'w').write('DATA data.bin %d SHA1 %s\n' % (len(data), hashlib.sha1(data).hexdigest()))
    for p in ('vendor/data.bin', 'vendor/Manifest', 'vendor'):
        os.utime(os.path.join(a, p), (1000000000, 1000000000))
    shutil.copytree(a, b, copy_function=shutil.copy2)
    os.utime(os.path.join(b, 'vendor'), (1000000000, 1000000000))
    assert gemato.cli.main(['gemato', 'update', '-H', 'SHA256', '--incremental', a]) == 0
    assert gemato.cli.main(['gemato', 'update', '-H', 'SHA256', b]) == 0
    ma, mb = open(os.path.join(a, 'vendor', 'Manifest')).read(), open(os.path.join(b, 'vendor', 'Manifest')).read()
    print('incremental:', ma.strip()); print('full:       ', mb.strip())
    sys.exit(0 if ma == mb else 1)
