From Coq Require Import List NArith ZArith Bool Lia ZifyBool ZifyN Arith.
Require Import CodecModel.
Import ListNotations.
Open Scope N_scope.
Ltac Zify.zify_post_hook ::= Z.to_euclidean_division_equations.

Lemma hexval_hexdig n : n < 16 -> hexval (hexdig n) = Some n.
Proof.
  intros H. assert (E: forallb (fun k => match hexval (hexdig k) with Some v => v =? k | None => false end)
    (map N.of_nat (seq 0 16)) = true) by (vm_compute; reflexivity).
  rewrite forallb_forall in E. specialize (E n).
  assert (Hin: In n (map N.of_nat (seq 0 16))).
  { apply in_map_iff. exists (N.to_nat n). split; [lia|]. apply in_seq. lia. }
  specialize (E Hin). destruct (hexval (hexdig n)); [|discriminate]. apply N.eqb_eq in E. congruence.
Qed.

Lemma hexparse_fmt k : forall j n acc r, n < 16 ^ (N.of_nat k) ->
  hexparse (k + j) (hexfmt k n ++ r) acc = hexparse j r (acc * 16 ^ (N.of_nat k) + n).
Proof.
  induction k as [|k IH]; intros j n acc r Hn.
  - simpl in *. f_equal. lia.
  - cbn [hexfmt]. rewrite <- app_assoc. cbn [app].
    replace (S k + j)%nat with (k + S j)%nat by lia.
    replace (N.of_nat (S k)) with (N.succ (N.of_nat k)) in * by lia.
    rewrite N.pow_succ_r' in *.
    rewrite IH by (apply N.div_lt_upper_bound; lia).
    cbn [hexparse]. rewrite hexval_hexdig by (apply N.mod_lt; lia).
    f_equal. pose proof (N.div_mod n 16). lia.
Qed.

Lemma hexparse_fmt0 k n r : n < 16 ^ (N.of_nat k) -> hexparse k (hexfmt k n ++ r) 0 = Some (n, r).
Proof. intros H. replace k with (k + 0)%nat at 1 by lia. rewrite hexparse_fmt by exact H. simpl. f_equal. Qed.

Definition valid (c:cp) := c <= 1114111.

Lemma esc_any_enc c r : valid c -> esc_any (tl (enc_char c) ++ r) = Some (c, r).
Proof.
  unfold valid, enc_char, esc_any, esc. intros Hc.
  destruct (c <=? 127) eqn:E1; [|destruct (c <=? 65535) eqn:E2]; cbn [tl app N.eqb Pos.eqb];
  rewrite hexparse_fmt0 by (simpl; lia).
  - assert (c <=? 255 = true) as -> by lia. reflexivity.
  - rewrite E2. reflexivity.
  - assert (c <=? 1114111 = true) as -> by lia. reflexivity.
Qed.

Lemma enc_char_hd c : exists t, enc_char c = 92 :: t.
Proof. unfold enc_char. destruct (c <=? 127); [|destruct (c <=? 65535)]; eexists; reflexivity. Qed.

Lemma decode_encode_fuel p : Forall valid p -> forall f, (length (encode p) <= f)%nat -> decode (S f) (encode p) = Some p.
Proof.
  induction p as [|c p IH]; intros Hv f Hf; [reflexivity|].
  inversion Hv as [|? ? Hc Hp]; subst.
  unfold encode in *. cbn [flat_map] in *.
  destruct (disallowed c) eqn:Hd.
  - destruct (enc_char_hd c) as [t Et]. rewrite Et in *. cbn [app decode]. cbn [N.eqb Pos.eqb].
    replace t with (tl (enc_char c)) by (rewrite Et; reflexivity).
    rewrite esc_any_enc by exact Hc.
    cbn [app length] in Hf. rewrite app_length in Hf.
    destruct f as [|f]; [lia|]. rewrite IH; [reflexivity|exact Hp|lia].
  - cbn [app decode]. assert (c =? 92 = false) as -> by (unfold disallowed in Hd; lia).
    cbn [app length] in Hf. destruct f as [|f]; [lia|]. rewrite IH; [reflexivity|exact Hp|lia].
Qed.

Theorem dec_encode p : Forall valid p -> dec (encode p) = Some p.
Proof. intros H. unfold dec. apply decode_encode_fuel; [exact H|lia]. Qed.
Print Assumptions dec_encode.
