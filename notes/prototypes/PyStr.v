From Coq Require Export List NArith Bool.
Export ListNotations.
Definition cp := N. Definition ustr := list cp.
Fixpoint ustr_eqb (a b : ustr) : bool :=
  match a, b with [], [] => true | x::a', y::b' => N.eqb x y && ustr_eqb a' b' | _, _ => false end.
Fixpoint py_startswith (s p : ustr) {struct p} : bool :=
  match p with [] => true | y::p' => match s with [] => false | x::s' => N.eqb x y && py_startswith s' p' end end.
Definition py_endswith (s p : ustr) : bool := py_startswith (rev s) (rev p).
(* str.rstrip(chars): remove trailing characters that are members of chars *)
Fixpoint lstrip_set (s chars : ustr) : ustr :=
  match s with [] => [] | x::s' => if existsb (N.eqb x) chars then lstrip_set s' chars else s end.
Definition py_rstrip (s chars : ustr) : ustr := rev (lstrip_set (rev s) chars).
