From Coq Require Import List NArith Bool Lia Arith Permutation.
Import ListNotations.
(* directory graph: ino -> list of (kept) child directory inos; cycles allowed *)
Definition ino := N.
Definition graph := list (ino * list ino).
Fixpoint children (g:graph) (d:ino) : list ino :=
  match g with [] => [] | (k,cs)::r => if N.eqb k d then cs else children r d end.
Definition memN (x:ino) (l:list ino) := existsb (N.eqb x) l.
Inductive ev := Visit (d:ino) | Loop (d:ino).
Inductive out := Done (evs:list ev) | LoopErr (evs:list ev) (d:ino) | OutOfFuel.

(* faithful shape: on entering d with the ancestor list recorded by the parent:
   loop check; then (if it has children) record anc++[d] and recurse in order, stopping at first error *)
Fixpoint walk (fuel:nat) (g:graph) (anc:list ino) (d:ino) : out :=
  match fuel with
  | O => OutOfFuel
  | S f =>
    if memN d anc then LoopErr [] d else
    let fix go (cs:list ino) (acc:list ev) : out :=
      match cs with
      | [] => Done acc
      | c::r => match walk f g (anc ++ [d]) c with
                | Done e => go r (acc ++ e)
                | LoopErr e x => LoopErr (acc ++ e) x
                | OutOfFuel => OutOfFuel end
      end in
    go (children g d) [Visit d]
  end.
(* root quirk: the start directory's id is not recorded for its children *)
Definition walk_top (fuel:nat) (g:graph) (quirk:bool) (d:ino) : out :=
  match fuel with O => OutOfFuel | S f =>
    let anc' := if quirk then [] else [d] in
    (fix go (cs:list ino) (acc:list ev) : out :=
      match cs with [] => Done acc
      | c::r => match walk f g anc' c with
                | Done e => go r (acc ++ e) | LoopErr e x => LoopErr (acc++e) x | OutOfFuel => OutOfFuel end end)
    (children g d) [Visit d]
  end.

Definition nodes (g:graph) : list ino := map fst g ++ flat_map snd g.

Lemma memN_In x l : memN x l = true <-> In x l.
Proof. unfold memN. rewrite existsb_exists. split; [intros [y [H1 H2]]; apply N.eqb_eq in H2; subst; auto| intros H; exists x; split; [auto|apply N.eqb_refl]]. Qed.

Lemma children_incl g d c : In c (children g d) -> In c (nodes g).
Proof.
  unfold nodes. induction g as [|[k cs] r IH]; simpl; [tauto|].
  destruct (N.eqb k d); intros H.
  - right. apply in_or_app. right. apply in_or_app. left. exact H.
  - specialize (IH H). apply in_app_or in IH. destruct IH as [IH|IH].
    + right. apply in_or_app. left. exact IH.
    + right. apply in_or_app. right. apply in_or_app. right. exact IH.
Qed.

(* key: the ancestor list stays duplicate-free and inside the node set, so its length is bounded *)
Lemma walk_fuel g : forall fuel anc d,
  NoDup anc -> incl anc (nodes g) -> In d (nodes g) ->
  length (nodup N.eq_dec (nodes g)) < fuel + length anc ->
  walk fuel g anc d <> OutOfFuel.
Proof.
  induction fuel as [|f IH]; intros anc d Hnd Hinc Hd Hlen.
  - exfalso. simpl in Hlen.
    assert (length anc <= length (nodup N.eq_dec (nodes g))).
    { apply NoDup_incl_length; [exact Hnd|]. intros x Hx. apply nodup_In. auto. }
    lia.
  - cbn [walk]. destruct (memN d anc) eqn:Hm; [discriminate|].
    assert (Hnd': NoDup (anc ++ [d])).
    { apply (Permutation.Permutation_NoDup (l:=d::anc)).
      - apply Permutation.Permutation_cons_append.
      - constructor; [|exact Hnd]. intro Hin. apply memN_In in Hin. congruence. }
    assert (Hinc': incl (anc ++ [d]) (nodes g)).
    { intros x Hx. apply in_app_or in Hx. destruct Hx as [Hx|[Hx|[]]]; [auto|subst; auto]. }
    assert (Hall: forall c, In c (children g d) -> walk f g (anc ++ [d]) c <> OutOfFuel).
    { intros c Hc. apply IH; [exact Hnd'|exact Hinc'|eapply children_incl; eauto|].
      rewrite app_length. simpl. lia. }
    generalize dependent (children g d). intros cs. generalize [Visit d].
    induction cs as [|c r IHr]; intros acc Hall'; [discriminate|].
    destruct (walk f g (anc ++ [d]) c) eqn:E.
    + apply IHr. intros c' Hc'. apply Hall'. right. exact Hc'.
    + discriminate.
    + exfalso. eapply Hall'; [left; reflexivity|exact E].
Qed.

Theorem walk_top_terminates g quirk d : In d (nodes g) ->
  walk_top (length (nodup N.eq_dec (nodes g)) + 3) g quirk d <> OutOfFuel.
Proof.
  intros Hd. replace (length (nodup N.eq_dec (nodes g)) + 3)%nat with (S (length (nodup N.eq_dec (nodes g)) + 2)) by lia.
  cbn [walk_top].
  assert (Hall: forall c, In c (children g d) ->
     walk (length (nodup N.eq_dec (nodes g)) + 2) g (if quirk then [] else [d]) c <> OutOfFuel).
  { intros c Hc. apply walk_fuel.
    - destruct quirk; constructor; [intros []|constructor].
    - destruct quirk; intros x Hx; [destruct Hx|destruct Hx as [<-|[]]; exact Hd].
    - eapply children_incl; eauto.
    - destruct quirk; simpl; lia. }
  generalize dependent (children g d). intros cs. generalize [Visit d].
  induction cs as [|c r IHr]; intros acc Hall'; [discriminate|].
  destruct (walk _ g _ c) eqn:E.
  - apply IHr. intros c' Hc'. apply Hall'. right. exact Hc'.
  - discriminate.
  - exfalso. eapply Hall'; [left; reflexivity|exact E].
Qed.
Print Assumptions walk_top_terminates.
