From Coq Require Import List NArith Bool Lia.
Import ListNotations.
Open Scope N_scope.
Definition cp := N.
Definition ustr := list cp.
Definition is_space (c:cp) : bool :=
  ((9 <=? c) && (c <=? 13)) || ((28 <=? c) && (c <=? 32)) || (c =? 133) || (c =? 160) || (c =? 5760)
  || ((8192 <=? c) && (c <=? 8202)) || (c =? 8232) || (c =? 8233) || (c =? 8239) || (c =? 8287) || (c =? 12288).
Definition disallowed (c:cp) : bool :=
  (c <=? 31) || ((127 <=? c) && (c <=? 159)) || is_space c || (c =? 92).
Definition hexdig (n:N) : cp := if n <? 10 then 48 + n else 55 + n.
Fixpoint hexfmt (k:nat) (n:N) : ustr :=
  match k with O => [] | S k' => hexfmt k' (n / 16) ++ [hexdig (n mod 16)] end.
Definition enc_char (c:cp) : ustr :=
  if c <=? 127 then 92 :: 120 :: hexfmt 2 c
  else if c <=? 65535 then 92 :: 117 :: hexfmt 4 c
  else 92 :: 85 :: hexfmt 8 c.
Definition encode (p:ustr) : ustr := flat_map (fun c => if disallowed c then enc_char c else [c]) p.
Definition hexval (c:cp) : option N :=
  if (48 <=? c) && (c <=? 57) then Some (c - 48)
  else if (65 <=? c) && (c <=? 70) then Some (c - 55)
  else if (97 <=? c) && (c <=? 102) then Some (c - 87) else None.
Fixpoint hexparse (k:nat) (s:ustr) (acc:N) : option (N * ustr) :=
  match k with O => Some (acc, s) | S k' =>
    match s with [] => None | c :: r => match hexval c with None => None | Some v => hexparse k' r (acc*16+v) end end end.
Definition esc (k:nat) (maxv:N) (rest:ustr) : option (cp * ustr) :=
  match hexparse k rest 0 with
  | Some (v, r) => if v <=? maxv then Some (v, r) else None
  | None => None end.
Definition esc_any (r:ustr) : option (cp * ustr) :=
  match r with
  | [] => None
  | k :: r' => if k =? 120 then esc 2 255 r' else if k =? 117 then esc 4 65535 r'
               else if k =? 85 then esc 8 1114111 r' else None end.
Fixpoint decode (fuel:nat) (s:ustr) : option ustr :=
  match fuel with O => None | S f =>
  match s with
  | [] => Some []
  | c :: r => if c =? 92 then
                match esc_any r with Some (v, r'') => option_map (cons v) (decode f r'') | None => None end
              else option_map (cons c) (decode f r)
  end end.
Definition dec (s:ustr) := decode (S (length s)) s.
