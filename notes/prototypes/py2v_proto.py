#!/usr/bin/env python3
"""Prototype fail-closed translator: a tiny pure subset of Python -> Gallina over the Py prelude."""
import ast, sys
class Unsupported(Exception): pass
def s2coq(s):  # python str literal -> Coq ustr literal (list N)
    return '[' + '; '.join(str(ord(c)) for c in s) + ']%N' if s else '([]:ustr)'
def expr(e, env):
    if isinstance(e, ast.Constant):
        if isinstance(e.value, str): return s2coq(e.value)
        if isinstance(e.value, bool): return 'true' if e.value else 'false'
        if isinstance(e.value, int): return f'({e.value})%Z'
        raise Unsupported(ast.dump(e))
    if isinstance(e, ast.Name):
        if e.id in env: return e.id
        raise Unsupported('free name '+e.id)
    if isinstance(e, ast.BoolOp):
        op = ' || ' if isinstance(e.op, ast.Or) else ' && '
        return '(' + op.join(expr(v, env) for v in e.values) + ')'
    if isinstance(e, ast.UnaryOp) and isinstance(e.op, ast.Not): return f'(negb {expr(e.operand, env)})'
    if isinstance(e, ast.Compare) and len(e.ops) == 1:
        l, r = expr(e.left, env), expr(e.comparators[0], env)
        if isinstance(e.ops[0], ast.Eq): return f'(ustr_eqb {l} {r})'
        if isinstance(e.ops[0], ast.NotEq): return f'(negb (ustr_eqb {l} {r}))'
        raise Unsupported(ast.dump(e))
    if isinstance(e, ast.BinOp) and isinstance(e.op, ast.Add): return f'({expr(e.left, env)} ++ {expr(e.right, env)})'
    if isinstance(e, ast.Call) and isinstance(e.func, ast.Attribute) and not e.keywords:
        recv = expr(e.func.value, env); args = [expr(a, env) for a in e.args]; m = e.func.attr
        table = {'startswith': ('py_startswith', 1), 'endswith': ('py_endswith', 1), 'rstrip': ('py_rstrip', 1)}
        if m in table and len(args) == table[m][1]: return f'({table[m][0]} {recv} {" ".join(args)})'
    raise Unsupported(ast.dump(e))
def func(f):
    if f.args.defaults or f.args.kwonlyargs or f.args.vararg or f.args.kwarg: raise Unsupported('signature of '+f.name)
    params = [a.arg for a in f.args.args]
    body = [s for s in f.body if not (isinstance(s, ast.Expr) and isinstance(s.value, ast.Constant))]  # docstring
    if len(body) != 1 or not isinstance(body[0], ast.Return): raise Unsupported('body of '+f.name)
    return f'Definition {f.name} {" ".join(f"({p} : ustr)" for p in params)} : bool :=\n  {expr(body[0].value, set(params))}.\n'
def main(src, names):
    t = ast.parse(open(src).read()); out = ['(* GENERATED from %s -- do not edit *)' % src, 'Require Import PyStr.', 'Import ListNotations. Open Scope bool_scope.', '']
    defs = {n.name: n for n in t.body if isinstance(n, ast.FunctionDef)}
    for n in names:
        if n not in defs: raise Unsupported('missing function '+n)
        out.append(func(defs[n]))
    return '\n'.join(out)
if __name__ == '__main__':
    try: print(main(sys.argv[1], sys.argv[2:]))
    except Unsupported as e: print('TRANSLATOR-ERROR:', e, file=sys.stderr); sys.exit(2)
