From Coq Require Import List NArith Bool Lia.
Require Import PyStr Util.
Import ListNotations.

Lemma ustr_eqb_eq a : forall b, ustr_eqb a b = true <-> a = b.
Proof.
  induction a as [|x a IH]; destruct b as [|y b]; simpl; split; intros H; try reflexivity; try discriminate.
  - apply andb_true_iff in H. destruct H as [H1 H2]. apply N.eqb_eq in H1. apply IH in H2. congruence.
  - inversion H; subst. rewrite N.eqb_refl. simpl. apply IH. reflexivity.
Qed.
Lemma startswith_iff s : forall p, py_startswith s p = true <-> exists r, s = p ++ r.
Proof.
  intros p. revert s. induction p as [|y p IH]; intros s; simpl.
  - split; [intros _; exists s; reflexivity|reflexivity].
  - destruct s as [|x s]; [split; [discriminate|intros [r H]; discriminate]|].
    rewrite andb_true_iff, N.eqb_eq, IH. split.
    + intros [-> [r ->]]. exists r. reflexivity.
    + intros [r H]. inversion H; subst. split; [reflexivity|exists r; reflexivity].
Qed.
Lemma snoc_cases (A:Type) (r : list A) : r = [] \/ exists r' a, r = r' ++ [a].
Proof. induction r as [|x r IH]; [left; reflexivity|right]. destruct IH as [->|[r' [a ->]]]; [exists [], x|exists (x::r'), a]; reflexivity. Qed.

Definition slash : cp := 47%N.
Definition starts_with_spec (path prefix : ustr) : Prop :=
  prefix = [] \/ let q := py_rstrip prefix [slash] in path = q \/ exists r, path = q ++ slash :: r.

Theorem path_starts_with_spec path prefix :
  path_starts_with path prefix = true <-> starts_with_spec path prefix.
Proof.
  unfold path_starts_with, starts_with_spec. rewrite orb_true_iff, ustr_eqb_eq, startswith_iff.
  fold slash. set (q := py_rstrip prefix [slash]). cbv zeta. split.
  - intros [H|[r H]]; [left; exact H|right].
    destruct (snoc_cases _ r) as [->|[r' [a ->]]].
    + left. rewrite app_nil_r in H. apply app_inv_tail in H. exact H.
    + right. exists r'. rewrite !app_assoc in H. apply app_inj_tail in H. destruct H as [H _].
      rewrite H, <- app_assoc. reflexivity.
  - intros [H|[H|[r H]]]; [left; exact H|right; exists []; rewrite H, app_nil_r; reflexivity|right].
    exists (r ++ [slash]). rewrite H. rewrite <- !app_assoc. reflexivity.
Qed.
Print Assumptions path_starts_with_spec.
(* look-alike prefixes are not prefixes: "foobar" vs "foo" *)
Example lookalike : path_starts_with [102;111;111;98;97;114]%N [102;111;111]%N = false /\
                    path_starts_with [102;111;111;47;98]%N [102;111;111]%N = true.
Proof. vm_compute. split; reflexivity. Qed.
