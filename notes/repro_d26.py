"""D26: a signed, compressed top-level Manifest that crosses the compression watermark on save is renamed by
recompression and written *unsigned*: save_manifest(new_mpath) runs before top_level_manifest_filename is updated.
Usage: PYTHONPATH=/repo /venv/bin/python notes/repro_d26.py    exit 1 = defect present"""
import gzip, io, os, sys, tempfile
from gemato.recursiveloader import ManifestRecursiveLoader
from gemato.openpgp import OpenPGPSignatureData  # noqa

class Env:
    def verify_file(self, f, require_all_good=True):
        f.read(); return None
    def clear_sign_file(self, f, outf, keyid=None):
        outf.write('-----BEGIN PGP SIGNED MESSAGE-----\nHash: SHA512\n\n' + f.read() +
                   '-----BEGIN PGP SIGNATURE-----\n\nFAKE\n-----END PGP SIGNATURE-----\n')

with tempfile.TemporaryDirectory() as d:
    open(os.path.join(d, 'a'), 'w').write('x')
    text = '-----BEGIN PGP SIGNED MESSAGE-----\nHash: SHA512\n\nDATA a 0\n-----BEGIN PGP SIGNATURE-----\n\nFAKE\n-----END PGP SIGNATURE-----\n'
    with gzip.open(os.path.join(d, 'Manifest.gz'), 'wt') as f:
        f.write(text)
    bad = 0
    for sign in (None, True):
        m = ManifestRecursiveLoader(os.path.join(d, 'Manifest.gz'), hashes=['SHA1'], verify_openpgp=True,
                                    openpgp_env=Env(), sign_openpgp=sign)
        assert m.loaded_manifests['Manifest.gz'].openpgp_signed
        m.update_entries_for_directory('')
        m.save_manifests(compress_watermark=100000, force=True)
        names = sorted(x for x in os.listdir(d) if x.startswith('Manifest'))
        data = open(os.path.join(d, names[0]), 'rb').read()
        if names[0].endswith('.gz'):
            data = gzip.decompress(data)
        signed = data.startswith(b'-----BEGIN PGP SIGNED')
        print(f'sign_openpgp={sign}: files={names} signed={signed}')
        if not signed:
            bad = 1
        # restore
        for x in names: os.unlink(os.path.join(d, x))
        with gzip.open(os.path.join(d, 'Manifest.gz'), 'wt') as f:
            f.write(text)
    sys.exit(bad)
