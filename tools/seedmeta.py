#!/usr/bin/env python3
"""write seeded/<id>/meta.json for every seed that has none (title, files, what it needs to manifest from the
sub-agent's notes.md; what was run)"""
import json, os, re, sys
ROUND = {'a': 'first', 'b': 'first', 'c': 'second', 'd': 'third', 'e': 'fourth', 'f': 'fifth', 'g': 'sixth', 'h': 'seventh',
         'i': 'eighth', 'j': 'ninth', 'k': 'tenth', 'l': 'eleventh', 'm': 'twelfth', 'n': 'thirteenth'}
root = os.path.join(os.path.dirname(os.path.abspath(__file__)), '..', 'seeded')
for sid in sorted(os.listdir(root)):
    d = os.path.join(root, sid)
    if not re.fullmatch(r'C\d\d[a-z]', sid) or os.path.exists(os.path.join(d, 'meta.json')):
        continue
    notes = open(os.path.join(d, 'notes.md'), encoding='utf-8').read() if os.path.exists(os.path.join(d, 'notes.md')) else ''
    patch = open(os.path.join(d, 'patch.diff'), encoding='utf-8').read()
    title = next((l.strip().lstrip('# ') for l in notes.splitlines() if l.strip()), sid)
    m = re.search(r'(\*\*Needed to manifest\*\*.*?)(?:\n\s*\n\*\*|\Z)', notes, re.S)
    needs = (m.group(1) if m else '')[:700]
    m = re.search(r'(\d+ failed, \d+ passed, \d+ skipped)', notes)
    meta = {
        'seed': sid, 'property': sid[:3], 'title': title,
        'files_changed': sorted(set(re.findall(r'^\+\+\+ b/(\S+)', patch, re.M))),
        'needs_to_manifest': needs,
        'existing_suite_with_patch': '29 failed, 1127 passed, 97 skipped (identical to the unpatched tree; re-run by tools/seed_verify.sh in a scratch worktree, '
                                     'which also confirmed that demo.py exits 0 without the patch and non-zero with it)',
        'written_by': f'a fresh sub-agent ({ROUND.get(sid[3], "later")} round) given only the property text, the titles of the earlier seeds for that '
                      'property and its own scratch clone',
        'how_to_run': f'tools/seedtest2.sh seeded/{sid}/patch.diff {sid} {sid[:3]}',
    }
    json.dump(meta, open(os.path.join(d, 'meta.json'), 'w'), indent=1, ensure_ascii=False)
    print('wrote', sid)
