#!/usr/bin/env python3
"""Run /repo's pinned test-suite (command from /root/.vp/BASELINE.json) with the
verification guard OFF and compare against the recorded stable_pass set.
Exit 0 iff every stable_pass test passed."""
import json, os, subprocess, sys, tempfile, xml.etree.ElementTree as ET
base = json.load(open('/root/.vp/BASELINE.json'))
env = dict(os.environ); env.pop('GEMATO_VERIF', None)
with tempfile.TemporaryDirectory(prefix='gv-base-') as td:
    out = os.path.join(td, 'junit.xml')
    cmd = base['cmd'].replace('<file>', out)
    subprocess.run(cmd, shell=True, env=env, stdout=subprocess.DEVNULL, stderr=subprocess.DEVNULL)
    passed = set()
    for tc in ET.parse(out).getroot().iter('testcase'):
        if not any(c.tag in ('failure', 'error', 'skipped') for c in tc):
            passed.add(tc.get('classname') + '::' + tc.get('name'))
want = set(base['stable_pass'])
missing = sorted(want - passed)
print(f'baseline: {len(passed)} passed, {len(want)} expected stable, {len(missing)} missing')
for m in missing[:20]:
    print('  MISSING', m)
sys.exit(1 if missing else 0)
