#!/bin/sh
# translate, build the Coq development (all proofs), extract and compile the OCaml driver.
# usage: build_model.sh [repo]      exit 0 = everything built
set -e
REPO=${1:-/repo}
HERE=$(cd "$(dirname "$0")/.." && pwd)
cd "$HERE"
/venv/bin/python tools/py2v.py "$REPO" || true     # a failed translation leaves a non-compiling Gen file (fail closed)
tools/mkproject.sh
cd coq
timeout 900 make -j16 >build.log 2>&1 || { tail -30 build.log; exit 1; }
if [ model.ml -nt extract/model_driver ] || [ extract/driver.ml -nt extract/model_driver ] || [ ! -x extract/model_driver ]; then
  cp model.ml model.mli extract/
  (cd extract && ulimit -s unlimited 2>/dev/null; ocamlfind ocamlopt -O3 -w -a -package str model.mli model.ml driver.ml -o model_driver 2>/dev/null || ocamlfind ocamlopt -w -a model.mli model.ml driver.ml -o model_driver)
fi
