#!/bin/sh
# usage: seed_verify.sh <seed-src-dir> <dest-id>   e.g. /tmp/seed/C09/a C09a
# Confirms in a scratch worktree: demo passes clean, fails with patch, test-suite unchanged with patch.
# Then stores the seed under /verif/seeded/<dest-id>/.
SRC=$1; ID=$2; WT=/tmp/wt/verify-$ID
git -C /repo worktree add -q --detach $WT HEAD || exit 1
trap 'git -C /repo worktree remove --force $WT' EXIT
cd $WT
PYTHONPATH=$WT /venv/bin/python $SRC/demo.py >/dev/null 2>&1; CLEAN=$?
git apply $SRC/patch.diff || { echo "patch does not apply"; exit 1; }
PYTHONPATH=$WT /venv/bin/python $SRC/demo.py >/dev/null 2>&1; PATCHED=$?
SUITE=$(/venv/bin/python -m pytest -q -p no:cacheprovider --timeout=900 2>&1 | tail -1)
echo "$ID: demo clean=$CLEAN patched=$PATCHED suite: $SUITE"
case "$SUITE" in *"29 failed, 1127 passed"*) ;; *) echo "suite changed"; exit 1;; esac
[ $CLEAN = 0 ] && [ $PATCHED != 0 ] || { echo "demo does not discriminate"; exit 1; }
mkdir -p /verif/seeded/$ID && cp $SRC/patch.diff $SRC/demo.py /verif/seeded/$ID/ && cp $SRC/notes.md /verif/seeded/$ID/notes.md
echo stored
