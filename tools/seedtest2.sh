#!/bin/sh
# usage: seedtest2.sh <patch.diff> <label> <check-id>...
# like seedtest.sh but never touches /repo or this directory's build: it works on a private clone of /repo and a
# private copy of the verification directory under a scratch dir (removed afterwards), so it can run while other checks run.
PATCH=$(readlink -f "$1"); LABEL=$2; shift 2
HERE=$(cd "$(dirname "$0")/.." && pwd)
S=$(mktemp -d /tmp/seedtest.XXXXXX)
trap 'rm -rf "$S"' EXIT
git clone -q /repo "$S/repo" || exit 2
(cd "$S/repo" && git apply "$PATCH") || { echo "seed=$LABEL patch does not apply"; exit 2; }
rsync -a --exclude .git --exclude replays --exclude 'work/*' "$HERE/" "$S/verif/"
mkdir -p "$S/verif/work" "$S/verif/replays"
for c in "$@"; do
  OUT=$(GEMATO_REPO="$S/repo" "$S/verif/check" $c --tier ${TIER:-quick} 2>&1); RC=$?
  echo "seed=$LABEL check=$c exit=$RC :: $(echo "$OUT" | grep -m1 VIOLATION) :: $(echo "$OUT" | tail -1)"
  if [ -n "$KEEP" ]; then mkdir -p "$KEEP"; cp "$S"/verif/replays/$c-* "$KEEP"/ 2>/dev/null; fi
done
