#!/usr/bin/env python3
"""Fail-closed translator: a small pure subset of Python (gemato's util.py, profile.py and
named constant tables) -> Gallina over the Py/ prelude.  Regenerates
coq/theories/Gen/{PyFacts,Util,Tables,Profile}.v from the sources under <repo>/gemato.
Anything outside the supported subset raises Unsupported => exit status 2 => the
obligation counts as broken.  Files are rewritten only when their text changes."""
import ast
import os
import re
import sys


class Unsupported(Exception):
    pass


def s2coq(s):
    return ('[' + '; '.join(str(ord(c)) for c in s) + ']') if s else '(@nil N)'


def bytes2coq(b):
    return ('[' + '; '.join(str(c) for c in b) + ']') if b else '(@nil N)'


def strlist2coq(xs):
    return ('[' + '; '.join(s2coq(x) for x in xs) + ']') if xs else '(@nil ustr)'


# --------------------------------------------------------------------------- expressions
# types: 'str', 'strlist', 'bool', 'int', 'optbool', 'none'
class Tr:
    def __init__(self, env, classes=None, cls=None):
        self.env = dict(env)          # name -> type
        self.classes = classes or {}
        self.cls = cls

    def lit_seq(self, e):
        """tuple/list of string literals -> python list of str, or None"""
        if isinstance(e, (ast.Tuple, ast.List)) and all(
                isinstance(x, ast.Constant) and isinstance(x.value, str) for x in e.elts):
            return [x.value for x in e.elts]
        return None

    def expr(self, e):
        if isinstance(e, ast.Constant):
            v = e.value
            if isinstance(v, bool):
                return ('true' if v else 'false', 'bool')
            if isinstance(v, str):
                return (s2coq(v), 'str')
            if isinstance(v, int):
                return (f'({v})%Z', 'int')
            if v is None:
                return ('None', 'none')
            raise Unsupported(ast.dump(e))
        if isinstance(e, ast.Name):
            if e.id in self.env:
                return (e.id, self.env[e.id])
            raise Unsupported('free name ' + e.id)
        if isinstance(e, ast.Attribute):
            # os.path.sep
            if (isinstance(e.value, ast.Attribute) and isinstance(e.value.value, ast.Name)
                    and e.value.value.id == 'os' and e.value.attr == 'path' and e.attr == 'sep'):
                return (s2coq('/'), 'str')
            raise Unsupported(ast.dump(e))
        lits = self.lit_seq(e)
        if lits is not None:
            return (strlist2coq(lits), 'strlist')
        if isinstance(e, ast.BoolOp):
            parts = [self.expr(v) for v in e.values]
            if any(t != 'bool' for _, t in parts):
                raise Unsupported('non-bool operand in ' + ast.dump(e))
            op = ' || ' if isinstance(e.op, ast.Or) else ' && '
            return ('(' + op.join(c for c, _ in parts) + ')', 'bool')
        if isinstance(e, ast.UnaryOp) and isinstance(e.op, ast.Not):
            c, t = self.expr(e.operand)
            if t != 'bool':
                raise Unsupported('not on non-bool')
            return (f'(negb {c})', 'bool')
        if isinstance(e, ast.Compare) and len(e.ops) == 1:
            op = e.ops[0]
            l, lt = self.expr(e.left)
            r, rt = self.expr(e.comparators[0])
            if isinstance(op, (ast.Eq, ast.NotEq)):
                if lt == rt == 'str':
                    c = f'(ustr_eqb {l} {r})'
                elif lt == rt == 'strlist':
                    c = f'(strlist_eqb {l} {r})'
                elif lt == rt == 'int':
                    c = f'(Z.eqb {l} {r})'
                else:
                    raise Unsupported(f'== on {lt},{rt}')
                return (c if isinstance(op, ast.Eq) else f'(negb {c})', 'bool')
            if isinstance(op, (ast.In, ast.NotIn)):
                if lt == 'str' and rt == 'strlist':
                    c = f'(mem_str {l} {r})'
                    return (c if isinstance(op, ast.In) else f'(negb {c})', 'bool')
                raise Unsupported(f'in on {lt},{rt}')
            if lt == rt == 'int':
                tbl = {ast.Lt: 'Z.ltb {l} {r}', ast.LtE: 'Z.leb {l} {r}',
                       ast.Gt: 'Z.ltb {r} {l}', ast.GtE: 'Z.leb {r} {l}'}
                for k, v in tbl.items():
                    if isinstance(op, k):
                        return ('(' + v.format(l=l, r=r) + ')', 'bool')
            raise Unsupported(ast.dump(e))
        if isinstance(e, ast.BinOp) and isinstance(e.op, ast.Add):
            l, lt = self.expr(e.left)
            r, rt = self.expr(e.right)
            if lt == rt == 'str':
                return (f'({l} ++ {r})', 'str')
            raise Unsupported('+ on ' + lt + ',' + rt)
        if isinstance(e, ast.Subscript):
            v, vt = self.expr(e.value)
            if vt != 'strlist':
                raise Unsupported('subscript on ' + vt)
            sl = e.slice
            if isinstance(sl, ast.Slice):
                if sl.step is not None or sl.lower is None or sl.upper is None:
                    raise Unsupported('slice form')
                a, b = sl.lower, sl.upper
                if not (isinstance(a, ast.Constant) and isinstance(b, ast.Constant)
                        and isinstance(a.value, int) and isinstance(b.value, int)
                        and 0 <= a.value <= b.value):
                    raise Unsupported('slice bounds')
                return (f'(slice {v} {a.value} {b.value})', 'strlist')
            if isinstance(sl, ast.Constant) and isinstance(sl.value, int) and sl.value >= 0:
                return (f'(nth_str {v} {sl.value})', 'str')
            raise Unsupported('subscript')
        if isinstance(e, ast.Call):
            return self.call(e)
        raise Unsupported(ast.dump(e))

    def call(self, e):
        if e.keywords:
            raise Unsupported('keywords in call')
        f = e.func
        if isinstance(f, ast.Name) and f.id == 'len' and len(e.args) == 1:
            v, vt = self.expr(e.args[0])
            if vt in ('strlist', 'str'):
                return (f'(len {v})', 'int')
            raise Unsupported('len of ' + vt)
        if isinstance(f, ast.Name) and f.id == 'any' and len(e.args) == 1 \
                and isinstance(e.args[0], ast.GeneratorExp):
            g = e.args[0]
            if len(g.generators) != 1 or g.generators[0].ifs or g.generators[0].is_async:
                raise Unsupported('generator form')
            gen = g.generators[0]
            if not isinstance(gen.target, ast.Name):
                raise Unsupported('generator target')
            xs, xt = self.expr(gen.iter)
            if xt != 'strlist':
                raise Unsupported('any over ' + xt)
            sub = Tr(self.env, self.classes, self.cls)
            sub.env[gen.target.id] = 'str'
            c, t = sub.expr(g.elt)
            if t != 'bool':
                raise Unsupported('any of non-bool')
            return (f'(existsb (fun {gen.target.id} => {c}) {xs})', 'bool')
        if isinstance(f, ast.Attribute):
            # super().method(args)
            if (isinstance(f.value, ast.Call) and isinstance(f.value.func, ast.Name)
                    and f.value.func.id == 'super' and not f.value.args):
                if self.cls is None:
                    raise Unsupported('super outside class')
                base = self.classes[self.cls]['base']
                owner = resolve(self.classes, base, f.attr)
                sig = SIGS[f.attr]
                args = [self.expr(a) for a in e.args]
                if [t for _, t in args] != [t for _, t in sig['params']]:
                    raise Unsupported('super call argument types')
                return (f'({owner}_{f.attr} ' + ' '.join(c for c, _ in args) + ')', sig['ret'])
            recv, rt = self.expr(f.value)
            args = [self.expr(a) for a in e.args]
            m = f.attr
            if rt == 'str':
                if m in ('startswith', 'endswith') and [t for _, t in args] == ['str']:
                    return (f'(py_{m} {recv} {args[0][0]})', 'bool')
                if m == 'rstrip' and [t for _, t in args] == ['str']:
                    return (f'(py_rstrip {recv} {args[0][0]})', 'str')
                if m == 'split' and [t for _, t in args] == ['str']:
                    a = e.args[0]
                    # only one-character separators (os.path.sep or a literal)
                    if isinstance(a, ast.Constant) and len(a.value) == 1:
                        return (f'(split_sep {recv} {ord(a.value)})', 'strlist')
                    if args[0][0] == s2coq('/'):
                        return (f'(split_sep {recv} 47)', 'strlist')
            raise Unsupported('method ' + m + ' on ' + rt)
        raise Unsupported(ast.dump(e))

    # ----------------------------------------------------------------------- statements
    def stmts(self, body, ret):
        body = [s for s in body
                if not (isinstance(s, ast.Expr) and isinstance(s.value, ast.Constant))
                and not isinstance(s, ast.Pass)]
        if not body:
            if ret == 'optbool':
                return 'None'
            raise Unsupported('fall off the end of a function returning ' + ret)
        s, rest = body[0], body[1:]
        if isinstance(s, ast.Return):
            if s.value is None:
                raise Unsupported('bare return')
            c, t = self.expr(s.value)
            return self.coerce(c, t, ret)
        if isinstance(s, ast.If):
            c, t = self.expr(s.test)
            if t != 'bool':
                raise Unsupported('if on ' + t)
            a = self.stmts(s.body + rest, ret)
            b = self.stmts(s.orelse + rest, ret)
            return f'(if {c} then {a} else {b})'
        if isinstance(s, ast.Assign) and len(s.targets) == 1 and isinstance(s.targets[0], ast.Name):
            c, t = self.expr(s.value)
            sub = Tr(self.env, self.classes, self.cls)
            sub.env[s.targets[0].id] = t
            return f'(let {s.targets[0].id} := {c} in {sub.stmts(rest, ret)})'
        if isinstance(s, ast.For) and not s.orelse and isinstance(s.target, ast.Name):
            # for v in xs: if c: return k      (k a literal)
            inner = [x for x in s.body if not (isinstance(x, ast.Expr) and isinstance(x.value, ast.Constant))]
            if (len(inner) == 1 and isinstance(inner[0], ast.If) and not inner[0].orelse
                    and len(inner[0].body) == 1 and isinstance(inner[0].body[0], ast.Return)
                    and isinstance(inner[0].body[0].value, ast.Constant)):
                it = s.iter
                # only "manifest.entries" with tests on e.tag is supported
                if (isinstance(it, ast.Attribute) and isinstance(it.value, ast.Name)
                        and self.env.get(it.value.id) == 'manifest' and it.attr == 'entries'):
                    v = s.target.id
                    test = inner[0].test
                    if (isinstance(test, ast.Compare) and len(test.ops) == 1
                            and isinstance(test.ops[0], ast.Eq)
                            and isinstance(test.left, ast.Attribute)
                            and isinstance(test.left.value, ast.Name) and test.left.value.id == v
                            and test.left.attr == 'tag'
                            and isinstance(test.comparators[0], ast.Constant)
                            and isinstance(test.comparators[0].value, str)):
                        k, kt = self.expr(inner[0].body[0].value)
                        kk = self.coerce(k, kt, ret)
                        tagc = s2coq(test.comparators[0].value)
                        return (f'(if existsb (fun t => ustr_eqb t {tagc}) {it.value.id} '
                                f'then {kk} else {self.stmts(rest, ret)})')
            raise Unsupported('for loop form')
        raise Unsupported('statement ' + ast.dump(s)[:80])

    def coerce(self, c, t, ret):
        if t == ret:
            return c
        if ret == 'optbool' and t == 'bool':
            return f'(Some {c})'
        if ret == 'optbool' and t == 'none':
            return 'None'
        raise Unsupported(f'return type {t} where {ret} expected')


COQTY = {'str': 'ustr', 'strlist': 'list ustr', 'bool': 'bool', 'int': 'Z',
         'optbool': 'option bool', 'manifest': 'list ustr'}

# method signatures of the profile classes (parameter types are fixed by the callers in
# recursiveloader.py; 'manifest' is passed as the list of its entries' tags)
SIGS = {
    'get_entry_type_for_path': {'params': [('path', 'str')], 'ret': 'str'},
    'want_manifest_in_directory': {'params': [('relpath', 'str'), ('dirnames', 'strlist'),
                                              ('filenames', 'strlist')], 'ret': 'bool'},
    'get_ignore_paths_for_new_manifest': {'params': [('relpath', 'str')], 'ret': 'strlist'},
    'want_compressed_manifest': {'params': [('relpath', 'str'), ('manifest', 'manifest'),
                                            ('unc_size', 'int'), ('compress_watermark', 'int')],
                                 'ret': 'optbool'},
}


def resolve(classes, cls, meth):
    while cls is not None:
        if meth in classes[cls]['methods']:
            return cls
        cls = classes[cls]['base']
    raise Unsupported('method ' + meth + ' not found')


def func_plain(f, params, ret):
    if f.args.defaults or f.args.kwonlyargs or f.args.vararg or f.args.kwarg:
        raise Unsupported('signature of ' + f.name)
    names = [a.arg for a in f.args.args]
    if names != [p for p, _ in params]:
        raise Unsupported(f'parameters of {f.name}: {names}')
    tr = Tr(dict(params))
    body = tr.stmts(f.body, ret)
    ps = ' '.join(f'({p} : {COQTY[t]})' for p, t in params)
    return f'Definition {f.name} {ps} : {COQTY[ret]} :=\n  {body}.\n'


HEADER = ('(* GENERATED by tools/py2v.py from {src} -- do not edit; regenerated on every run *)\n'
          'From Gemato Require Import Py.PyStr.\nOpen Scope N_scope.\nOpen Scope bool_scope.\n\n')


def gen_util(repo):
    src = os.path.join(repo, 'gemato/util.py')
    t = ast.parse(open(src).read())
    defs = {n.name: n for n in t.body if isinstance(n, ast.FunctionDef)}
    out = [HEADER.format(src='gemato/util.py')]
    for n, params in (('path_starts_with', [('path', 'str'), ('prefix', 'str')]),
                      ('path_inside_dir', [('path', 'str'), ('directory', 'str')])):
        if n not in defs:
            raise Unsupported('missing function ' + n)
        out.append(func_plain(defs[n], params, 'bool'))
    return ''.join(out)


# --------------------------------------------------------------------------- profile.py
def gen_profile(repo):
    src = os.path.join(repo, 'gemato/profile.py')
    t = ast.parse(open(src).read())
    classes = {}
    order = []
    for n in t.body:
        if isinstance(n, ast.ClassDef):
            if len(n.bases) > 1:
                raise Unsupported('multiple inheritance')
            base = None
            if n.bases:
                if not isinstance(n.bases[0], ast.Name) or n.bases[0].id not in classes:
                    raise Unsupported('base class of ' + n.name)
                base = n.bases[0].id
            methods, name = {}, None
            for s in n.body:
                if isinstance(s, ast.FunctionDef):
                    methods[s.name] = s
                elif (isinstance(s, ast.Assign) and len(s.targets) == 1
                      and isinstance(s.targets[0], ast.Name) and s.targets[0].id == 'name'
                      and isinstance(s.value, ast.Constant)):
                    name = s.value.value
                elif isinstance(s, ast.Expr) and isinstance(s.value, ast.Constant):
                    pass
                else:
                    raise Unsupported('class body statement in ' + n.name)
            classes[n.name] = {'base': base, 'methods': methods, 'name': name}
            order.append(n.name)
    want = ['DefaultProfile', 'EbuildRepositoryProfile', 'BackwardsCompatEbuildRepositoryProfile']
    if order != want:
        raise Unsupported('profile classes: ' + repr(order))
    out = [HEADER.format(src='gemato/profile.py')]
    out.append('Record loader_opts := mk_lo { lo_hashes : option (list ustr); lo_sort : option bool;\n'
               '  lo_compress_watermark : option Z; lo_compress_format : option ustr }.\n\n')
    for cls in order:
        for m, sig in SIGS.items():
            owner = resolve(classes, cls, m)
            ps = ' '.join(f'({p} : {COQTY[ty]})' for p, ty in sig['params'])
            if owner != cls:
                args = ' '.join(p for p, _ in sig['params'])
                out.append(f'Definition {cls}_{m} {ps} : {COQTY[sig["ret"]]} := {owner}_{m} {args}.\n')
                continue
            f = classes[cls]['methods'][m]
            if f.args.defaults or f.args.kwonlyargs or f.args.vararg or f.args.kwarg or f.decorator_list:
                raise Unsupported('signature of ' + m)
            names = [a.arg for a in f.args.args]
            if names != ['self'] + [p for p, _ in sig['params']]:
                raise Unsupported(f'parameters of {cls}.{m}: {names}')
            tr = Tr(dict(sig['params']), classes, cls)
            ret = sig['ret']
            body = tr.stmts(f.body, ret) if not is_empty_tuple_return(f) else '(@nil ustr)'
            out.append(f'Definition {cls}_{m} {ps} : {COQTY[ret]} :=\n  {body}.\n')
        # set_loader_options
        owner = resolve(classes, cls, 'set_loader_options')
        if owner != cls:
            out.append(f'Definition {cls}_set_loader_options (o : loader_opts) : loader_opts := '
                       f'{owner}_set_loader_options o.\n')
        else:
            out.append(gen_set_loader_options(cls, classes[cls]['methods']['set_loader_options']))
        out.append(f'Definition {cls}_name : ustr := {s2coq(classes[cls]["name"])}.\n\n')
    # PROFILE_MAPPING: names must be the class 'name' attributes of exactly these classes
    pm = [n for n in t.body if isinstance(n, ast.Assign) and isinstance(n.targets[0], ast.Name)
          and n.targets[0].id == 'PROFILE_MAPPING']
    if len(pm) != 1:
        raise Unsupported('PROFILE_MAPPING')
    names_in = [x.id for x in ast.walk(pm[0].value) if isinstance(x, ast.Name) and x.id in classes]
    if names_in != want:
        raise Unsupported('PROFILE_MAPPING members: ' + repr(names_in))
    other = [type(n).__name__ for n in t.body
             if not isinstance(n, (ast.ClassDef, ast.Import, ast.ImportFrom))
             and n not in pm
             and not (isinstance(n, ast.FunctionDef) and n.name == 'get_profile_by_name')
             and not (isinstance(n, ast.Expr) and isinstance(n.value, ast.Constant))]
    if other:
        raise Unsupported('unexpected top-level statements in profile.py: ' + repr(other))
    return ''.join(out)


def is_empty_tuple_return(f):
    body = [s for s in f.body if not (isinstance(s, ast.Expr) and isinstance(s.value, ast.Constant))]
    return (len(body) == 1 and isinstance(body[0], ast.Return)
            and isinstance(body[0].value, ast.Tuple) and not body[0].value.elts)


def gen_set_loader_options(cls, f):
    names = [a.arg for a in f.args.args]
    if names != ['self', 'loader']:
        raise Unsupported('set_loader_options parameters')
    body = [s for s in f.body if not (isinstance(s, ast.Expr) and isinstance(s.value, ast.Constant))
            and not isinstance(s, ast.Pass)]
    fields = {'hashes': 'strlist', 'sort': 'bool', 'compress_watermark': 'int', 'compress_format': 'str'}
    expr = 'o'
    steps = []
    for s in body:
        # if loader.X is None: loader.X = <literal>
        ok = (isinstance(s, ast.If) and not s.orelse and isinstance(s.test, ast.Compare)
              and len(s.test.ops) == 1 and isinstance(s.test.ops[0], ast.Is)
              and isinstance(s.test.left, ast.Attribute) and isinstance(s.test.left.value, ast.Name)
              and s.test.left.value.id == 'loader'
              and isinstance(s.test.comparators[0], ast.Constant) and s.test.comparators[0].value is None)
        if not ok:
            raise Unsupported('set_loader_options statement')
        fld = s.test.left.attr
        inner = [x for x in s.body if not (isinstance(x, ast.Expr) and isinstance(x.value, ast.Constant))]
        if (fld not in fields or len(inner) != 1 or not isinstance(inner[0], ast.Assign)
                or len(inner[0].targets) != 1
                or ast.unparse(inner[0].targets[0]) != ast.unparse(s.test.left)):
            raise Unsupported('set_loader_options assignment')
        c, t = Tr({}).expr(inner[0].value)
        if t != fields[fld]:
            raise Unsupported('set_loader_options value type')
        steps.append((fld, c))
    for fld, c in steps:
        upd = {f: f'lo_{f} o' for f in fields}
        upd[fld] = f'Some {c}'
        rec = 'mk_lo ' + ' '.join(f'({upd[f]})' for f in fields)
        expr = (f'(let o := {expr} in match lo_{fld} o with None => {rec} | Some _ => o end)')
    return (f'Definition {cls}_set_loader_options (o : loader_opts) : loader_opts :=\n  {expr}.\n')


# --------------------------------------------------------------------------- tables
def find_assign(tree, name):
    for n in ast.walk(tree):
        if isinstance(n, ast.Assign) and len(n.targets) == 1 and isinstance(n.targets[0], ast.Name) \
                and n.targets[0].id == name:
            return n.value
    raise Unsupported('constant ' + name + ' not found')


def charclass_to_coq(pat):
    """[...] regex character class -> Gallina predicate on c (fail closed on anything unknown)"""
    if not (pat.startswith('[') and pat.endswith(']')) or pat.startswith('[^'):
        raise Unsupported('character class ' + pat)
    body = pat[1:-1]
    items, i = [], 0

    def atom(i):
        if body[i] == '\\':
            if body[i + 1] == 'x':
                return int(body[i + 2:i + 4], 16), i + 4
            if body[i + 1] == '\\':
                return 92, i + 2
            if body[i + 1] == 's':
                return 's', i + 2
            raise Unsupported('escape in class: ' + body[i:i + 2])
        if body[i] in '[]^-':
            raise Unsupported('metacharacter in class')
        return ord(body[i]), i + 1
    while i < len(body):
        a, i = atom(i)
        if a == 's':
            items.append('is_space c')
            continue
        if i < len(body) and body[i] == '-' and i + 1 < len(body):
            b, i = atom(i + 1)
            if b == 's' or b < a:
                raise Unsupported('range in class')
            items.append(f'(({a} <=? c) && (c <=? {b}))')
        else:
            items.append(f'(c =? {a})')
    return ' || '.join(items)


def escape_re_forms(pat):
    m = re.fullmatch(r'\\\\\((.*)\)\?', pat)
    if not m:
        raise Unsupported('escape regex ' + pat)
    forms = []
    for alt in m.group(1).split('|'):
        mm = re.fullmatch(r'([A-Za-z])\[0-9a-fA-F\]\{(\d+)\}', alt)
        if not mm:
            raise Unsupported('escape alternative ' + alt)
        forms.append((ord(mm.group(1)), int(mm.group(2))))
    return forms


def encode_forms(fdef):
    """encode_char: if cp <= A: return f'\\x{cp:02X}' elif ... else ... -> [(bound|None, letter, width, upper)]"""
    body = [s for s in fdef.body if not (isinstance(s, ast.Expr) and isinstance(s.value, ast.Constant))]
    # assert len(m.group(0)) == 1 ; cp = ord(m.group(0)) ; if chain
    if len(body) != 3 or not isinstance(body[0], ast.Assert) or not isinstance(body[1], ast.Assign) \
            or not isinstance(body[2], ast.If):
        raise Unsupported('encode_char shape')
    if ast.unparse(body[1]) != 'cp = ord(m.group(0))':
        raise Unsupported('encode_char: ' + ast.unparse(body[1]))

    def fmt(ret):
        if not (isinstance(ret, ast.Return) and isinstance(ret.value, ast.JoinedStr)
                and len(ret.value.values) == 2 and isinstance(ret.value.values[0], ast.Constant)
                and isinstance(ret.value.values[1], ast.FormattedValue)):
            raise Unsupported('encode_char return')
        pre = ret.value.values[0].value
        fv = ret.value.values[1]
        if len(pre) != 2 or pre[0] != '\\' or ast.unparse(fv.value) != 'cp' or fv.conversion != -1:
            raise Unsupported('encode_char prefix')
        spec = ''.join(v.value for v in fv.format_spec.values)
        mm = re.fullmatch(r'0(\d)([Xx])', spec)
        if not mm:
            raise Unsupported('encode_char format ' + spec)
        return ord(pre[1]), int(mm.group(1)), mm.group(2) == 'X'
    forms, node = [], body[2]
    while True:
        t = node.test
        if not (isinstance(t, ast.Compare) and len(t.ops) == 1 and isinstance(t.ops[0], ast.LtE)
                and ast.unparse(t.left) == 'cp' and isinstance(t.comparators[0], ast.Constant)):
            raise Unsupported('encode_char test')
        if len(node.body) != 1:
            raise Unsupported('encode_char branch')
        forms.append((t.comparators[0].value,) + fmt(node.body[0]))
        if len(node.orelse) == 1 and isinstance(node.orelse[0], ast.If):
            node = node.orelse[0]
            continue
        if len(node.orelse) != 1:
            raise Unsupported('encode_char else')
        forms.append((None,) + fmt(node.orelse[0]))
        break
    return forms


def gen_tables(repo):
    out = [HEADER.format(src='gemato/{manifest,verify,compression,hash,openpgp,find_top_level}.py')]
    P = lambda f: ast.parse(open(os.path.join(repo, 'gemato', f)).read())
    man, ver, comp, hsh, pgp, ftl = (P(x) for x in ('manifest.py', 'verify.py', 'compression.py',
                                                   'hash.py', 'openpgp.py', 'find_top_level.py'))
    # MANIFEST_TAG_MAPPING: tag text -> class name ; class tag attributes
    d = find_assign(man, 'MANIFEST_TAG_MAPPING')
    if not isinstance(d, ast.Dict) or not all(isinstance(k, ast.Constant) and isinstance(v, ast.Name)
                                              for k, v in zip(d.keys, d.values)):
        raise Unsupported('MANIFEST_TAG_MAPPING')
    out.append('Definition tag_mapping : list (ustr * ustr) :=\n  ['
               + ';\n   '.join(f'({s2coq(k.value)}, {s2coq(v.id)})' for k, v in zip(d.keys, d.values))
               + '].\n')
    ctags = []
    for n in man.body:
        if isinstance(n, ast.ClassDef):
            for s in n.body:
                if isinstance(s, ast.Assign) and isinstance(s.targets[0], ast.Name) and s.targets[0].id == 'tag':
                    ctags.append((n.name, s.value.value))
    out.append('Definition class_tags : list (ustr * ustr) :=\n  ['
               + ';\n   '.join(f'({s2coq(c)}, {s2coq(t)})' for c, t in ctags) + '].\n')
    # hash table
    d = find_assign(man, 'MANIFEST_HASH_MAPPING')
    if not isinstance(d, ast.Dict) or not all(isinstance(k, ast.Constant) and isinstance(v, ast.Constant)
                                              for k, v in zip(d.keys, d.values)):
        raise Unsupported('MANIFEST_HASH_MAPPING')
    out.append('Definition manifest_hash_mapping : list (ustr * ustr) :=\n  ['
               + ';\n   '.join(f'({s2coq(k.value)}, {s2coq(v.value)})' for k, v in zip(d.keys, d.values))
               + '].\n')
    # regexes and encode_char
    cls = {n.name: n for n in man.body if isinstance(n, ast.ClassDef)}
    pe = cls.get('ManifestPathEntry')
    if pe is None:
        raise Unsupported('ManifestPathEntry')
    rx = {}
    for s in pe.body:
        if isinstance(s, ast.Assign) and isinstance(s.targets[0], ast.Name) and s.targets[0].id.endswith('_re'):
            c = s.value
            if not (isinstance(c, ast.Call) and ast.unparse(c.func) == 're.compile'):
                raise Unsupported('regex definition')
            extra = [ast.unparse(a) for a in c.args[1:]]
            if extra not in ([], ['re.U']):
                raise Unsupported('regex flags ' + repr(extra))
            rx[s.targets[0].id] = c.args[0].value
    out.append('Definition disallowed_path_char (c : cp) : bool :=\n  '
               + charclass_to_coq(rx['disallowed_path_re']) + '.\n')
    out.append('(* (letter, number of hex digits) of each alternative, in order *)\n'
               'Definition escape_forms : list (cp * nat) :=\n  ['
               + '; '.join(f'({l}, {k}%nat)' for l, k in escape_re_forms(rx['escape_seq_re'])) + '].\n')
    ef = [s for s in pe.body if isinstance(s, ast.FunctionDef) and s.name == 'encode_char']
    if len(ef) != 1:
        raise Unsupported('encode_char')
    out.append('(* (upper bound of the code point or None, letter, width, upper-case hex) *)\n'
               'Definition encode_forms : list (option N * cp * nat * bool) :=\n  ['
               + '; '.join('(%s, %d, %d%%nat, %s)' % (('Some %d' % b) if b is not None else 'None', l, w,
                                                       'true' if u else 'false')
                           for b, l, w, u in encode_forms(ef[0])) + '].\n')
    # COMPATIBLE_TAGS
    ct = Tr({}).lit_seq(find_assign(ver, 'COMPATIBLE_TAGS'))
    if ct is None:
        raise Unsupported('COMPATIBLE_TAGS')
    out.append(f'Definition compatible_tags : list ustr := {strlist2coq(ct)}.\n')
    # compression suffix tuples
    fd = {n.name: n for n in comp.body if isinstance(n, ast.FunctionDef)}
    g = fd['get_potential_compressed_names']
    tup = [n for n in ast.walk(g) if isinstance(n, ast.Tuple)]
    if len(tup) != 1 or Tr({}).lit_seq(tup[0]) is None or \
            ast.unparse([s for s in g.body if isinstance(s, ast.Return)][0]) \
            != 'return [path + x for x in ' + ast.unparse(tup[0]) + ']':
        raise Unsupported('get_potential_compressed_names')
    out.append(f'Definition potential_suffixes : list ustr := {strlist2coq(Tr({}).lit_seq(tup[0]))}.\n')
    g = fd['get_compressed_suffix_from_filename']
    tup = [n for n in ast.walk(g) if isinstance(n, ast.Tuple) and Tr({}).lit_seq(n) is not None
           and all(x.startswith('.') for x in Tr({}).lit_seq(n))]
    if len(tup) != 1:
        raise Unsupported('get_compressed_suffix_from_filename')
    out.append(f'Definition compressed_exts : list ustr := {strlist2coq(Tr({}).lit_seq(tup[0]))}.\n')
    # suffixes handled by open_compressed_file, in order
    g = fd['open_compressed_file']
    sufs = [n.comparators[0].value for n in ast.walk(g)
            if isinstance(n, ast.Compare) and ast.unparse(n.left) == 'suffix'
            and isinstance(n.ops[0], ast.Eq) and isinstance(n.comparators[0], ast.Constant)]
    out.append(f'Definition codec_suffixes : list ustr := {strlist2coq(sufs)}.\n')
    # hash.py sizes
    for nm in ('HASH_BUFFER_SIZE', 'MAX_SLURP_SIZE'):
        v = find_assign(hsh, nm)
        if not (isinstance(v, ast.Constant) and isinstance(v.value, int)):
            raise Unsupported(nm)
        out.append(f'Definition {nm} : N := {v.value}.\n')
    # openpgp.py: the accepted TRUST_ tuple and the status prefixes tested in verify_file
    vf = None
    for n in ast.walk(pgp):
        if isinstance(n, ast.ClassDef) and n.name == 'SystemGPGEnvironment':
            for s in n.body:
                if isinstance(s, ast.FunctionDef) and s.name == 'verify_file':
                    vf = s
    if vf is None:
        raise Unsupported('verify_file')
    tt = [n for n in ast.walk(vf) if isinstance(n, ast.Compare) and isinstance(n.ops[0], ast.In)
          and ast.unparse(n.left) == 'spl[1]']
    if len(tt) != 1 or not isinstance(tt[0].comparators[0], ast.Tuple):
        raise Unsupported('TRUST tuple')
    trust = [x.value for x in tt[0].comparators[0].elts]
    if not all(isinstance(x, bytes) for x in trust):
        raise Unsupported('TRUST tuple elements')
    out.append('Definition trust_accepted : list bytes := ['
               + '; '.join(bytes2coq(x) for x in trust) + '].\n')
    pref = [n.args[0].value for n in ast.walk(vf)
            if isinstance(n, ast.Call) and isinstance(n.func, ast.Attribute) and n.func.attr == 'startswith'
            and ast.unparse(n.func.value) == 'line' and isinstance(n.args[0], ast.Constant)]
    out.append('Definition status_prefixes : list bytes := ['
               + '; '.join(bytes2coq(x) for x in pref) + '].\n')
    # find_top_level: default manifest_filenames tuple
    v = find_assign(ftl, 'manifest_filenames')
    mf = Tr({}).lit_seq(v)
    if mf is None:
        raise Unsupported('manifest_filenames')
    out.append(f'Definition top_manifest_filenames : list ustr := {strlist2coq(mf)}.\n')
    return ''.join(out)


def gen_pyfacts():
    """CPython facts (of the interpreter running the implementation side)."""
    nd = [c for c in range(0x110000) if chr(c).isdecimal()]
    s = set(nd)
    starts = [c for c in nd if int(chr(c)) == 0]
    assert all(all((st + k) in s and int(chr(st + k)) == k for k in range(10)) for st in starts)
    assert len(nd) == 10 * len(starts)
    return (HEADER.format(src='the CPython interpreter (%s)' % sys.version.split()[0])
            + '(* first code point of each run of ten Unicode decimal digits *)\n'
            + 'Definition nd_starts : list N := [' + '; '.join(map(str, starts)) + '].\n')


def write_if_changed(path, text):
    try:
        if open(path).read() == text:
            return False
    except FileNotFoundError:
        pass
    with open(path, 'w') as f:
        f.write(text)
    return True


def main():
    repo = sys.argv[1] if len(sys.argv) > 1 else '/repo'
    outdir = sys.argv[2] if len(sys.argv) > 2 else os.path.join(
        os.path.dirname(os.path.abspath(__file__)), '..', 'coq', 'theories', 'Gen')
    os.makedirs(outdir, exist_ok=True)
    status = 0
    for name, fn in (('PyFacts.v', gen_pyfacts), ('Util.v', lambda: gen_util(repo)),
                     ('Tables.v', lambda: gen_tables(repo)), ('Profile.v', lambda: gen_profile(repo))):
        try:
            text = fn()
        except (Unsupported, SyntaxError, KeyError, IndexError, AttributeError, TypeError) as e:
            print(f'TRANSLATOR-ERROR {name}: {type(e).__name__}: {e}', file=sys.stderr)
            # fail closed: the generated file is replaced by one that does not compile
            write_if_changed(os.path.join(outdir, name),
                             f'(* translation failed: {type(e).__name__} *)\nTranslation_failed.\n')
            status = 2
            continue
        if write_if_changed(os.path.join(outdir, name), text):
            print('regenerated', name)
    sys.exit(status)


if __name__ == '__main__':
    main()
