#!/bin/sh
# (re)generate coq/_CoqProject file list and Makefile from the files on disk
cd "$(dirname "$0")/../coq" || exit 1
{ echo "-Q theories Gemato"; echo "-arg -w -arg -notation-overridden,-deprecated-hint-without-locality,-ambiguous-paths"; find theories -name '*.v' | sort; } > _CoqProject.new
if ! cmp -s _CoqProject.new _CoqProject || [ ! -f Makefile ]; then mv _CoqProject.new _CoqProject; coq_makefile -f _CoqProject -o Makefile >/dev/null; else rm _CoqProject.new; fi
