#!/bin/sh
# run every seeded mutation against the check of its own property (isolated copies; 4 at a time); writes seeded/MATRIX.txt
HERE=$(cd "$(dirname "$0")/.." && pwd)
cd "$HERE"
OUT=$(mktemp /tmp/matrix.XXXXXX)
ls seeded | grep '^C[0-9][0-9][a-z]$' | xargs -P ${JOBS:-4} -I{} sh -c 'id={}; p=$(echo $id | cut -c1-3); tools/seedtest2.sh seeded/$id/patch.diff $id $p 2>&1 | cut -c1-330' >> "$OUT"
sort "$OUT" | sed 's#/tmp/seedtest\.[A-Za-z0-9]*/verif#/verif#' > seeded/MATRIX.txt
rm -f "$OUT"
grep -c 'exit=1' seeded/MATRIX.txt
