#!/usr/bin/env python3
"""Regenerate /verif/MANIFEST.json from tools/corr/registry.py (claimed checks) and
properties.jsonl (everything else goes to not_applicable with a reason)."""
import json, os, sys
V = os.path.abspath(os.path.join(os.path.dirname(os.path.abspath(__file__)), '..'))
sys.path.insert(0, os.path.join(V, 'tools', 'corr'))
import common, registry  # noqa
props = [json.loads(l) for l in open(os.path.join(V, 'properties.jsonl'))]
NOT_YET = 'check not built yet in this development (build order: DESIGN.md section 10); no claim is made'
meta = registry.META
checks, na = [], []
for p in props:
    pid = p['id']
    if pid in common.PROPS:
        m = meta[pid]
        checks.append({
            'property_id': pid,
            'quick_cmd': f'./check {pid} --tier quick',
            'thorough_cmd': f'./check {pid} --tier thorough',
            'evidence_file': f'/verif/evidence/{pid}.json',
            'replay_cmd_template': f'./check {pid} --replay {{path}}',
            'engine': m['engine'],
            'level_claimed': {'category': 'proof', 'text': m['level_text'], 'design_ref': m['design_ref']},
            'level_note': m['level_note'],
            'technique': m['technique'],
        })
    else:
        na.append({'property_id': pid, 'reason': registry.NOT_APPLICABLE.get(pid, NOT_YET)})
man = {
    'version': 1,
    'setup_cmd': 'tools/build_model.sh /repo',
    'hooks': {'guard': 'GEMATO_VERIF',
              'enable': 'no source hooks: every instrumentation (scandir order, fault injection, clock, gpg transcripts) is an in-process patch made by the harness; checks import gemato from /repo as it is',
              'baseline_off_cmd': 'python3 /verif/tools/baseline.py', 'source_commits': [], 'add_only': True},
    'engines': [
        {'name': 'coq', 'path': 'coq/theories', 'serves_properties': [c['property_id'] for c in checks],
         'kind_free_text': 'Coq 8.16.1 development: Py/ (CPython builtins), Gen/ (generated from /repo by tools/py2v.py on every run), Model/, Proofs/, Properties/Cxx.v (statements + Print Assumptions), Exec/ (extraction)'},
        {'name': 'text', 'path': 'tools/corr/engine_text.py', 'serves_properties': ['C08', 'C09', 'C04', 'C18'],
         'kind_free_text': 'differential: gemato.manifest in-process vs extracted Gallina model; generators for entries, grammar lines, token sequences, mutations, escapes'},
    ],
    'checks': checks,
    'not_applicable': na,
    'notes': 'Every check: regenerate Gen/*.v from /repo, rebuild all Coq proofs (make), re-check Properties/<id>.v with Print Assumptions, then run the correspondence engines against /repo imported in-process. See DESIGN.md.',
}
json.dump(man, open(os.path.join(V, 'MANIFEST.json'), 'w'), indent=1)
print('claimed:', [c['property_id'] for c in checks])
