#!/bin/sh
# usage: seedtest.sh <seed-id> <check-id>...  : apply the seeded patch to /repo, run the checks (quick), undo.
SEED=$1; shift
cd /repo && git apply /verif/seeded/$SEED/patch.diff || exit 2
trap 'git -C /repo checkout -- .' EXIT
cd /verif
for c in "$@"; do
  OUT=$(./check $c --tier ${TIER:-quick} 2>&1); RC=$?
  echo "seed=$SEED check=$c exit=$RC :: $(echo "$OUT" | grep -m1 VIOLATION) :: $(echo "$OUT" | tail -1)"
done
