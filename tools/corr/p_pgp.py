"""Checks for C04 (signed content only) and C05 (signature acceptance rule)."""
import io
import itertools
import os

import engine_text as T
import impl
from sx import run_model

BEGIN = '-----BEGIN PGP SIGNED MESSAGE-----'
SIGBEGIN = '-----BEGIN PGP SIGNATURE-----'
END = '-----END PGP SIGNATURE-----'
CLASSES = [BEGIN, SIGBEGIN, END, '-----BEGIN PGP MESSAGE-----', '', 'Hash: SHA256', 'DATA a 0',
           '- DATA b 1', '- ' + SIGBEGIN, 'junk line']
EXTRA = [' ', BEGIN + ' ', '- ' + BEGIN, 'IGNORE x', '-----', '- - DATA c 2', 'iQEzBAEBCgAdFiEE', '\t', 'TIMESTAMP 2017-01-01T00:00:00Z',
         '-DATA d 3', END + '\t', '=BR6/']


def seq_text(seq, final_nl, eol='\n'):
    t = eol.join(seq)
    if seq and final_nl:
        t += eol
    return t


def check_texts(ctx, texts, label, nontrivial=None):
    """load with verification (recording env): model vs implementation, plus the Coq spec checker
    c04_b evaluated on the implementation's own output"""
    im = [impl.load(t, 1) for t in texts]
    dis, model = T.compare(ctx, 'text', [['load', t, 1] for t in texts], im, label, nontrivial=nontrivial)
    for d in dis[:6]:
        ctx.violation('correspondence', 'load(verify) differs between model and implementation', d)
    # spec on implementation output
    reqs, idx = [], []
    for i, (t, x) in enumerate(zip(texts, im)):
        if x[0] == 'ok' and x[1][1]:
            reqs.append(['c04_b', t, x[1][0], x[1][1][0]])
            idx.append(i)
        elif x[0] == 'ok' and BEGIN + '\n' in t.replace('\r\n', '\n').replace('\r', '\n') + '\n' \
                and any(l == BEGIN for l in t.replace('\r\n', '\n').replace('\r', '\n').split('\n')[:-1] or [t]):
            # a complete BEGIN line is present but verify_file was never called
            lines = t.replace('\r\n', '\n').replace('\r', '\n').split('\n')
            complete = lines[:-1]
            if BEGIN in complete:
                ctx.violation('spec', 'text contains a BEGIN-SIGNED line but was accepted without signature verification',
                              {'text': t, 'impl': x})
        elif x[0] == 'err' and x[1][0] not in ('ManifestSyntaxError', 'ManifestUnsignedData'):
            ctx.violation('spec', f'exception {x[1]} escapes the loader', {'text': t, 'impl': x})
    res = run_model(reqs)
    signed_ok = 0
    for i, ok in zip(idx, res):
        if ok == 1:
            signed_ok += 1
        else:
            ctx.violation('spec', 'the entries / the text handed to verify_file are not exactly the signed content '
                          '(Spec/Cleartext.v c04_b fails on the implementation output)',
                          {'text': texts[i], 'impl': im[i]})
    e = ctx.cov['engines'].setdefault('text:' + label, {})
    e['accepted_as_signed'] = e.get('accepted_as_signed', 0) + signed_ok
    e['rejected'] = e.get('rejected', 0) + sum(1 for x in im if x[0] == 'err')
    return im


def c04(ctx):
    quick = ctx.tier == 'quick'
    r = ctx.rng('c04')
    # 1. exhaustive sequences over the ten line classes
    maxlen = 4 if quick else 6
    texts = []
    for n in range(0, maxlen + 1):
        for seq in itertools.product(CLASSES, repeat=n):
            texts.append(seq_text(seq, True))
            if n:
                texts.append(seq_text(seq, False))
    check_texts(ctx, texts, 'lineclass-exhaustive', nontrivial=len(texts))
    ctx.cov['engines']['text:lineclass-exhaustive']['exhaustive'] = True
    ctx.cov['engines']['text:lineclass-exhaustive']['max_length'] = maxlen
    # 2. random longer sequences over the extended class set, biased towards well-formed frameworks
    texts = []
    allc = CLASSES + EXTRA
    for i in range(20000 if quick else 300000):
        k = r.random()
        if k < 0.5:
            seq = [r.choice(allc) for _ in range(r.randint(5, 9))]
        else:
            body = [r.choice(['DATA a 0', '- DATA b 1', '', 'IGNORE x', '- ' + SIGBEGIN, '- - DATA c 2', ' ', 'junk line',
                              'TIMESTAMP 2017-01-01T00:00:00Z'][:r.choice([6, 6, 9])]) for _ in range(r.randint(0, 4))]
            seq = ([r.choice(['', ' '])] * r.randint(0, 1) + [BEGIN] + ['Hash: SHA256'] * r.randint(0, 2) + [r.choice(['', '', ' ', '\t'])]
                   + body + [SIGBEGIN] + [r.choice(['', 'iQEzBAEBCgAdFiEE', '=BR6/', 'Version: x'])] * r.randint(0, 3) + [END]
                   + [r.choice(['', ' ', 'DATA z 9', BEGIN])] * r.randint(0, 2))
            for _ in range(r.choice([0, 0, 1, 2])):
                j = r.randrange(len(seq) + 1)
                m = r.random()
                if m < 0.4 and seq:
                    del seq[min(j, len(seq) - 1)]
                elif m < 0.8:
                    seq.insert(j, r.choice(allc))
                elif seq:
                    a = seq.pop(min(j, len(seq) - 1))
                    seq.insert(r.randrange(len(seq) + 1), a)
        texts.append(seq_text(seq, r.random() < 0.8, r.choice(['\n', '\n', '\n', '\r\n', '\r'])))
    check_texts(ctx, texts, 'lineclass-random', nontrivial=len(set(texts)))
    # 3. genuinely signed Manifests and their mutations, with real gpg
    c04_gpg(ctx, r, 25 if quick else 250, 30 if quick else 60)


MUT_LINES = ['', ' ', 'DATA injected 1', BEGIN, SIGBEGIN, END, 'Hash: SHA1', '- DATA esc 2', 'Comment: x', '-----FOO-----']


def mutate_signed(r, s):
    lines = s.split('\n')
    k = r.randrange(11)
    j = r.randrange(len(lines))
    if k == 0:
        lines.insert(j, r.choice(MUT_LINES))
    elif k == 1:
        del lines[j]
    elif k == 2:
        lines.insert(j, lines[j])
    elif k == 3:
        a = lines.pop(j)
        lines.insert(r.randrange(len(lines) + 1), a)
    elif k == 4:
        lines[j] = lines[j] + r.choice([' ', '\t', '  ', '\r'])
    elif k == 5:
        lines[j] = r.choice([' ', '\t']) + lines[j]
    elif k == 6:
        return s.replace('\n', '\r\n')
    elif k == 7:
        lines[j] = '- ' + lines[j]
    elif k == 8:
        if lines[j].startswith('- '):
            lines[j] = lines[j][2:]
        else:
            lines[j] = lines[j].replace('a', 'b', 1)
    elif k == 9:
        return s + r.choice(['', '\n']) + s
    else:
        i = r.randrange(len(s))
        return s[:i] + r.choice('ab 0-\n') + s[i + 1:]
    return '\n'.join(lines)


def c04_gpg(ctx, r, n_manifests, n_mut):
    import gpgenv
    import gemato.manifest as gm
    import gemato.openpgp as go
    kd = gpgenv.keydata()
    old_home = os.environ.get('GNUPGHOME')
    with gpgenv.GpgHome() as h:
        h.import_key(kd.PRIVATE_KEY)
        os.environ['GNUPGHOME'] = h.home
        try:
            env = go.SystemGPGEnvironment()
            n = acc = rej = 0
            for i in range(n_manifests):
                es, plain = T.valid_manifest(r, r.randint(1, 5))
                if r.random() < 0.4:
                    plain += r.choice(['- dash line\n', '-----BEGIN PGP SIGNATURE-----\n', 'From x\n', 'DATA q 1 \n', '\n'])
                if any(0xD800 <= ord(c) <= 0xDFFF for c in plain):
                    continue
                rc, signed, err = h.clearsign(plain)
                if rc != 0:
                    ctx.notes.append('gpg clearsign failed: ' + err.decode(errors='replace')[:200])
                    continue
                variants = [signed] + [mutate_signed(r, signed) for _ in range(n_mut)]
                for t in variants:
                    if r.random() < 0.15:
                        t = mutate_signed(r, t)
                    n += 1
                    m = gm.ManifestFile()
                    try:
                        with impl.text_file(t) as f:
                            m.load(f, verify_openpgp=True, openpgp_env=env)
                        res = ['ok', [impl.entry_sx(e) for e in m.entries], bool(m.openpgp_signed)]
                    except Exception as e:
                        res = impl.exc_sx(e)
                    grc, status, clear = h.verify(t)
                    good = grc == 0 and any(l.startswith(b'[GNUPG:] GOODSIG') for l in status)
                    if res[0] == 'ok' and res[2]:
                        acc += 1
                        if not good:
                            ctx.violation('spec', 'gemato reports the Manifest as signed but gpg does not accept the message',
                                          {'text': t, 'impl': res, 'gpg_exit': grc})
                            continue
                        # entries must equal the entries of the cleartext gpg authenticated
                        want = impl.load(clear, 0)
                        if want[0] != 'ok' or want[1][0] != res[1]:
                            ctx.violation('spec', 'entries differ from those of the cleartext gpg authenticated',
                                          {'text': t, 'impl_entries': res[1], 'gpg_cleartext': clear,
                                           'entries_of_cleartext': want})
                    elif res[0] == 'ok':
                        # loaded as unsigned although verification was requested: must not contain a signed block
                        if good:
                            ctx.violation('spec', 'a message gpg accepts was loaded as unsigned data',
                                          {'text': t, 'impl': res})
                    else:
                        rej += 1
                        if res[1][0] not in ('ManifestSyntaxError', 'ManifestUnsignedData', 'OpenPGPVerificationFailure',
                                             'OpenPGPUnknownSigFailure', 'OpenPGPExpiredKeyFailure', 'OpenPGPRevokedKeyFailure',
                                             'OpenPGPUntrustedSigFailure'):
                            ctx.violation('spec', f'unexpected failure {res[1]}', {'text': t})
            ctx.count('pgp:real-gpg-mutations', n, acc + rej,
                      samples=[{'signed_text_mutations': n, 'accepted': acc, 'rejected': rej}],
                      dist={'accepted': acc, 'rejected': rej, 'gpg': 'gpg (GnuPG) 2.2.x, real signatures with tests/keydata.py key'})
        finally:
            if old_home is None:
                os.environ.pop('GNUPGHOME', None)
            else:
                os.environ['GNUPGHOME'] = old_home
