"""Checks for C04 (signed content only) and C05 (signature acceptance rule)."""
import io
import itertools
import os

import engine_text as T
import impl
from sx import run_model

BEGIN = '-----BEGIN PGP SIGNED MESSAGE-----'
SIGBEGIN = '-----BEGIN PGP SIGNATURE-----'
END = '-----END PGP SIGNATURE-----'
CLASSES = [BEGIN, SIGBEGIN, END, '-----BEGIN PGP MESSAGE-----', '', 'Hash: SHA256', 'DATA a 0',
           '- DATA b 1', '- ' + SIGBEGIN, 'junk line']
EXTRA = [' ', BEGIN + ' ', '- ' + BEGIN, 'IGNORE x', '-----', '- - DATA c 2', 'iQEzBAEBCgAdFiEE', '\t', 'TIMESTAMP 2017-01-01T00:00:00Z',
         '-DATA d 3', END + '\t', '=BR6/',
         # characters that str.splitlines() treats as line ends, but text files and OpenPGP do not
         'NotDashEscaped: x\x1c\x1cIGNORE evil', 'Hash: SHA1\u2028\u2028DATA e 4', 'Comment: a\x0b\x0bDATA f 5', 'X: y\x85\x85IGNORE g',
         'DATA h\x0c 6', 'Hash: z\x1d\x1e']


def seq_text(seq, final_nl, eol='\n'):
    t = eol.join(seq)
    if seq and final_nl:
        t += eol
    return t


def check_texts(ctx, texts, label, nontrivial=None):
    """load with verification (recording env): model vs implementation, plus the Coq spec checker
    c04_b evaluated on the implementation's own output"""
    im = [impl.load(t, 1) for t in texts]
    dis, model = T.compare(ctx, 'text', [['load', t, 1] for t in texts], im, label, nontrivial=nontrivial)
    for d in dis[:6]:
        ctx.violation('correspondence', 'load(verify) differs between model and implementation', d)
    # spec on implementation output
    reqs, idx = [], []
    for i, (t, x) in enumerate(zip(texts, im)):
        if x[0] == 'ok' and x[1][1]:
            reqs.append(['c04_b', t, x[1][0], x[1][1][0]])
            idx.append(i)
        elif x[0] == 'ok' and BEGIN + '\n' in t.replace('\r\n', '\n').replace('\r', '\n') + '\n' \
                and any(l == BEGIN for l in t.replace('\r\n', '\n').replace('\r', '\n').split('\n')[:-1] or [t]):
            # a complete BEGIN line is present but verify_file was never called
            lines = t.replace('\r\n', '\n').replace('\r', '\n').split('\n')
            complete = lines[:-1]
            if BEGIN in complete:
                ctx.violation('spec', 'text contains a BEGIN-SIGNED line but was accepted without signature verification',
                              {'text': t, 'impl': x})
        elif x[0] == 'err' and x[1][0] not in ('ManifestSyntaxError', 'ManifestUnsignedData'):
            ctx.violation('spec', f'exception {x[1]} escapes the loader', {'text': t, 'impl': x})
    outside_clause(ctx, texts, im, label)
    res = run_model(reqs)
    signed_ok = 0
    for i, ok in zip(idx, res):
        if ok == 1:
            signed_ok += 1
        else:
            ctx.violation('spec', 'the entries / the text handed to verify_file are not exactly the signed content '
                          '(Spec/Cleartext.v c04_b fails on the implementation output)',
                          {'text': texts[i], 'impl': im[i]})
    e = ctx.cov['engines'].setdefault('text:' + label, {})
    e['accepted_as_signed'] = e.get('accepted_as_signed', 0) + signed_ok
    e['rejected'] = e.get('rejected', 0) + sum(1 for x in im if x[0] == 'err')
    return im


def outside_clause(ctx, texts, im, label):
    """'Non-blank content before or after the signed block is rejected as unsigned data, misplaced armor as a syntax error' judged on the
    implementation alone, as the relation that C04_content_after_signed_block / C04_signed_block_after_content state for the model: when the
    text up to and including the first END line is loaded as a signed Manifest, the first non-blank line after it decides the failure of the
    whole text (unsigned data; syntax error if that line looks like armor); when the lines before the first BEGIN line load with at least one
    entry, the whole text fails as unsigned data."""
    n = 0
    for t, x in zip(texts, im):
        if BEGIN not in t:
            continue
        norm = t.replace('\r\n', '\n').replace('\r', '\n')
        lines = norm.split('\n')
        lines = [l + '\n' for l in lines[:-1]] + ([lines[-1]] if lines[-1] else [])
        want = None
        if END + '\n' in lines:
            i = lines.index(END + '\n')
            rest = [l for l in lines[i + 1:] if l.strip().split()]
            if rest:
                pre = impl.load(''.join(lines[:i + 1]), 1)
                if pre[0] == 'ok' and pre[1][1]:
                    l = rest[0]
                    want = 'ManifestSyntaxError' if (l.startswith('-----') and l.rstrip().endswith('-----')) else 'ManifestUnsignedData'
                    why = 'the text up to the END line loads as a signed Manifest and a non-blank line follows'
        if want is None and BEGIN + '\n' in lines:
            j = lines.index(BEGIN + '\n')
            if j:
                pre = impl.load(''.join(lines[:j]), 1)
                if pre[0] == 'ok' and pre[1][0] and not pre[1][1]:
                    want = 'ManifestUnsignedData'
                    why = 'entries were read before the BEGIN-SIGNED line'
        if want is None:
            continue
        n += 1
        if not (x[0] == 'err' and x[1][0] == want):
            ctx.violation('spec', f'{why}: the load must fail with {want}', {'text': t, 'impl': x, 'where': label})
    e = ctx.cov['engines'].setdefault('text:' + label, {})
    e['outside_clause_judged'] = e.get('outside_clause_judged', 0) + n


def c04(ctx):
    quick = ctx.tier == 'quick'
    r = ctx.rng('c04')
    # 1. exhaustive sequences over the ten line classes
    maxlen = 4 if quick else 6
    texts = []
    for n in range(0, maxlen + 1):
        for seq in itertools.product(CLASSES, repeat=n):
            texts.append(seq_text(seq, True))
            if n:
                texts.append(seq_text(seq, False))
    check_texts(ctx, texts, 'lineclass-exhaustive', nontrivial=len(texts))
    ctx.cov['engines']['text:lineclass-exhaustive']['exhaustive'] = True
    ctx.cov['engines']['text:lineclass-exhaustive']['max_length'] = maxlen
    # 2. random longer sequences over the extended class set, biased towards well-formed frameworks
    texts = []
    allc = CLASSES + EXTRA
    for i in range(20000 if quick else 300000):
        k = r.random()
        if k < 0.5:
            seq = [r.choice(allc) for _ in range(r.randint(5, 9))]
        else:
            body = [r.choice(['DATA a 0', '- DATA b 1', '', 'IGNORE x', '- ' + SIGBEGIN, '- - DATA c 2', ' ', 'junk line',
                              'TIMESTAMP 2017-01-01T00:00:00Z'][:r.choice([6, 6, 9])]) for _ in range(r.randint(0, 4))]
            seq = ([r.choice(['', ' '])] * r.randint(0, 1) + [BEGIN] + ['Hash: SHA256'] * r.randint(0, 2) + [r.choice(['', '', ' ', '\t'])]
                   + body + [SIGBEGIN] + [r.choice(['', 'iQEzBAEBCgAdFiEE', '=BR6/', 'Version: x'])] * r.randint(0, 3) + [END]
                   + [r.choice(['', ' ', 'DATA z 9', BEGIN])] * r.randint(0, 2))
            for _ in range(r.choice([0, 0, 1, 2])):
                j = r.randrange(len(seq) + 1)
                m = r.random()
                if m < 0.4 and seq:
                    del seq[min(j, len(seq) - 1)]
                elif m < 0.8:
                    seq.insert(j, r.choice(allc))
                elif seq:
                    a = seq.pop(min(j, len(seq) - 1))
                    seq.insert(r.randrange(len(seq) + 1), a)
        texts.append(seq_text(seq, r.random() < 0.8, r.choice(['\n', '\n', '\n', '\r\n', '\r'])))
    check_texts(ctx, texts, 'lineclass-random', nontrivial=len(set(texts)))
    # 3. genuinely signed Manifests and their mutations, with real gpg
    c04_gpg(ctx, r, 25 if quick else 250, 30 if quick else 60)
    # 4. one ManifestFile object loaded several times: entries and signed state are those of the load just performed,
    #    also when that load failed (nothing of an earlier, authenticated text may vouch for the new entries)
    c05_histories(ctx, r, quick)
    # 5. signed sub-Manifests inside a tree, read through the recursive loader
    import p_c14
    p_c14.signed_sub_engine(ctx)
    # 6. verification requested (explicitly or by default) but no OpenPGP environment given: a text with a complete signature
    #    framework is never loaded successfully - nobody authenticated it
    no_environment(ctx, r, quick)
    # 7. ... nor is a malformed signed top-level Manifest passed over by the discovery
    broken_top_level(ctx, r, quick)


def broken_top_level(ctx, r, quick):
    """a signed top-level Manifest whose armor is truncated or misplaced is a syntax error for every front end - also for the discovery
    that starts in a sub-directory: `gemato verify tree/sub` never falls back to the (unsigned) sub-Manifest below it"""
    import tempfile
    import hashlib
    import p_tree as PT
    n = refused = 0
    with tempfile.TemporaryDirectory(prefix='gv-c04-', dir=os.environ.get('GV_SCRATCH')) as d:
        for i in range(40 if quick else 400):
            tree = os.path.join(d, 't%d' % i)
            os.makedirs(os.path.join(tree, 'sub'))
            with open(os.path.join(tree, 'sub', 'file'), 'wb') as f:
                f.write(b'payload\n')
            subm = 'DATA file 8 SHA1 %s\n' % hashlib.sha1(b'payload\n').hexdigest()
            with open(os.path.join(tree, 'sub', 'Manifest'), 'w') as f:
                f.write(subm)
            body = ['MANIFEST sub/Manifest %d SHA1 %s' % (len(subm), hashlib.sha1(subm.encode()).hexdigest())]
            sig = [SIGBEGIN, '', 'iQEzBAEBCgAdFiEE', '=BR6/', END]
            kind = r.choice(['eof-in-headers', 'eof-in-cleartext', 'eof-in-signature', 'stray-end', 'stray-begin-signature', 'second-begin', 'armor-in-body'])
            seq = {'eof-in-headers': [BEGIN, 'Hash: SHA256'],
                   'eof-in-cleartext': [BEGIN, 'Hash: SHA256', ''] + body,
                   'eof-in-signature': [BEGIN, 'Hash: SHA256', ''] + body + sig[:-1],
                   'stray-end': body + [END],
                   'stray-begin-signature': body + [SIGBEGIN],
                   'second-begin': [BEGIN, 'Hash: SHA256', ''] + body + [BEGIN] + sig,
                   'armor-in-body': [BEGIN, 'Hash: SHA256', ''] + body + ['-----FOO-----'] + sig}[kind]
            with open(os.path.join(tree, 'Manifest'), 'w', newline='') as f:
                f.write(seq_text(seq, True))
            flags = r.choice([[], ['--no-openpgp-verify'], ['-k'], ['-k', '--no-openpgp-verify']])
            target = r.choice(['sub', 'sub', ''])
            rc, items = PT.run_cli_collect(['gemato', 'verify'] + flags + [os.path.join(tree, target) if target else tree])
            n += 1
            if rc == 0:
                ctx.violation('spec', f'gemato verify {" ".join(flags)} {target or "<top>"} exits 0 although the top-level Manifest is malformed ({kind}): '
                              'the broken signed Manifest was not rejected', {'kind': kind, 'flags': flags, 'start': target, 'top_level_text': seq_text(seq, True), 'log': items})
            else:
                refused += 1
    ctx.count('cli:broken-top-level', n, n, dist={'runs_refused': refused})


def no_environment(ctx, r, quick):
    import tempfile
    import gemato.manifest as gm
    import gemato.recursiveloader as rl
    n = refused = 0
    with tempfile.TemporaryDirectory(prefix='gv-c04-', dir=os.environ.get('GV_SCRATCH')) as d:
        for i in range(60 if quick else 600):
            body = [r.choice(['DATA a 0', '- DATA b 1', 'IGNORE x', 'DATA forged 3 SHA1 00', 'TIMESTAMP 2017-01-01T00:00:00Z']) for _ in range(r.randint(1, 4))]
            seq = [BEGIN] + ['Hash: SHA256'] * r.randint(0, 1) + [''] + body + [SIGBEGIN] + [r.choice(['', 'iQEzBAEBCgAdFiEE', '=BR6/'])] * r.randint(0, 3) + [END]
            t = seq_text(seq, True)
            how = r.choice(['load', 'load-default', 'constructor', 'loader', 'loader-default'])
            n += 1
            try:
                if how in ('load', 'load-default'):
                    m = gm.ManifestFile()
                    with impl.text_file(t) as f:
                        m.load(f, **({'verify_openpgp': True} if how == 'load' else {}))
                    got = [impl.entry_sx(e) for e in m.entries]
                elif how == 'constructor':
                    with impl.text_file(t) as f:
                        m = gm.ManifestFile(f)
                    got = [impl.entry_sx(e) for e in m.entries]
                else:
                    p = os.path.join(d, 'Manifest')
                    with open(p, 'w', encoding='utf8', newline='') as f:
                        f.write(t)
                    m = rl.ManifestRecursiveLoader(p, **({'verify_openpgp': True} if how == 'loader' else {}))
                    got = [impl.entry_sx(e) for e in m.loaded_manifests['Manifest'].entries]
            except Exception:
                refused += 1
                continue
            ctx.violation('spec', f'a Manifest with a signature framework was loaded with verification requested ({how}) and no OpenPGP environment: '
                          f'{len(got)} entries handed out although nothing was verified', {'text': t, 'how': how, 'entries': got})
    ctx.count('text:no-environment', n, n, dist={'loads_refused': refused})
    rejecting_environment(ctx, r, quick)


def rejecting_environment(ctx, r, quick):
    """an existing signed top-level Manifest whose signature the OpenPGP environment rejects (tampered text, unknown key): every front end that
    loads it with the default of verify_openpgp refuses it - the loader constructed for verification, for update and for creation
    (allow_create=True), `gemato verify / update / create` - and hands out none of its entries"""
    import tempfile
    import gemato.recursiveloader as rl
    import gemato.exceptions as ge
    import p_tree as PT

    class Rejecting:
        calls = 0

        def verify_file(self, f):
            Rejecting.calls += 1
            f.read()
            raise ge.OpenPGPVerificationFailure('BAD signature (stand-in environment)')

        def clear_sign_file(self, f, outf, keyid=None):
            raise ge.OpenPGPSigningFailure('no key (stand-in environment)')
    n = refused = 0
    old_home = os.environ.get('GNUPGHOME')
    with tempfile.TemporaryDirectory(prefix='gv-c04r-', dir=os.environ.get('GV_SCRATCH')) as d:
        os.makedirs(os.path.join(d, 'home'), mode=0o700)
        for i in range(40 if quick else 400):
            tree = os.path.join(d, 't%d' % i)
            os.makedirs(tree)
            open(os.path.join(tree, 'a'), 'w').write('a\n')
            open(os.path.join(tree, 'secret'), 'w').write('s\n')
            body = ['IGNORE secret', 'DATA a 2 SHA1 3f786850e387550fdab836ed7e6dc881de23001b'][:r.randint(1, 2)]
            t = seq_text([BEGIN, 'Hash: SHA256', ''] + body + [SIGBEGIN, '', 'iQEzBAEBCgAdFiEE', '=BR6/', END], True)
            open(os.path.join(tree, 'Manifest'), 'w').write(t)
            how = r.choice(['loader', 'loader-update', 'loader-create', 'loader-create', 'cli-verify', 'cli-update', 'cli-create', 'cli-create',
                            'sub-loader-update', 'sub-cli-update', 'sub-cli-create',
                            'reg-loader-update', 'reg-cli-update', 'reg-cli-create', 'reg-cli-verify'])
            if how.startswith('reg-'):
                # ... and for a signed Manifest in a sub-directory that the (unsigned) top-level Manifest references with the right size and
                # digest: the operations that load sub-Manifests without comparing them to their MANIFEST entry (update, create) still
                # hand their signatures to the OpenPGP environment
                import hashlib
                os.makedirs(os.path.join(tree, 'sub'))
                open(os.path.join(tree, 'sub', 'b'), 'w').write('b\n')
                st = t.replace('IGNORE secret', 'IGNORE b').replace('DATA a 2', 'DATA zz 2')
                open(os.path.join(tree, 'sub', 'Manifest'), 'w').write(st)
                open(os.path.join(tree, 'Manifest'), 'w').write('IGNORE secret\nDATA a 2 SHA1 3f786850e387550fdab836ed7e6dc881de23001b\nMANIFEST sub/Manifest %d SHA1 %s\n'
                                                               % (len(st.encode()), hashlib.sha1(st.encode()).hexdigest()))
                how = how[4:] + '+referenced-signed-sub-Manifest'
            if how.startswith('sub-'):
                # ... the same for a signed Manifest in a sub-directory that nothing references yet: update / create find it and must not adopt it
                os.makedirs(os.path.join(tree, 'sub'))
                open(os.path.join(tree, 'sub', 'b'), 'w').write('b\n')
                open(os.path.join(tree, 'sub', 'Manifest'), 'w').write(t.replace('IGNORE secret', 'IGNORE b').replace('DATA a 2', 'DATA zz 2'))
                open(os.path.join(tree, 'Manifest'), 'w').write('')
                how = how[4:] + '+unregistered-signed-sub-Manifest'

            n += 1
            ok = None
            try:
                if how.startswith('loader'):
                    Rejecting.calls = 0
                    kw = {'loader': {}, 'loader-update': {'hashes': ['SHA1']}, 'loader-create': {'hashes': ['SHA1'], 'allow_create': True}}[how.split('+')[0]]
                    try:
                        m = rl.ManifestRecursiveLoader(os.path.join(tree, 'Manifest'), openpgp_env=Rejecting(), **kw)
                        if '+' in how:
                            m.update_entries_for_directory('')
                            m.save_manifests()
                        ok = f'constructed, {len(m.loaded_manifests["Manifest"].entries)} entries handed out, verify_file called {Rejecting.calls} times'
                        if 'referenced' in how:
                            ok += '; sub/Manifest now: %r' % open(os.path.join(tree, 'sub', 'Manifest')).read()[:120]
                    except ge.GematoException:
                        ok = None
                else:
                    os.environ['GNUPGHOME'] = os.path.join(d, 'home')
                    argv = {'cli-verify': ['verify'], 'cli-update': ['update', '-H', 'SHA1'], 'cli-create': ['create', '-H', 'SHA1']}[how.split('+')[0]]
                    rc, items = PT.run_cli_collect(['gemato'] + argv + [tree])
                    if rc == 0:
                        ok = f'exit 0; Manifest now: {open(os.path.join(tree, "Manifest")).read()[:200]!r}'
            finally:
                if old_home is None:
                    os.environ.pop('GNUPGHOME', None)
                else:
                    os.environ['GNUPGHOME'] = old_home
            if ok is None:
                refused += 1
            else:
                ctx.violation('spec', f'a signed {"sub-" if "+" in how else "top-level "}Manifest whose signature is rejected was used by {how}: {ok}', {'text': t, 'how': how})
    ctx.count('tree:rejected-signature', n, n, dist={'refused': refused})


MUT_LINES = ['', ' ', 'DATA injected 1', BEGIN, SIGBEGIN, END, 'Hash: SHA1', '- DATA esc 2', 'Comment: x', '-----FOO-----']


def mutate_signed(r, s):
    lines = s.split('\n')
    k = r.randrange(11)
    j = r.randrange(len(lines))
    if k == 0:
        lines.insert(j, r.choice(MUT_LINES))
    elif k == 1:
        del lines[j]
    elif k == 2:
        lines.insert(j, lines[j])
    elif k == 3:
        a = lines.pop(j)
        lines.insert(r.randrange(len(lines) + 1), a)
    elif k == 4:
        lines[j] = lines[j] + r.choice([' ', '\t', '  ', '\r'])
    elif k == 5:
        lines[j] = r.choice([' ', '\t']) + lines[j]
    elif k == 6:
        return s.replace('\n', '\r\n')
    elif k == 7:
        lines[j] = '- ' + lines[j]
    elif k == 8:
        if lines[j].startswith('- '):
            lines[j] = lines[j][2:]
        else:
            lines[j] = lines[j].replace('a', 'b', 1)
    elif k == 9:
        return s + r.choice(['', '\n']) + s
    else:
        i = r.randrange(len(s))
        return s[:i] + r.choice('ab 0-\n') + s[i + 1:]
    return '\n'.join(lines)


def c04_gpg(ctx, r, n_manifests, n_mut):
    import gpgenv
    import gemato.manifest as gm
    import gemato.openpgp as go
    kd = gpgenv.keydata()
    old_home = os.environ.get('GNUPGHOME')
    with gpgenv.GpgHome() as h:
        h.import_key(kd.PRIVATE_KEY)
        os.environ['GNUPGHOME'] = h.home
        try:
            env = go.SystemGPGEnvironment()
            n = acc = rej = 0
            for i in range(n_manifests):
                es, plain = T.valid_manifest(r, r.randint(1, 5))
                if r.random() < 0.4:
                    plain += r.choice(['- dash line\n', '-----BEGIN PGP SIGNATURE-----\n', 'From x\n', 'DATA q 1 \n', '\n'])
                if any(0xD800 <= ord(c) <= 0xDFFF for c in plain):
                    continue
                rc, signed, err = h.clearsign(plain)
                if rc != 0:
                    ctx.notes.append('gpg clearsign failed: ' + err.decode(errors='replace')[:200])
                    continue
                variants = [signed] + [mutate_signed(r, signed) for _ in range(n_mut)]
                for t in variants:
                    if r.random() < 0.15:
                        t = mutate_signed(r, t)
                    n += 1
                    m = gm.ManifestFile()
                    try:
                        with impl.text_file(t) as f:
                            m.load(f, verify_openpgp=True, openpgp_env=env)
                        res = ['ok', [impl.entry_sx(e) for e in m.entries], bool(m.openpgp_signed)]
                    except Exception as e:
                        res = impl.exc_sx(e)
                    # (gpg is shown the text as the text layer presents it to gemato: universal newlines, a lone CR ends a line)
                    grc, status, clear = h.verify(t.replace('\r\n', '\n').replace('\r', '\n'))
                    good = grc == 0 and any(l.startswith(b'[GNUPG:] GOODSIG') for l in status)
                    if res[0] == 'ok' and res[2]:
                        acc += 1
                        if not good:
                            ctx.violation('spec', 'gemato reports the Manifest as signed but gpg does not accept the message',
                                          {'text': t, 'impl': res, 'gpg_exit': grc})
                            continue
                        # entries must equal the entries of the cleartext gpg authenticated
                        want = impl.load(clear, 0)
                        if want[0] != 'ok' or want[1][0] != res[1]:
                            ctx.violation('spec', 'entries differ from those of the cleartext gpg authenticated',
                                          {'text': t, 'impl_entries': res[1], 'gpg_cleartext': clear,
                                           'entries_of_cleartext': want})
                    elif res[0] == 'ok':
                        # loaded as unsigned although verification was requested: must not contain a signed block
                        if good:
                            ctx.violation('spec', 'a message gpg accepts was loaded as unsigned data',
                                          {'text': t, 'impl': res})
                    else:
                        rej += 1
                        if res[1][0] not in ('ManifestSyntaxError', 'ManifestUnsignedData', 'OpenPGPVerificationFailure',
                                             'OpenPGPUnknownSigFailure', 'OpenPGPExpiredKeyFailure', 'OpenPGPRevokedKeyFailure',
                                             'OpenPGPUntrustedSigFailure'):
                            ctx.violation('spec', f'unexpected failure {res[1]}', {'text': t})
            ctx.count('pgp:real-gpg-mutations', n, acc + rej,
                      samples=[{'signed_text_mutations': n, 'accepted': acc, 'rejected': rej}],
                      dist={'accepted': acc, 'rejected': rej, 'gpg': 'gpg (GnuPG) 2.2.x, real signatures with tests/keydata.py key'})
        finally:
            if old_home is None:
                os.environ.pop('GNUPGHOME', None)
            else:
                os.environ['GNUPGHOME'] = old_home


# =============================================================================== C05
G = '[GNUPG:] '
FP = '81E12C16BD8DCD60BE180845136880E72A7B1384'
VOCAB = [
    G + 'NEWSIG', G + 'GOODSIG 136880E72A7B1384 gemato test key <gemato@example.com>',
    G + 'BADSIG 136880E72A7B1384 gemato test key', G + 'EXPSIG 136880E72A7B1384 gemato test key',
    G + 'EXPKEYSIG 136880E72A7B1384 gemato test key', G + 'REVKEYSIG 136880E72A7B1384 gemato test key',
    G + 'ERRSIG 136880E72A7B1384 1 10 01 1790797435 9 ' + FP,
    G + 'VALIDSIG ' + FP + ' 2026-09-30 1790797435 0 4 0 1 10 01 ' + FP,
    G + 'VALIDSIG ' + FP + ' 2020-08-25 20200825T124012 0 4 0 1 10 01 ' + FP,
    G + 'TRUST_UNDEFINED 0 pgp', G + 'TRUST_NEVER 0 pgp', G + 'TRUST_MARGINAL 0 pgp', G + 'TRUST_FULLY 0 pgp',
    G + 'TRUST_ULTIMATE 0 direct', G + 'KEY_CONSIDERED ' + FP + ' 0', G + 'NO_PUBKEY 136880E72A7B1384',
    # signer-chosen text echoed by gpg on other status lines (notations, policy URL) may spell anything
    G + 'NOTATION_NAME TRUST_ULTIMATE@example.org', G + 'NOTATION_DATA TRUST_FULLY', G + 'POLICY_URL http://example.org/TRUST_MARGINAL',
    G + 'NOTATION_DATA GOODSIG 136880E72A7B1384 x',
]


class FakePopen:
    calls = []
    reply = (0, b'', b'')

    def __init__(self, argv, stdin=None, stdout=None, stderr=None, env=None):
        FakePopen.calls.append({'argv': list(argv), 'env': dict(env) if env is not None else None})

    def communicate(self, data=None):
        return FakePopen.reply[1], FakePopen.reply[2]

    def wait(self):
        return FakePopen.reply[0]


class fake_popen:
    """replace the subprocess module seen by gemato.openpgp (only there) by a shim"""
    def __enter__(self):
        import types
        import subprocess
        import gemato.openpgp as go
        self.go = go
        self.old = go.subprocess
        go.subprocess = types.SimpleNamespace(Popen=FakePopen, PIPE=subprocess.PIPE)

    def __exit__(self, *a):
        self.go.subprocess = self.old


def impl_verify_file(env, exitst, out):
    FakePopen.reply = (exitst, out.encode('utf8'), b'stderr text')
    with fake_popen():
        try:
            d = env.verify_file(io.StringIO('signed text'))
            return ['ok', [d.fingerprint, '', '', d.primary_key_fingerprint]]
        except Exception as e:
            return impl.exc_sx(e)


def c05(ctx):
    import gemato.openpgp as go
    quick = ctx.tier == 'quick'
    r = ctx.rng('c05')
    env = go.SystemGPGEnvironment()
    cases = []
    maxlen = 3 if quick else 4
    for n in range(0, maxlen + 1):
        for seq in itertools.product(VOCAB, repeat=n):
            for ex in (0, 1, 2):
                if ex != 0 and n == maxlen:
                    continue
                cases.append((ex, '\n'.join(seq) + ('\n' if seq else '')))
    n_exh = len(cases)
    # user IDs are signer-chosen text too: gpg escapes bytes below 0x20 but passes everything else through, so a user ID may
    # carry characters that are line separators to str.splitlines() though not to bytes.splitlines(), and stray bytes
    uid_vocab = VOCAB + [G + 'GOODSIG 136880E72A7B1384 evil' + sep + G + tr for sep in ('\u2028', '\u2029', '\x85', '\x1c', '\x0c', '\x0b')
                         for tr in ('TRUST_ULTIMATE 0 pgp', 'VALIDSIG ' + FP + ' 2026-09-30 1790797435 0 4 0 1 10 01 ' + FP)]
    uid_vocab += [G + 'TRUST_UNDEFINED 0 pgp\u2028' + G + 'TRUST_FULLY 0 pgp', G + 'EXPKEYSIG 136880E72A7B1384 k\u2029' + G + 'GOODSIG 1 k']
    for i in range(4000 if quick else 60000):
        seq = [r.choice(VOCAB if i % 4 else uid_vocab) for _ in range(r.randint(4, 9))]
        cases.append((r.choice([0, 0, 0, 1, 2, -9]), r.choice(['\n', '\r\n']).join(seq) + '\n'))
    im = [impl_verify_file(env, ex, out) for ex, out in cases]
    model = run_model([['verify_file', ex, out] for ex, out in cases])
    spec = run_model([['accept_spec', ex, out] for ex, out in cases])
    acc = 0
    for (ex, out), ii, mi, sp in zip(cases, im, model, spec):
        mm = mi if mi[0] == 'err' else ['ok', [mi[1][0], '', '', mi[1][3]]]
        if mm != ii:
            ctx.violation('correspondence', 'verify_file differs between model and implementation',
                          {'where': 'verify_file', 'exit': ex, 'status': out, 'impl': ii, 'model': mi})
        if ii[0] == 'ok':
            acc += 1
            if sp[0] != 1:
                ctx.violation('spec', 'signature data returned although the status report does not show a good, valid, '
                              'sufficiently trusted, unexpired, unrevoked signature with exit status 0',
                              {'exit': ex, 'status': out, 'impl': ii})
        else:
            if sp[0] == 1:
                ctx.violation('spec', f'acceptable signature rejected with {ii[1]}', {'exit': ex, 'status': out, 'impl': ii})
            elif ii[1] != [sp[1]]:
                ctx.violation('spec', f'wrong failure class {ii[1]}, expected {sp[1]}', {'exit': ex, 'status': out})
    ctx.count('pgp:status-sequences', len(cases), len(set(cases)),
              samples=[{'exit': cases[-1][0], 'status': cases[-1][1], 'impl': im[-1]}],
              dist={'bounded_exhaustive': n_exh, 'max_length': maxlen, 'accepted': acc, 'vocabulary': len(VOCAB)},
              exhaustive=None)
    # environment handed to gpg by the isolated environment
    old_env = dict(os.environ)
    iso = go.IsolatedGPGEnvironment()
    try:
        k = 0
        for user in ({}, {'GNUPGHOME': '/home/user/.gnupg'}, {'GNUPGHOME': iso.home + 'x', 'TZ': 'Asia/Tokyo'},
                     {'GNUPGHOME': '', 'http_proxy': 'http://u'}, {'TZ': 'x', 'LANG': 'C'}):
            for proxy in (None, 'http://p:1'):
                iso.proxy = proxy
                os.environ.clear()
                os.environ.update(user)
                FakePopen.calls.clear()
                FakePopen.reply = (0, b'', b'')
                with fake_popen():
                    iso._spawn_gpg(['gpg', '--version'])
                got = FakePopen.calls[0]['env']
                os.environ.clear()
                os.environ.update(old_env)
                over = [['GNUPGHOME', iso.home]] + ([['http_proxy', proxy]] if proxy else [])
                want = run_model([['spawn_env', [[a, b] for a, b in user.items()], over]], jobs=1)[0]
                k += 1
                if got.get('GNUPGHOME') != iso.home:
                    ctx.violation('spec', 'gpg not run with the private home', {'user_env': user, 'env': got})
                if sorted(got.items()) != sorted((a, b) for a, b in want):
                    ctx.violation('correspondence', 'spawn environment differs', {'where': 'spawn_env', 'user_env': user, 'impl': got, 'model': want})
        ctx.count('pgp:spawn-env', k, k)
    finally:
        os.environ.clear()
        os.environ.update(old_env)
        iso.close()
    c05_histories(ctx, r, quick)
    c05_gpg(ctx, r, quick)
    # signed sub-Manifests inside a tree: every other outcome than a good signature raises, wherever the Manifest sits
    import p_c14
    p_c14.signed_sub_engine(ctx)


class ScriptedEnv:
    """openpgp_env stand-in whose verify_file accepts or raises as scripted"""
    def __init__(self):
        self.accept = True

    def verify_file(self, f):
        import gemato.exceptions as gx
        f.read()
        if not self.accept:
            raise gx.OpenPGPVerificationFailure('scripted')
        return 'SIGDATA'


def c05_histories(ctx, r, quick):
    """several loads on ONE ManifestFile instance: after every load the signed flag must be that of
    the load just performed (Model/OpenPGP.v load_with_env is a function of the current text only)"""
    import gemato.manifest as gm
    good = '\n'.join([BEGIN, 'Hash: SHA512', '', 'DATA a 0', SIGBEGIN, '', 'iQEz', END]) + '\n'
    texts = [good, good.replace('DATA a 0', 'DATA b 1'), 'DATA a 0\n', '', good + 'DATA z 9\n', 'junk\n',
             good.replace(END + '\n', ''), 'DATA q 1\n' + good, good.replace('DATA a 0', 'DATA a'), BEGIN + '\n']
    steps = [(t, v, a) for t in texts for v in (True, False) for a in (True, False)]
    model = dict()
    res = run_model([['load', t, 1 if v else 0] for t in texts for v in (True, False)], jobs=1)
    i = 0
    for t in texts:
        for v in (True, False):
            model[(t, v)] = res[i]
            i += 1
    n = 0
    hist_len = 3
    seqs = list(itertools.product(range(len(steps)), repeat=2)) if quick else None
    if seqs is None:
        seqs = [tuple(r.randrange(len(steps)) for _ in range(hist_len)) for _ in range(40000)]
        seqs += list(itertools.product(range(len(steps)), repeat=2))
    for seq in seqs:
        m = gm.ManifestFile()
        env = ScriptedEnv()
        for k in seq:
            t, v, a = steps[k]
            env.accept = a
            try:
                with impl.text_file(t) as f:
                    m.load(f, verify_openpgp=v, openpgp_env=env)
                out = 'ok'
            except Exception as e:
                out = type(e).__name__
            mi = model[(t, v)]
            if mi[0] == 'ok' and mi[1][1] and not a:
                want = ('OpenPGPVerificationFailure', False)
            elif mi[0] == 'ok':
                want = ('ok', bool(mi[1][1]))
            else:
                want = (mi[1][0], False)
            got = (out, bool(m.openpgp_signed))
            if got != want or (not got[1] and m.openpgp_signature is not None):
                kind = 'spec' if (got[1] and not want[1]) else 'correspondence'
                ctx.violation(kind, f'after the load sequence the Manifest object reports {got} (signature data: '
                              f'{m.openpgp_signature is not None}), expected {want}',
                              {'where': 'load history on one ManifestFile', 'sequence': [list(steps[j]) for j in seq]})
                break
        n += 1
    ctx.count('pgp:load-histories', n, n, samples=[{'sequence_of_steps': [list(steps[j])[1:] for j in seqs[-1]]}],
              dist={'steps': len(steps), 'history_length': 2 if quick else 3})


def status_of(home, text):
    rc, out, err = home.gpg(['--status-fd', '1', '--verify'], text.encode('utf8'))
    return rc, out.decode('utf8', errors='replace')


def c05_gpg(ctx, r, quick):
    """real gpg: key states x validity levels; single-byte mutations; -K isolation; -s/-P flags"""
    import gpgenv
    import gemato.openpgp as go
    import gemato.cli
    import shutil
    import tempfile
    kd = gpgenv.keydata()
    old_home = os.environ.get('GNUPGHOME')
    n = 0
    try:
        with gpgenv.GpgHome() as signer:
            signer.import_key(kd.PRIVATE_KEY)
            import hashlib
            plain = ('TIMESTAMP 2017-10-22T18:06:41Z\nDATA a 2 SHA1 ' + hashlib.sha1(b'a\n').hexdigest()
                     + '\nIGNORE x\\x20y\n')
            rc, signed, _ = signer.clearsign(plain)
            assert rc == 0, 'clearsign failed'
            # 1. key states and owner-trust levels in a trust-model direct home
            states = [('valid', kd.VALID_PUBLIC_KEY), ('expired', kd.EXPIRED_PUBLIC_KEY), ('revoked', kd.REVOKED_PUBLIC_KEY),
                      ('other', kd.OTHER_VALID_PUBLIC_KEY), ('none', None), ('with-subkey', kd.VALID_KEY_SUBKEY)]
            for name, key in states:
                for ot in ((6, 5, 4, 3, 2, None) if name == 'valid' else (6,)):
                    with gpgenv.GpgHome() as h:
                        if key is not None:
                            h.import_key(key, ownertrust=ot)
                        os.environ['GNUPGHOME'] = h.home
                        env = go.SystemGPGEnvironment()
                        try:
                            env.verify_file(io.StringIO(signed))
                            res = ['ok']
                        except Exception as e:
                            res = impl.exc_sx(e)
                        rc, st = status_of(h, signed)
                        sp = run_model([['accept_spec', rc, st]], jobs=1)[0]
                        n += 1
                        if (res[0] == 'ok') != (sp[0] == 1) or (res[0] == 'err' and res[1] != [sp[1]]):
                            ctx.violation('spec', f'key state {name}, ownertrust {ot}: outcome {res} but gpg reported (exit {rc}) a status for which '
                                          f'the specification says accept={sp[0]} / failure {sp[1]}',
                                          {'key_state': name, 'ownertrust': ot, 'gpg_status': st, 'impl': res})
                        ctx.cov['engines'].setdefault('pgp:real-gpg-keystates', {}).setdefault('outcomes', {})[f'{name}/{ot}'] = res[0] if res[0] == 'ok' else res[1][0]
            # 2. single-byte mutations of the signed text (valid key, ultimate trust)
            with gpgenv.GpgHome() as h:
                h.import_key(kd.VALID_PUBLIC_KEY)
                os.environ['GNUPGHOME'] = h.home
                env = go.SystemGPGEnvironment()
                body_start = signed.index('\n\n') + 2
                body_end = signed.index('-----BEGIN PGP SIGNATURE-----')
                pos = list(range(len(signed)))
                if quick:
                    pos = sorted(set(r.sample(pos, 120) + list(range(body_start, body_end, 2))))
                rejected = 0
                for i in pos:
                    c = signed[i]
                    c2 = 'b' if c != 'b' else 'c'
                    t = signed[:i] + c2 + signed[i + 1:]
                    try:
                        env.verify_file(io.StringIO(t))
                        ok = True
                    except go.GematoException if hasattr(go, 'GematoException') else Exception:
                        ok = False
                    n += 1
                    if ok and body_start <= i < body_end and not c.isspace():
                        ctx.violation('spec', 'a changed signed byte was not detected', {'position': i, 'text': t})
                    rejected += (not ok)
                ctx.cov['engines'].setdefault('pgp:real-gpg-keystates', {})['byte_mutations'] = {'tried': len(pos), 'rejected': rejected}
                # 2b. the same through ManifestFile.load: line-level changes of the signed part (an empty or blank line inserted or removed,
                #     a line duplicated or dropped) are rejected; a signed text that contains empty lines itself loads
                import gemato.manifest as gm
                plain2 = ('TIMESTAMP 2017-10-22T18:06:41Z\n\nDATA a 2 SHA1 ' + hashlib.sha1(b'a\n').hexdigest() + '\n \nIGNORE x\\x20y\n')
                rc2, signed2, _ = signer.clearsign(plain2)
                lines_tried = lines_rejected = 0
                for base_text in ([signed, signed2] if rc2 == 0 else [signed]):
                    ls = base_text.split('\n')
                    b0 = ls.index('') + 1
                    b1 = ls.index('-----BEGIN PGP SIGNATURE-----')
                    variants = [(None, base_text)]
                    for j in range(b0, b1 + 1):
                        variants.append((f'empty line inserted before line {j}', '\n'.join(ls[:j] + [''] + ls[j:])))
                        if j < b1:
                            variants.append((f'line {j} removed', '\n'.join(ls[:j] + ls[j + 1:])))
                            variants.append((f'line {j} duplicated', '\n'.join(ls[:j] + [ls[j]] + ls[j:])))
                    for what, t in variants:
                        m = gm.ManifestFile()
                        try:
                            with impl.text_file(t) as f:
                                m.load(f, verify_openpgp=True, openpgp_env=env)
                            ok = bool(m.openpgp_signed)
                        except Exception:
                            ok = False
                        n += 1
                        lines_tried += 1
                        if what is None and not ok:
                            ctx.violation('spec', 'a correctly signed Manifest (with empty lines in the signed part) is not accepted', {'text': t})
                        elif what is not None and ok:
                            ctx.violation('spec', f'signed part changed ({what}) but the Manifest loads as signed', {'change': what, 'text': t})
                        lines_rejected += (not ok)
                ctx.cov['engines'].setdefault('pgp:real-gpg-keystates', {})['line_mutations_through_load'] = {'tried': lines_tried, 'rejected': lines_rejected}
            # 3. CLI: -K isolation against the user's own keyring; -s / -P
            td = tempfile.mkdtemp(prefix='gv-c05-')
            try:
                tree = os.path.join(td, 'tree')
                os.mkdir(tree)
                open(os.path.join(tree, 'a'), 'w').write('a\n')
                open(os.path.join(tree, 'Manifest'), 'w').write(signed)
                utree = os.path.join(td, 'utree')
                os.mkdir(utree)
                open(os.path.join(utree, 'a'), 'w').write('a\n')
                open(os.path.join(utree, 'Manifest'), 'w').write(plain)
                kfiles = {}
                for nm, key in (('valid', kd.VALID_PUBLIC_KEY), ('other', kd.OTHER_VALID_PUBLIC_KEY), ('revoked', kd.REVOKED_PUBLIC_KEY)):
                    kfiles[nm] = os.path.join(td, nm + '.key')
                    open(kfiles[nm], 'wb').write(key)
                user_homes = [('empty', None), ('signer-ultimate', kd.VALID_PUBLIC_KEY), ('other-keys', kd.OTHER_VALID_PUBLIC_KEY)]
                for uname, ukey in user_homes:
                    with gpgenv.GpgHome(trust_model='pgp') as uh:
                        if ukey is not None:
                            uh.import_key(ukey, ownertrust=6)
                        uh.gpg(['--list-keys'])
                        subprocess_kill(uh)
                        before = uh.snapshot()
                        os.environ['GNUPGHOME'] = uh.home
                        for kname in ('valid', 'other', 'revoked'):
                            for flags in ([], ['-s']):
                                rcode = run_cli(['gemato', 'verify', '-K', kfiles[kname], '-R'] + flags + [tree])
                                n += 1
                                want = 0 if kname == 'valid' else 1
                                if rcode != want:
                                    ctx.violation('spec', f'verify -K {kname}.key {flags} with user keyring "{uname}" exited {rcode}, expected {want}: '
                                                  'only the keys of the key file may count',
                                                  {'user_keyring': uname, 'key_file': kname, 'flags': flags})
                        subprocess_kill(uh)
                        after = uh.snapshot()
                        if before != after:
                            ctx.violation('spec', 'the user keyring was modified while an isolated environment was in use',
                                          {'user_keyring': uname, 'changed': sorted(k for k in set(before) | set(after) if before.get(k) != after.get(k))})
                # -s / -P on signed and unsigned trees, system environment holding the valid key
                with gpgenv.GpgHome() as uh:
                    uh.import_key(kd.VALID_PUBLIC_KEY)
                    os.environ['GNUPGHOME'] = uh.home
                    for tr, signed_tree in ((tree, True), (utree, False)):
                        for flags, want in (([], 0), (['-s'], 0 if signed_tree else 1), (['-P'], 0), (['-s', '-P'], 1),
                                            (['-k'], 0), (['-k', '-s'], 0 if signed_tree else 1), (['-k', '-s', '-P'], 1), (['-k', '-P'], 0)):
                            rcode = run_cli(['gemato', 'verify'] + flags + [tr])
                            n += 1
                            if rcode != want:
                                ctx.violation('spec', f'verify {flags} on a {"signed" if signed_tree else "unsigned"} tree exited {rcode}, expected {want}',
                                              {'flags': flags, 'signed_tree': signed_tree})
                    # bytes inserted into the signed part of the Manifest FILE - also bytes that are not UTF-8 and that a lenient decoder would drop
                    # before gpg sees the text: the tree never verifies with -s (BAD signature, or a decoding error), through the CLI and the library
                    import gemato.recursiveloader as rl
                    raw = signed.encode('utf8')
                    b0 = raw.index(b'\n\n') + 2
                    b1 = raw.index(b'-----BEGIN PGP SIGNATURE-----')
                    mtree = os.path.join(td, 'mtree')
                    os.mkdir(mtree)
                    open(os.path.join(mtree, 'a'), 'w').write('a\n')
                    ins_tried = ins_rejected = 0
                    # (no white space: trailing white space of a line is not covered by a cleartext signature)
                    # ... but white space at the START of a signed line is covered
                    line_starts = sorted({b0} | {k + 1 for k in range(b0, b1 - 1) if raw[k:k + 1] == b'\n'})
                    for ins in (b'\xff', b'\xc3', b'\x80', b'\xfe\xff', b'X', b'\xc3\xa9', b' ', b'\t', b'  \t'):
                        for at in (sorted({b0, b0 + 5, (b0 + b1) // 2, b1 - 1}) if ins.strip() else line_starts[:3]):
                            open(os.path.join(mtree, 'Manifest'), 'wb').write(raw[:at] + ins + raw[at:])
                            ins_tried += 1
                            n += 1
                            rcode = run_cli(['gemato', 'verify', '-s', mtree])
                            lib = 'raised'
                            try:
                                m = rl.ManifestRecursiveLoader(os.path.join(mtree, 'Manifest'), verify_openpgp=True, openpgp_env=go.SystemGPGEnvironment())
                                lib = 'signed' if m.openpgp_signed else 'unsigned'
                            except Exception as e:
                                lib = 'raised ' + type(e).__name__
                            if rcode == 0 or lib == 'signed':
                                ctx.violation('spec', f'the bytes {ins!r} inserted at offset {at} of the signed Manifest file: gemato verify -s exited {rcode}, the loader reports {lib}',
                                              {'inserted': repr(ins), 'offset': at, 'cli_exit': rcode, 'library': lib})
                            else:
                                ins_rejected += 1
                    ctx.cov['engines'].setdefault('pgp:real-gpg-keystates', {})['byte_insertions_in_the_manifest_file'] = {'tried': ins_tried, 'rejected': ins_rejected}
                    # several paths in one command: the signature requirement (and every other verdict) holds for each of them, wherever it stands
                    for flags in (['-s'], ['-k', '-s'], []):
                        for trees in ([tree, utree], [utree, tree], [tree, tree], [utree, tree, tree], [tree, utree, tree]):
                            rcode = run_cli(['gemato', 'verify'] + flags + trees)
                            n += 1
                            want = 1 if ('-s' in flags and utree in trees) else 0
                            if rcode != want:
                                names = ['signed' if x == tree else 'unsigned' for x in trees]
                                ctx.violation('spec', f'gemato verify {" ".join(flags)} {" ".join(names)} exited {rcode}, expected {want}',
                                              {'flags': flags, 'trees': names, 'exit': rcode})
                    # gemato openpgp-verify over several files: status 1 iff one of them is rejected, wherever it stands
                    good = os.path.join(td, 'good.asc')
                    bad = os.path.join(td, 'bad.asc')
                    open(good, 'w').write(signed)
                    k = signed.index('DATA a 2')
                    open(bad, 'w').write(signed[:k] + 'DATA b 2' + signed[k + 8:])
                    for files in ([good], [bad], [good, good], [bad, good], [good, bad], [bad, bad, good], [good, bad, good], [bad, good, good]):
                        rcode = run_cli(['gemato', 'openpgp-verify'] + files)
                        n += 1
                        want = 1 if bad in files else 0
                        if rcode != want:
                            names = [os.path.basename(x) for x in files]
                            ctx.violation('spec', f'gemato openpgp-verify {" ".join(names)} exited {rcode}, expected {want} (a rejected signature is a failure wherever the file stands)',
                                          {'files': names, 'exit': rcode})
            finally:
                shutil.rmtree(td, ignore_errors=True)
    finally:
        if old_home is None:
            os.environ.pop('GNUPGHOME', None)
        else:
            os.environ['GNUPGHOME'] = old_home
    ctx.count('pgp:real-gpg-keystates', n, n, samples=[{'real_gpg_operations': n}])


def subprocess_kill(h):
    import subprocess
    subprocess.run(['gpgconf', '--kill', 'all'], env=h.env, stdout=subprocess.DEVNULL, stderr=subprocess.DEVNULL)


def run_cli(argv):
    import logging
    import gemato.cli
    logging.disable(logging.CRITICAL)
    try:
        try:
            import common
            with common.watchdog(60):
                return gemato.cli.main(argv)
        except common.CaseTimeout:
            return 'exception:DidNotTerminate'
        except SystemExit as e:
            return e.code if isinstance(e.code, int) else 2
        except Exception as e:
            return 'exception:' + type(e).__name__
    finally:
        logging.disable(logging.NOTSET)
