"""Implementation-side worker of engine `top` (run inside `unshare -m` when available so that
tmpfs mounts give device boundaries at chosen levels).  Reads JSON cases from stdin, writes JSON
results to stdout.  Each case: {"boundary": k, "levels": [...outermost first...], "start": d,
"xdev": bool, "compr": bool}; a level is {"files": {name: ["text", str] | ["gz", str] | ["dir"] |
["garbage-gz"]}}"""
import gzip
import json
import os
import shutil
import subprocess
import sys
import tempfile

sys.path.insert(0, os.environ.get('GEMATO_REPO', '/repo'))
from gemato.find_top_level import find_top_level_manifest   # noqa: E402

NAMES = ['Manifest', 'Manifest.gz', 'Manifest.bz2', 'Manifest.lzma', 'Manifest.xz']
DEPTH = int(os.environ.get('GV_TOP_DEPTH', '4'))


def main():
    cases = json.load(sys.stdin)
    base = tempfile.mkdtemp(prefix='gvt.', dir=os.environ.get('GV_TOP_BASE', '/tmp'))
    base = os.path.realpath(base)
    mounted = []
    extra_dirs = []
    shallow_links = set()
    realisation = 'same-device'
    try:
        # one skeleton per boundary position k: tmpfs mounted on the directory at depth k (1-based), 0 = none
        skel = {}
        for k in sorted({c['boundary'] for c in cases}):
            root = os.path.join(base, f'b{k}')
            dirs = [root]
            for d in range(1, DEPTH + 1):
                dirs.append(os.path.join(dirs[-1], f'l{d}'))
            os.makedirs(dirs[1] if k != 1 else dirs[0], exist_ok=True)
            os.makedirs(dirs[-1] if k == 0 else dirs[min(k, DEPTH)], exist_ok=True)
            if k:
                r = subprocess.run(['mount', '-t', 'tmpfs', 'tmpfs', dirs[k]], stderr=subprocess.PIPE)
                if r.returncode != 0:
                    print(json.dumps({'error': 'mount failed: ' + r.stderr.decode()}))
                    return
                mounted.append(dirs[k])
                realisation = 'tmpfs mounts in a private mount namespace'
            os.makedirs(dirs[-1], exist_ok=True)
            skel[k] = dirs
        # the real ancestors above the skeleton root must not carry Manifests
        anc = []
        p = base
        while True:
            st = os.stat(p)
            rst = os.stat('/')
            anc.append({'dev': st.st_dev, 'root': (st.st_dev, st.st_ino) == (rst.st_dev, rst.st_ino),
                        'manifest_present': any(os.path.lexists(os.path.join(p, n)) for n in NAMES)})
            if anc[-1]['root']:
                break
            p = os.path.dirname(p)
        # a store on another filesystem for Manifests that are symbolic links to files elsewhere
        foreign = os.path.join(base, 'foreign')
        os.makedirs(foreign)
        r = subprocess.run(['mount', '-t', 'tmpfs', 'tmpfs', foreign], stderr=subprocess.PIPE)
        if r.returncode == 0:
            mounted.append(foreign)
        elif os.path.isdir('/dev/shm') and os.stat('/dev/shm').st_dev != os.stat(base).st_dev:
            foreign = tempfile.mkdtemp(prefix='gvt.', dir='/dev/shm')
            extra_dirs.append(foreign)
        same = os.path.join(base, 'same')
        os.makedirs(same)
        out = []
        serial = 0
        for c in cases:
            dirs = skel[c['boundary']]
            # (re)write the Manifest files of every level of this skeleton
            for d, lv in zip(dirs, [{'files': {}}] + c['levels']):
                for n in NAMES:
                    q = os.path.join(d, n)
                    if os.path.isdir(q) and not os.path.islink(q):
                        os.rmdir(q)
                    elif os.path.lexists(q):
                        os.unlink(q)
                for n, spec in lv['files'].items():
                    q = os.path.join(d, n)
                    if spec[0] == 'link':
                        # the Manifest is a symbolic link to a file in the foreign / same-device store
                        serial += 1
                        target = os.path.join(foreign if spec[1] == 'foreign' else same, f't{serial % 50}')
                        if os.path.lexists(target):
                            os.unlink(target)
                        os.symlink(target, q)
                        q, spec = target, spec[2]
                    if spec[0] == 'text':
                        open(q, 'w', encoding='utf8').write(spec[1])
                    elif spec[0] == 'gz':
                        with gzip.open(q, 'wb') as f:
                            f.write(spec[1].encode('utf8'))
                    elif spec[0] == 'dir':
                        os.mkdir(q)
                    elif spec[0] == 'garbage-gz':
                        open(q, 'wb').write(b'this is not gzip data')
            start = dirs[c['start']]
            if c.get('via_link'):
                # the start directory is given through a symbolic link that lives elsewhere
                serial += 1
                if serial % 2:
                    ld = os.path.join(base, 'links')
                    os.makedirs(ld, exist_ok=True)
                    lp = os.path.join(ld, 'L%d' % (serial % 40))
                else:
                    # a link that is lexically much shallower than the directory it names (beside the scratch directory itself)
                    lp = base + '.L%d' % (serial % 40)
                    shallow_links.add(lp)
                if os.path.lexists(lp):
                    os.unlink(lp)
                os.symlink(start, lp)
                start = lp
            kw = {'allow_xdev': c['xdev'], 'allow_compressed': c['compr']}
            if c.get('defaults'):
                # the documented defaults, as the command-line tool relies on them: crossing allowed, compressed names not considered
                if c['xdev']:
                    del kw['allow_xdev']
                if not c['compr']:
                    del kw['allow_compressed']

            def ask(start, dirs=dirs, c=c, kw=kw):
                try:
                    r = find_top_level_manifest(start, **kw)
                    if r is None:
                        res = ['ok', None]
                    elif c.get('via_link'):
                        # which physical directory does the returned path name?
                        res = ['weird', r]
                        for j in range(0, c['start'] + 1):
                            try:
                                if os.path.lexists(r) and os.path.samefile(os.path.dirname(r) or '.', dirs[j]):
                                    res = ['ok', [c['start'] - j, os.path.basename(r)]]
                            except OSError:
                                pass
                    else:
                        rel = os.path.relpath(r, start).split('/')
                        res = ['ok', [sum(1 for x in rel if x == '..'), rel[-1]]]
                        if os.path.join(os.path.realpath(os.path.dirname(r)), os.path.basename(r)) != os.path.normpath(os.path.join(start, *rel)):
                            res = ['weird', r]
                except Exception as e:
                    res = ['err', type(e).__name__, getattr(e, 'errno', None)]
                return res
            chrooted = False
            if c.get('chroot') and not c.get('via_link') and c['boundary'] == 0:
                # the outermost level l1 is made the root directory of a child process: a repository at '/'
                inner = '/' + '/'.join(f'l{d}' for d in range(2, c['start'] + 1))
                rfd, wfd = os.pipe()
                pid = os.fork()
                if pid == 0:
                    code = 1
                    try:
                        os.close(rfd)
                        os.chroot(dirs[1])
                        os.chdir('/')
                        os.write(wfd, json.dumps(ask(inner)).encode())
                        code = 0
                    finally:
                        os._exit(code)
                os.close(wfd)
                data = b''
                while True:
                    chunk = os.read(rfd, 65536)
                    if not chunk:
                        break
                    data += chunk
                os.close(rfd)
                os.waitpid(pid, 0)
                if data:
                    res = json.loads(data)
                    chrooted = True
                    start = inner
            if not chrooted:
                res = ask(start)
            devs = [os.stat(d).st_dev for d in dirs]
            fdevs = []
            for d, lv in zip(dirs[1:], c['levels']):
                fd = {}
                for n in lv['files']:
                    try:
                        fd[n] = os.stat(os.path.join(d, n)).st_dev
                    except OSError:
                        pass
                fdevs.append(fd)
            out.append({'res': res, 'devs': devs, 'fdevs': fdevs, 'comps': [x for x in start.strip('/').split('/') if x], 'chrooted': chrooted})
        print(json.dumps({'results': out, 'ancestors': anc, 'base': base, 'realisation': realisation}))
    finally:
        for m in reversed(mounted):
            subprocess.run(['umount', '-l', m], stderr=subprocess.DEVNULL)
        shutil.rmtree(base, ignore_errors=True)
        for lp in shallow_links:
            try:
                os.unlink(lp)
            except OSError:
                pass
        for d in extra_dirs:
            shutil.rmtree(d, ignore_errors=True)


if __name__ == '__main__':
    main()
