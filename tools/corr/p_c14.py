"""C14: a signed tree stays signed; sub-Manifests are never signed; a signing failure is an error."""
import copy
import io
import json
import os

import engine_tree as ET
import gen_tree as GT
import oracle_exact as OX
import p_tree as PT
import p_update as PU
from p_update import files_of, slim, meta_of

BEGIN = b'-----BEGIN PGP SIGNED MESSAGE-----'
SIGB = b'-----BEGIN PGP SIGNATURE-----'


def cleartext(data):
    """(signed?, body) of a cleartext-signed text (no dash-escaping happens for Manifest lines)"""
    if not data.startswith(BEGIN):
        return False, data
    body = data.split(b'\n\n', 1)[1]
    return True, body.split(SIGB, 1)[0]


def gen_sign_case(r):
    c = GT.Case()
    t, files, written = GT.build_consistent(r, c, allow_multi=r.random() < 0.2, dups=False)
    muts = []
    single = r.random() < 0.12          # nothing changes at all: one listed path is refreshed and the save is not forced (see below)
    if r.random() < 0.6 and not single:
        muts.append(GT.mutate(r, c, files, written, r.choice(['content-same-size', 'content-other-size', 'delete', 'stray'])))
    c.meta['mutations'] = muts
    c.meta['order_seed'] = r.randint(0, 3)
    orig = r.choice(['unsigned', 'signed', 'signed', 'bad-signature']) if not single else r.choice(['unsigned', 'unsigned', 'signed'])
    top = t.nodes[t.lookup('Manifest')]
    text = top['data'].decode('utf8')
    if orig == 'signed':
        top['data'] = ET.fake_clearsign(text, 'orig').encode('utf8')
    elif orig == 'bad-signature':
        top['data'] = ET.fake_clearsign(text, 'orig').replace('FAKESIG', 'NOSIG').encode('utf8')
    top['size'] = len(top['data'])
    c.meta['orig'] = orig
    # sub-Manifests that carry a (valid) signature of their own on disk
    subs = sorted({PU.logical(m) for m in written if m != 'Manifest'})
    signed_subs = [lm for lm in subs if r.random() < 0.3]
    if signed_subs and orig != 'bad-signature':
        PU.recompress_tree(t, sorted(written), {}, {lm: (lambda raw: ET.fake_clearsign(raw.decode('utf8'), 'sub').encode('utf8')) for lm in signed_subs})
        if orig == 'signed':
            # the top-level text has changed (new digests of the signed sub-Manifests): sign it again
            text = OX.plain_bytes('Manifest', top['data']).decode('utf8')
            if text.startswith('-----BEGIN'):
                text = cleartext(text.encode('utf8'))[1].decode('utf8')
            top['data'] = ET.fake_clearsign(text, 'orig').encode('utf8')
            top['size'] = len(top['data'])
    c.meta['signed_subs'] = signed_subs
    # now and then the top-level Manifest itself is stored compressed (a save with a watermark may then rename it)
    if r.random() < 0.25:
        fmt = r.choice([f for f in GT.FORMATS if f])
        root = t.lookup('')
        ino = t.lookup('Manifest')
        top['data'] = ET.compress(fmt, top['data'])
        top['size'] = len(top['data'])
        t.unlink(root, 'Manifest')
        t.link(root, 'Manifest.' + fmt, ino)
        c.top = 'Manifest.' + fmt
    c.meta['top'] = c.top
    sign = r.choice([None, None, True, False])
    keyid = r.choice([None, None, 'KEY1', 'bad'])
    vpgp = r.random() < 0.8
    hashes = r.choice(PT.HASHSETS)
    c.opts = (hashes, r.random() < 0.5, r.choice([None, None, 0, 100000]), r.choice([None, 'gz', 'bz2']), 'default', sign, keyid, vpgp)
    c.meta['sign'] = [sign, keyid, vpgp]
    force = 1 if r.random() < 0.7 else 0
    c.ops = [['update', '', [], []], ['save', [], force, [], [], []], ['files'], ['loaded'], ['reload'], ['verify', '', 1, []]]
    if single:
        # a listed path whose entry lives in the top-level Manifest is refreshed with the hash set it already carries: its Manifest is
        # queued although no entry changes; the save is not forced - the signing decision holds all the same
        cand = []
        for ln in text.split('\n'):
            f = ln.split()
            if len(f) >= 5 and f[0] == 'DATA' and len(f) % 2 == 1 and '\\' not in f[1] and f[1] in files and all(h in GT.GOOD_HASHES for h in f[3::2]):
                cand.append((f[1], sorted(f[3::2])))
        if cand:
            fp, hs = r.choice(cand)
            sign = r.choice([True, True, None])
            c.opts = (hs, False, None, None, 'default', sign, keyid, vpgp)
            c.meta['sign'] = [sign, keyid, vpgp]
            c.ops = [['update_path', fp, 'DATA', [hs]], ['save', [], 0, [], [], []], ['files'], ['loaded'], ['reload'], ['verify', '', 1, []]]
            c.meta['single_path'] = fp
    c.hash_names = set(GT.GOOD_HASHES)
    t.hardlinks = True
    # the same run with signing switched off: its top-level Manifest is the text that has to be signed
    p = copy.copy(c)
    p.meta = dict(c.meta)
    p.tree = t.clone()
    p.tree.hardlinks = True
    p.opts = c.opts[:5] + (False, None, vpgp)
    return c, p


def gen_signed_sub_case(r):
    """a tree whose sub-Manifests carry cleartext signatures of their own - good ones and bad ones -, read with verification on"""
    c = GT.Case()
    t, files, written = GT.build_consistent(r, c, allow_multi=False, dups=False)
    subs = sorted({PU.logical(m) for m in written if m != 'Manifest'})
    kinds = {}
    for lm in subs:
        k = r.choice(['plain', 'good', 'bad', 'bad'])
        kinds[lm] = k
    tr = {}
    for lm, k in kinds.items():
        if k == 'good':
            tr[lm] = lambda raw: ET.fake_clearsign(raw.decode('utf8'), 'sub').encode('utf8')
        elif k == 'bad':
            tr[lm] = lambda raw: ET.fake_clearsign(raw.decode('utf8'), 'sub').replace('FAKESIG', 'NOSIG').encode('utf8')
    if tr:
        PU.recompress_tree(t, sorted(written), {}, tr)
    c.meta['sub_signatures'] = kinds
    c.meta['mutations'] = []
    c.meta['order_seed'] = r.randint(0, 3)
    vpgp = r.random() < 0.8
    c.opts = (None, False, None, None, 'default', None, None, vpgp)
    paths = [''] + [d for d in c.meta['dirs'] if d]
    fl = sorted(files)
    c.ops = [r.choice([['verify', r.choice(paths), r.choice([0, 1]), []], ['find_path_entry', r.choice(fl + ['absent'])],
                       ['verify_path', r.choice(fl + ['absent'])], ['entry_dict', r.choice(paths)]]) for _ in range(r.randint(1, 2))]
    c.hash_names = set(GT.GOOD_HASHES)
    return c


def signed_sub_engine(ctx, n_quick=300, n_thorough=3000):
    """every Manifest that is read with verification on has its signature judged - a sub-Manifest reached through a
    matching MANIFEST entry included: a bad signature there is a failure, never accepted silently"""
    r = ctx.rng('signed-subs')
    n = n_quick if ctx.tier == 'quick' else n_thorough
    cases = [gen_signed_sub_case(r) for _ in range(n)]
    with ET.Scratch() as sc:
        res = PT.run_cases(ctx, cases, 'tree:signed-sub-manifests', sc)
    PT.reclassify(ctx, 'a tree with cleartext-signed sub-Manifests read with verification: result differs from the reference')
    rejected = sum(1 for c, i, m in res if i[0] == 'ok' and any(x[0] == 'err' and x[1][0] == 'OpenPGPVerificationFailure' for x in i[1]))
    ctx.count('tree:signed-sub-manifests', len(cases), len(cases), dist={'runs_rejecting_a_bad_signature': rejected,
                                                                         'with_bad_signature': sum(1 for c in cases if 'bad' in c.meta['sub_signatures'].values())})


def c14(ctx):
    quick = ctx.tier == 'quick'
    r = ctx.rng('c14')
    n = 1200 if quick else 8000
    pairs = [gen_sign_case(r) for _ in range(n)]
    flat = [x for ab in pairs for x in ab]
    with ET.Scratch() as sc:
        res = PT.run_cases(ctx, flat, 'tree:signing', sc)
    PT.reclassify(ctx, 'saving with the signing options differs from the reference (C14)')
    st = {'signed_as_required': 0, 'plain_as_required': 0, 'signing_failure_reported': 0, 'top_not_rewritten': 0,
          'load_rejected_bad_signature': 0, 'sub_manifests_checked': 0, 'decision': {}}
    for k in range(0, len(res), 2):
        (c, i, m), (p, ip, mp) = res[k], res[k + 1]
        sign, keyid, vpgp = c.meta['sign']
        orig = c.meta['orig']
        key = f'orig={orig} sign={sign} key={keyid} verify={vpgp}'
        replay = {'meta': meta_of(c), 'ops': c.ops, 'opts': list(c.opts), 'impl': slim(i[1]) if i[0] == 'ok' else i, 'tree': PT.describe(c.tree)}
        if i[0] != 'ok':
            # loading the top-level Manifest failed (bad signature with verification on)
            if orig == 'bad-signature' and vpgp:
                st['load_rejected_bad_signature'] += 1
            st['decision'][key] = 'load-error'
            continue
        out = i[1]
        want = sign if sign is not None else (orig == 'signed' and vpgp)
        if out[0][0] != 'ok':
            st['decision'][key] = 'update-error'
            continue
        if out[1][0] != 'ok':
            err = out[1][1][0]
            st['decision'][key] = err
            if err == 'OpenPGPSigningFailure':
                if want and keyid == 'bad':
                    st['signing_failure_reported'] += 1
                else:
                    ctx.violation('spec', f'OpenPGPSigningFailure although {"signing was not wanted" if not want else "the key is usable"} ({key})', replay)
            continue
        files = files_of(out[2][1])
        loaded = set(out[3][1])
        # the top-level Manifest after the save: the loaded Manifest of the top directory with the logical name Manifest
        tops = [q for q in loaded if '/' not in q and PU.logical(q) == 'Manifest' and q in files]
        top_name = tops[0] if len(tops) == 1 else c.top
        top = OX.plain_bytes(top_name, files.get(top_name, b'')) or b''
        is_signed, body = cleartext(top)
        # was the top-level Manifest written by this run?
        pre_top = OX.plain_bytes(c.top, c.tree.nodes[c.tree.lookup(c.top)]['data']) or b''
        written = top != pre_top or top_name != c.top
        if top_name != c.top:
            st['top_renamed'] = st.get('top_renamed', 0) + 1
        if not written:
            st['top_not_rewritten'] += 1
        else:
            st['decision'][key] = 'signed' if is_signed else 'plain'
            if want and keyid == 'bad':
                ctx.violation('spec', f'signing was wanted with an unusable key, yet the save succeeded and wrote a {"signed" if is_signed else "plain"} Manifest ({key})', replay)
            elif want and not is_signed:
                ctx.violation('spec', f'the top-level Manifest had to be signed but was written plain ({key})', replay)
            elif not want and is_signed:
                ctx.violation('spec', f'the top-level Manifest was written signed although signing is off ({key})', replay)
            elif want:
                st['signed_as_required'] += 1
                kid = keyid or 'default'
                if (b'\nFAKESIG ' + kid.encode() + b'\n') not in top:
                    ctx.violation('spec', f'signed with another key than requested ({key})', replay)
                # the signed cleartext is exactly the entries written: the plain twin's top-level Manifest
                if ip[0] == 'ok' and ip[1][0][0] == 'ok' and ip[1][1][0] == 'ok':
                    pfiles = files_of(ip[1][2][1])
                    ptop = OX.plain_bytes(top_name, pfiles.get(top_name, b'')) or b''
                    if body != ptop:
                        replay['signed_cleartext'] = body.decode('latin1')[:800]
                        replay['plain_save'] = ptop.decode('latin1')[:800]
                        ctx.violation('spec', f'the signed cleartext is not the text of the entries written ({key})', replay)
            else:
                st['plain_as_required'] += 1
        # sub-Manifests are never signed
        pre = {q: c.tree.nodes[ino]['data'] for q, ino in c.tree.files()}
        for mp_ in loaded:
            if mp_ != top_name and mp_ in files and pre.get(mp_) != files[mp_]:
                raw = OX.plain_bytes(mp_, files[mp_]) or b''
                st['sub_manifests_checked'] += 1
                if b'BEGIN PGP' in raw:
                    ctx.violation('spec', f'the sub-Manifest {mp_} was written with a signature ({key})', replay)
        # the tree still loads and verifies (reload verifies the new signature)
        v = out[5] if len(out) > 5 else None
        if v is not None and not (v[0] == 'ok' and v[1][0] == 1):
            pv = ip[1][5] if (ip[0] == 'ok' and len(ip[1]) > 5) else None
            if pv is not None and pv[0] == 'ok' and pv[1][0] == 1:
                ctx.violation('spec', f'after the signed save the tree does not verify, after the plain one it does: {str(v)[:150]} ({key})', replay)
    ctx.count('tree:signing', len(flat), len(pairs),
              samples=[{'files': pairs[0][0].meta.get('files'), 'sign': pairs[0][0].meta['sign'], 'orig': pairs[0][0].meta['orig'], 'ops': pairs[0][0].ops}],
              dist=st)
    real_gpg(ctx, r, quick)
    failing_signer(ctx)
    no_signing_environment(ctx, r, quick)
    sign_argv(ctx)


def failing_signer(ctx):
    """a signing backend that fails the way gpg does when the key cannot be used at signing time (locked key, agent gone): it has
    already written the armor header and the cleartext when it exits non-zero.  Saving must raise the signing failure,
    whatever was written to stdout; exit status 0 is the only success"""
    import stat as _stat
    import tempfile
    import shutil
    import gemato.openpgp as go
    import gemato.recursiveloader as rl
    import gemato.exceptions as ge
    td = tempfile.mkdtemp(prefix='gv-c14-')
    st = {'runs': 0, 'failures_reported': 0, 'successes': 0}
    old = go.GNUPG
    try:
        for exitst in (0, 1, 2, 'KILL', 'TERM', 'SEGV'):        # (a name = the backend is ended by that signal after its output)
            for output in ('full', 'partial', 'none'):
                script = os.path.join(td, f'gpg-{exitst}-{output}')
                body = {'full': 'printf -- "-----BEGIN PGP SIGNED MESSAGE-----\\nHash: SHA512\\n\\n"; cat; printf -- "-----BEGIN PGP SIGNATURE-----\\n\\nFAKE\\n-----END PGP SIGNATURE-----\\n"',
                        'partial': 'printf -- "-----BEGIN PGP SIGNED MESSAGE-----\\nHash: SHA512\\n\\n"; cat', 'none': 'cat >/dev/null'}[output]
                how_to_end = ('exit ' + str(exitst)) if isinstance(exitst, int) else ('kill -' + exitst + ' $$; sleep 5')
                open(script, 'w').write('#!/bin/sh\ncase "$*" in *--clearsign*) ' + body + '; ' + how_to_end + ';; *) exit 0;; esac\n')
                os.chmod(script, 0o755)
                tree = os.path.join(td, f'tree-{exitst}-{output}')
                os.makedirs(tree)
                open(os.path.join(tree, 'a'), 'w').write('a\n')
                open(os.path.join(tree, 'Manifest'), 'w').write('')
                go.GNUPG = script
                res = 'ok'
                try:
                    m = rl.ManifestRecursiveLoader(os.path.join(tree, 'Manifest'), verify_openpgp=False, openpgp_env=go.SystemGPGEnvironment(),
                                                   sign_openpgp=True, hashes=['SHA1'])
                    m.update_entries_for_directory('')
                    m.save_manifests(force=True)
                except ge.OpenPGPSigningFailure:
                    res = 'OpenPGPSigningFailure'
                except Exception as e:
                    res = type(e).__name__
                finally:
                    go.GNUPG = old
                st['runs'] += 1
                want = 'ok' if exitst == 0 else 'OpenPGPSigningFailure'
                if res != want:
                    ctx.violation('spec', f'the signing backend exited {exitst} after writing {output} output: saving ended with {res}, expected {want} '
                                  '(a signing failure is an error, never a silently unsigned or half-written Manifest)',
                                  {'backend_exit': exitst, 'backend_output': output, 'result': res,
                                   'manifest_written': open(os.path.join(tree, 'Manifest')).read()[:300]})
                elif want == 'ok':
                    st['successes'] += 1
                else:
                    st['failures_reported'] += 1
    finally:
        go.GNUPG = old
        shutil.rmtree(td, ignore_errors=True)
    ctx.count('pgp:failing-signer', st['runs'], st['runs'], dist=st)


def real_gpg(ctx, r, quick):
    """the same decisions with GnuPG itself: the result verifies with the signing key, over exactly the entries written;
    a home without the secret key makes the save fail"""
    import gpgenv
    import gemato.openpgp as go
    import gemato.recursiveloader as rl
    import gemato.exceptions as ge
    kd = gpgenv.keydata()
    old_home = os.environ.get('GNUPGHOME')
    st = {'signed_and_verified': 0, 'plain': 0, 'signing_failure_reported': 0, 'runs': 0}
    n = 90 if quick else 360
    try:
        with gpgenv.GpgHome() as usable, gpgenv.GpgHome() as pubonly, ET.Scratch() as sc:
            usable.import_key(kd.PRIVATE_KEY)
            usable.import_key(kd.VALID_PUBLIC_KEY)
            pubonly.import_key(kd.VALID_PUBLIC_KEY)
            rc, fprs = usable.import_key(kd.OTHER_VALID_PUBLIC_KEY)      # a key whose secret half is not available
            other_fpr = sorted(fprs)[0] if fprs else 'no-such-key@example.invalid'
            for _ in range(n):
                c = GT.Case()
                t, files, written = GT.build_consistent(r, c, allow_multi=False, dups=False, nfiles=r.randint(1, 4))
                orig_signed = r.random() < 0.5
                top = t.nodes[t.lookup('Manifest')]
                if orig_signed:
                    rc, signed, _ = usable.clearsign(top['data'].decode('utf8'))
                    assert rc == 0
                    top['data'] = signed.encode('utf8')
                sign = r.choice([None, True, False])
                keyid = r.choice([None, kd.KEY_FINGERPRINT, other_fpr, 'no-such-key@example.invalid'])
                home = r.choice([usable, usable, pubonly])
                want = sign if sign is not None else orig_signed
                key_usable = home is usable and keyid in (None, kd.KEY_FINGERPRINT)
                via_cli = r.random() < 0.5
                b, s = sc.fresh()
                b2, _ = sc.fresh()
                st['runs'] += 1
                replay = {'via_cli': via_cli, 'orig_signed': orig_signed, 'sign': sign, 'keyid': keyid, 'secret_key_in_home': home is usable, 'requested_key_usable': key_usable, 'files': c.meta.get('files')}
                try:
                    t.realise(b, s)
                    t.realise(b2, None) if False else None
                    os.environ['GNUPGHOME'] = home.home
                    env = go.SystemGPGEnvironment()
                    res = None
                    if via_cli:
                        # the command-line front end: gemato update [--sign | --no-sign] [--openpgp-id KEY]
                        argv = ['gemato', r.choice(['update', 'update', 'create']), '--hashes', 'SHA256 SHA512', '--force-rewrite']
                        argv += ['--sign'] if sign is True else ['--no-sign'] if sign is False else []
                        argv += ['--openpgp-id', keyid] if keyid else []
                        rc_cli, items = PT.run_cli_collect(argv + [b])
                        replay['argv'] = argv
                        replay['cli'] = [rc_cli, items]
                        res = 'ok' if rc_cli == 0 else (items[-1][1] if items and items[-1][0] == '<error>' else str(rc_cli))
                        st['cli_runs'] = st.get('cli_runs', 0) + 1
                    else:
                        try:
                            m = rl.ManifestRecursiveLoader(os.path.join(b, 'Manifest'), verify_openpgp=True, openpgp_env=env,
                                                           sign_openpgp=sign, openpgp_keyid=keyid, hashes=['SHA256', 'SHA512'])
                            m.update_entries_for_directory('')
                            m.save_manifests(force=True)
                            res = 'ok'
                        except ge.OpenPGPSigningFailure:
                            res = 'OpenPGPSigningFailure'
                        except Exception as e:
                            res = type(e).__name__
                    topb = open(os.path.join(b, 'Manifest'), 'rb').read()
                    is_signed = topb.startswith(BEGIN)
                    if want and not key_usable:
                        if res == 'ok':
                            ctx.violation('spec', f'the requested key has no usable secret key, signing wanted, but the save succeeded ({"signed" if is_signed else "unsigned"} Manifest written)', replay)
                        else:
                            st['signing_failure_reported'] += 1
                    elif res == 'OpenPGPSigningFailure':
                        ctx.violation('spec', 'signing failed although the requested key is usable', replay)
                    elif res != 'ok':
                        st['other_errors'] = st.get('other_errors', 0) + 1      # something else is wrong with the generated tree
                    elif want:
                        rc, status, clear = usable.verify(topb.decode('utf8'))
                        good = rc == 0 and any(l.startswith(b'[GNUPG:] VALIDSIG ' + kd.KEY_FINGERPRINT.encode()) for l in status)
                        # the same entries written by an unsigned save
                        os.environ['GNUPGHOME'] = home.home
                        m2 = rl.ManifestRecursiveLoader(os.path.join(b, 'Manifest'), verify_openpgp=True, openpgp_env=env,
                                                        sign_openpgp=False, hashes=['SHA256', 'SHA512'])
                        m2.save_manifests(force=True)
                        plain = open(os.path.join(b, 'Manifest'), 'rb').read().decode('utf8')
                        if not is_signed or not good:
                            ctx.violation('spec', f'the saved top-level Manifest does not verify with the signing key (gpg exit {rc})', replay)
                        elif clear.rstrip('\n') != plain.rstrip('\n'):
                            replay['authenticated'] = clear[:600]
                            replay['entries_written'] = plain[:600]
                            ctx.violation('spec', 'the authenticated cleartext is not the text of the entries written', replay)
                        else:
                            st['signed_and_verified'] += 1
                    else:
                        if is_signed:
                            ctx.violation('spec', 'signing is off but the top-level Manifest was written signed', replay)
                        else:
                            st['plain'] += 1
                    for p, d, mt in ET.list_real_files(b):
                        if os.path.basename(p).startswith('Manifest') and p != 'Manifest' and b'BEGIN PGP' in (OX.plain_bytes(p, d) or b''):
                            ctx.violation('spec', f'sub-Manifest {p} written with a signature', replay)
                finally:
                    sc.cleanup(b, s)
                    sc.cleanup(b2, None)
    finally:
        if old_home is None:
            os.environ.pop('GNUPGHOME', None)
        else:
            os.environ['GNUPGHOME'] = old_home
    ctx.count('pgp:real-gpg-signing', st['runs'], st['runs'], dist=st)


def no_signing_environment(ctx, r, quick):
    """signing is in effect (requested, or inherited from a Manifest that was loaded with a valid signature) but the caller handed over no
    OpenPGP environment - the default of ManifestRecursiveLoader and of ManifestFile.dump: nobody can sign, so the save / dump must end with
    an error; it never returns having written an unsigned Manifest"""
    import io
    import tempfile
    import shutil
    import gemato.manifest as gm
    import gemato.recursiveloader as rl

    class Env:                      # accepts everything (only used to load a Manifest as validly signed)
        def verify_file(self, f):
            import gemato.openpgp as go
            f.read()
            return go.OpenPGPSignatureData('F' * 40, None, None, 'F' * 40)

        def clear_sign_file(self, f, outf, keyid=None):
            outf.write(signed_text(f.read()))

    def signed_text(body):
        return BEGIN.decode() + '\nHash: SHA512\n\n' + body + SIGB.decode() + '\n\nFAKE\n-----END PGP SIGNATURE-----\n'
    st = {'runs': 0, 'errors_reported': 0, 'controls_signed': 0}
    td = tempfile.mkdtemp(prefix='gv-c14n-')
    try:
        for i in range(30 if quick else 300):
            tree = os.path.join(td, 't%d' % i)
            os.makedirs(os.path.join(tree, 'sub'))
            for name in ['a', 'sub/b'][:r.randint(1, 2)]:
                open(os.path.join(tree, name), 'w').write('x' * r.randint(0, 9))
            body = 'DATA a 0\n' if r.random() < 0.5 else ''
            orig_signed = r.random() < 0.5
            text = signed_text(body) if orig_signed else body
            open(os.path.join(tree, 'Manifest'), 'w').write(text)
            sign = r.choice([True, None]) if orig_signed else True
            front = r.choice(['save_manifests', 'save_manifest', 'dump'])
            keyid = r.choice([None, '0xDEADBEEF'])
            with_env = r.random() < 0.25         # control: the same call with an environment signs
            replay = {'front_end': front, 'sign_openpgp': sign, 'top_level_loaded_signed': orig_signed, 'openpgp_keyid': keyid, 'environment': with_env,
                      'manifest': text}
            res = 'returned'
            out = None
            try:
                if front == 'dump':
                    m = gm.ManifestFile()
                    with io.StringIO(text) as f:
                        m.load(f, verify_openpgp=orig_signed, openpgp_env=Env() if orig_signed else None)
                    o = io.StringIO()
                    m.dump(o, sign_openpgp=sign, openpgp_keyid=keyid, openpgp_env=Env() if with_env else None)
                    out = o.getvalue()
                else:
                    # (the environment is needed to load the signed top-level Manifest; it is taken away before saving)
                    l = rl.ManifestRecursiveLoader(os.path.join(tree, 'Manifest'), verify_openpgp=orig_signed, openpgp_env=Env() if (orig_signed or with_env) else None,
                                                   sign_openpgp=sign, openpgp_keyid=keyid, hashes=['SHA1'])
                    if not with_env:
                        l.openpgp_env = None
                        if hasattr(l, 'manifest_loader'):
                            l.manifest_loader.openpgp_env = None
                    l.update_entries_for_directory('')
                    if front == 'save_manifest':
                        l.save_manifest('Manifest')
                    else:
                        l.save_manifests(force=True)
                    out = open(os.path.join(tree, 'Manifest')).read()
            except Exception as e:
                res = type(e).__name__
            st['runs'] += 1
            replay['result'] = res
            replay['written'] = (out or '')[:300]
            if with_env:
                if res == 'returned' and out.startswith(BEGIN.decode()):
                    st['controls_signed'] += 1
                else:
                    ctx.violation('spec', f'{front} with signing in effect and an OpenPGP environment did not write a signed Manifest ({res})', replay)
            elif res == 'returned':
                ctx.violation('spec', f'{front} returned although signing is in effect and there is no OpenPGP environment to sign with: an unsigned Manifest was written silently', replay)
            else:
                st['errors_reported'] += 1
    finally:
        shutil.rmtree(td, ignore_errors=True)
    ctx.count('pgp:no-signing-environment', st['runs'], st['runs'], dist=st)


def sign_argv(ctx):
    """the requested key reaches the backend as it was given: one --local-user argument carrying the whole key id (a user ID may hold white
    space: 'Name Words', 'Name <mail>', a fingerprint in groups), none when no key is requested; the text to sign goes to its standard input"""
    import io
    import p_pgp
    import gemato.openpgp as go
    env = go.SystemGPGEnvironment()
    n = 0
    for keyid in (None, '0x136880E72A7B1384', 'Gentoo Release Signing', 'Name <mail@example.org>', '81E1 2C16 BD8D CD60 BE18  0845 1368 80E7 2A7B 1384',
                  'tab\tid', ' padded ', 'a,b', '=exact uid', b'0x136880E72A7B1384'):
        p_pgp.FakePopen.calls.clear()
        p_pgp.FakePopen.reply = (0, b'-----BEGIN PGP SIGNED MESSAGE-----\n(stand-in)\n', b'')
        out = io.StringIO()
        with p_pgp.fake_popen():
            try:
                env.clear_sign_file(io.StringIO('DATA a 0\n'), out, keyid=keyid)
                err = None
            except Exception as e:
                err = repr(e)[:120]
        n += 1
        argv = p_pgp.FakePopen.calls[0]['argv'] if p_pgp.FakePopen.calls else None
        want_tail = ['--local-user', keyid] if keyid is not None else []
        lu = [a for k, a in enumerate(argv or []) if k and argv[k - 1] == '--local-user']
        if err or argv is None or len(p_pgp.FakePopen.calls) != 1 or lu != want_tail[1:] or argv.count('--local-user') != len(want_tail) // 2 \
                or '--clearsign' not in argv:
            ctx.violation('spec', f'signing with key id {keyid!r}: the backend is run as {argv} ({err or "no error"}); the requested key must arrive as one '
                          '--local-user argument, unchanged (none when no key is requested)', {'keyid': repr(keyid), 'argv': [repr(a) for a in (argv or [])], 'error': err})
    ctx.count('pgp:sign-argv', n, n)
