from common import register

ORACLE = ['Python builtins (Py/*.v) are modelled, validated per run against CPython %s' % __import__('sys').version.split()[0]]

register('C08', 'p_text', 'c08',
         'exhaustive over all 0x110000 code points (encode/decode, model vs implementation, in four contexts); '
         'random entry lists (all tags, hostile paths, sizes to 10^30, 0-10 checksums) dumped/loaded by both; '
         'generated and mutated texts for the fixed point; five storage formats on disk. '
         'non-trivial = entry list containing a path that needs escaping, or an accepted non-canonical text',
         'Theorems in Properties/C08.v are about the model (Model/Entry.v, Model/Text.v over Gen/Tables.v); '
         'the correspondence compares model and implementation results case by case and re-checks the round-trip '
         'predicates on the implementation output.',
         ORACLE + ['UTF-8 encodable text (lone surrogates reachable through \\\\uD800 escapes are outside the file round trip)'])
register('C09', 'p_text', 'c09',
         'grammar lines with independently valid/invalid fields, exhaustive token sequences, mutated valid Manifests, '
         'every \\\\xHH, (sampled in quick tier) \\\\uHHHH and boundary/random \\\\UHHHHHHHH values; compared on (exception class | entries); '
         'non-trivial = distinct text',
         'Theorems in Properties/C09.v: totality of the parser result type and one rejection theorem per class; '
         'correspondence on generated texts; spec predicates evaluated on the implementation output.',
         ORACLE)


register('C04', 'p_pgp', 'c04',
         'exhaustive line-class sequences (10 classes, both final-newline settings, length <= 4 quick / 6 thorough), random longer '
         'sequences over 22 classes with CR/LF variants, and mutations (insert/delete/duplicate/move lines, whitespace, CRLF, dash-escapes, '
         'injected armor, concatenation) of Manifests genuinely signed with gpg; non-trivial = distinct text',
         'Theorems in Properties/C04.v (one invariant over the loader fold); Spec/Cleartext.v c04_b is evaluated by the extracted model on the '
         'implementation output (entries + text captured at verify_file); with real gpg the entries are compared with those of the cleartext gpg authenticates.',
         ORACLE + ['GnuPG: --decrypt outputs the authenticated cleartext (dash-unescaped, trailing whitespace removed)'])

register('C05', 'p_pgp', 'c05',
         'bounded-exhaustive sequences of gpg status lines (16-word vocabulary from doc/DETAILS, length <= 3 quick / 4 thorough) x exit status, '
         'random longer sequences; the environment handed to gpg under five user environments x proxy; with real gpg: key states '
         '(valid, expired, revoked, other key, no key, subkey) x owner-trust 2..6, single-byte mutations of a signed Manifest, '
         '-K against three user keyrings (snapshot compared), -s/-P flag combinations; non-trivial = distinct (exit, status text) / gpg operation',
         'Theorems in Properties/C05.v against Spec/Accept.v (gpg vocabulary); accept_spec/failure_spec are evaluated by the extracted model on the '
         'status lines the implementation saw (mocked Popen) and on the status real gpg printed.',
         ORACLE + ['GnuPG: EXPKEYSIG/REVKEYSIG/GOODSIG/VALIDSIG/TRUST_* are printed as documented in doc/DETAILS; an isolated GNUPGHOME confines key lookup'])

register('C17', 'p_hash', 'c17',
         'contents of every length 0..300, 65534..65538, 1048574..1048578 and random longer ones x size hints {0, true, -1, +1, half, double, around 1 MiB} '
         'x read schedules (none, random cuts, every byte, cuts at the 64 KiB boundaries) served by a scheduled file object or a real BufferedReader over a '
         'short-read raw stream, x 1-4 hashlib names (+ __size__); reference = hashlib one-shot and coreutils; all ten Manifest names and unknown/unsupported '
         'names through get_file_metadata; non-trivial = distinct (length, cuts, hint)',
         'Theorems in Properties/C17.v; the executable model runs with a digest table computed by hashlib (never by gemato).',
         ORACLE + ['hashlib objects are streaming (update(a);update(b) = update(a+b)); validated per run for every available algorithm',
                   'hashlib one-shot and coreutils are the reference for "the standard digest"'])

register('C15', 'p_top', 'c15',
         'directory chains of depth 4 on a real filesystem: per level {absent, plain, gz, both} Manifest, IGNORE of the start path / an ancestor / a sibling / '
         'string-prefix look-alikes / trailing slash / deeper path / preceded by a DATA entry, every start depth, allow_xdev and allow_compressed on/off, '
         'a tmpfs mounted at any level (private mount namespace) as device boundary, Manifest as directory / garbage gzip / syntax error; '
         'non-trivial = distinct case',
         'Theorem C15_outermost ties the model to the declarative Spec/FindTop.v is_answer, which determines the result uniquely; '
         'a disagreement between implementation and model on a readable chain is therefore a violation of the specification.',
         ORACLE + ['kernel: st_dev identifies a filesystem; os.path.relpath is lexical (start paths are canonical)'])

TREE_RULE = ('random consistent trees (0-4 dirs, 0-9 files, hostile names, hidden files, 1-4 Manifests incl. several per directory and all five '
             'storage formats, duplicate/compatible/conflicting entries, IGNORE incl. look-alikes, DIST/TIMESTAMP) built without gemato, then ')
register('C01', 'p_tree', 'c01',
         TREE_RULE + '0-3 mutations out of 19 kinds (content same/other size, delete, stray, hidden stray, file<->dir, fifo, socket, mtime, Manifest byte/'
         'delete/garbage, dangling/looping link, directory and file symlinks, directory on another device); ops: verify of every sub-path with '
         'every handler policy and last_mtime in {none, older, equal, newer}, find_path_entry, verify_path, assert_path_verifies, find_dist_entry; '
         'pinned scandir orders; non-trivial = distinct (files, manifests, mutations, ops)',
         'Theorems in Properties/C01.v (per-entry soundness, stray rule, IGNORE, aggregation, component-wise IGNORE matching, one directory is its items, every entry and every found file of the whole tree is checked); the whole-tree '
         'behaviour is tied to /repo by running both on the same abstract tree realised on two devices.',
         ORACLE + ['kernel: the scratch tree behaves like the inode-graph model (stat/open/fstat/scandir/read); /dev/shm is a second device'])
register('C02', 'p_tree', 'c02',
         'Manifest chains of depth 1-5, every storage format per level, optionally two Manifests in one directory; the attacker changes / adds / removes '
         'a file and recomputes every Manifest from the bottom up to level k (every k), the Manifest above is untouched; APIs: whole and sub-directory '
         'verification, verify_path, assert_path_verifies, find_path_entry, find_dist_entry; non-trivial = distinct (depth, formats, tamper, k, API)',
         'Theorems in Properties/C02.v (chain invariant over loading rounds); every tampering must end in a mismatch for the level-k Manifest.',
         ORACLE)
register('C06', 'p_tree', 'c06',
         TREE_RULE + 'one persistent injected OSError (EACCES, EPERM, EIO, ENOMEM, ELOOP, ENOTDIR, EMFILE, ESTALE) on one primitive (open, stat, fstat, '
         'scandir, read, Python-level open) of one object (file, directory, Manifest, stray); verification of a sub-path with throwing or keep-going handler, with and '
         'without last_mtime; plus update (scan for unregistered Manifests, refresh) + save under one fault, with file listings after the failed operation; '
         'non-trivial = distinct (tree, fault, op)',
         'Theorems in Properties/C06.v (per-primitive error propagation); the fault is injected into the real os.* / open() calls in-process and into the model.',
         ORACLE + ['faults are persistent for the run and keyed by (st_dev, st_ino)'])
register('C07', 'p_tree', 'c07',
         TREE_RULE + '2-6 simultaneous mutations; keep-going policies {always False, always True, always None, by path parity}; every sub-path; '
         'the complete handler call log (paths and difference names, in order) is compared; plus gemato verify --keep-going exit status; '
         'non-trivial = distinct case',
         'Theorems in Properties/C07.v (result = conjunction of all handler verdicts of the whole scan; every report justified; every failing entry / found file reported).',
         ORACLE)

register('C16', 'p_tree', 'c16',
         'directory graphs: every rooted shape with <= 4 directories x every set of <= 3 extra directory edges (symlinks to self, parent, ancestor, sibling, '
         'mutual pairs, chains; 6175 graphs, all in the thorough tier, 900 sampled in quick) x IGNORE {none, on the link, above it} x {throwing, keep-going}; '
         'plus random trees with a directory on a second device (/dev/shm) linked in at any position, with and without one-file-system mode; each '
         'implementation run under a 20 s watchdog; an independent oracle decides whether a link leads back to an ancestor; non-trivial = distinct case',
         'Theorems in Properties/C16.v are about the verification walk; the update / create / unregistered-Manifest walks run over the same graphs and over trees with a directory on a second device or a symlink loop (model vs /repo).',
         ORACLE + ['kernel: (st_dev, st_ino) identifies a directory'])

UPD_RULE = ('random consistent trees as for C01, then a prior Manifest state out of {consistent, stale (1-3 of: content same/other size, delete, stray, '
            'hidden stray, mtime, file/dir symlink, dangling link), absent, unregistered valid/empty/garbage/syntax-error sub-Manifests in three formats}; ')
register('C03', 'p_update', 'c03',
         UPD_RULE + 'hash sets {SHA1; SHA256+SHA512; BLAKE2B+SHA512; MD5+SHA1+SHA3_256}, sort on/off, watermark {none, 0, 60, 200, 100000}, '
         'format {none, gz, bz2, xz, lzma}, forced save, whole-tree and sub-directory updates, a second update round; ops: update, save, list files, '
         'fresh loader, verify; pinned scandir orders; non-trivial = distinct (files, manifests, mutations, ops)',
         'Theorems in Properties/C03.v (per-entry refresh rule); the whole-tree behaviour is tied to /repo by running both on the same abstract tree; on the '
         'implementation result an independent oracle (tools/corr/oracle_exact.py, no gemato code) checks exactness and the fresh verification must succeed.',
         ORACLE + ['kernel: the scratch tree behaves like the inode-graph model incl. open(..., "w") / rename / unlink'])

register('C10', 'p_update', 'c10',
         UPD_RULE + 'operation sequences: file listing, 0-3 lookups/verifications, listing, update (whole tree / sub-directory / invalid path / with one persistent '
         'injected OSError / with a directory on another device in one-file-system mode / with a symlink loop), listing, then either the loader is discarded '
         'or save (all option combinations as C03), listing; listings are content + mtime of every file, also taken after a failed operation; '
         'non-trivial = distinct (files, manifests, mutations, ops, fault)',
         'Theorems in Properties/C10.v (only save returns a different filesystem; write/unlink frame; refresh keeps the entry type); on the implementation the '
         'listings are compared (nothing changes before save or after a failed operation; after save only loaded Manifests differ) and the Manifest texts before/after '
         'are parsed independently to compare DIST/IGNORE/TIMESTAMP lines, out-of-scope entries and entry types.',
         ORACLE + ['kernel: file mtimes only change when a file is written'])

register('C12', 'p_update', 'c12',
         UPD_RULE + '(1) update + save, all files aged, then a second update + save by a fresh or the same loader: the queue of Manifests to rewrite must be empty and '
         'bytes and st_mtime_ns of every file unchanged; (2) pairs of runs on one tree (one Manifest per directory, no duplicate entries, sorting on, forced save, '
         'every watermark/format) that differ in the scandir order and in the order of the lines of the old Manifests: all written Manifests byte-identical, '
         'for /repo and for the model; non-trivial = distinct case / pair',
         'Theorems in Properties/C12.v (save with an empty queue writes nothing; the sorted dump is canonical and idempotent); the runs decide that the second '
         'update queues nothing and that the written entry set does not depend on enumeration order.',
         ORACLE + ['kernel: st_mtime_ns changes when a file is written (files are aged to a fixed old time between the runs)'])

register('C13', 'p_update', 'c13',
         '(1) random consistent trees (as C01) with 0-2 mutations of data files; each tree in four layouts: as generated and three random assignments of '
         '{plain, gz, bz2, lzma, xz} to every sub-Manifest (parents rewritten with the new name and true digests, without gemato); the same verification / lookup '
         'operations on all four must give identical results, for /repo and for the model; (2) trees with one Manifest per directory in a random layout: update, forced '
         'save, then two saves with watermarks drawn from {0, 1, 10^6} and size-1/size/size+1 of every sub-Manifest (sizes measured in a first run), every target '
         'format, forced and unforced, then a fresh verification; checked: compressed iff size >= watermark, top-level Manifest untouched, one file per logical '
         'Manifest, no leftovers, no dangling MANIFEST entries; non-trivial = distinct group / case',
         'Theorems in Properties/C13.v (reading is transparent; the policy of every profile); the runs decide the whole-tree clauses.',
         ORACLE + ['codecs: the bytes produced by gzip/bz2/lzma decompress to the text written (exercised on the real files)'])

register('C11', 'p_c11', 'c11',
         'random consistent trees (one Manifest per directory) in two replicas; `gemato update -t` with a controlled clock, then 1-3 rounds of 1-4 file operations '
         '(same-size / other-size modification, add, delete, touch) with explicit mtimes {TS-50, TS-1, TS, TS+1, TS+2, TS+50} applied to both; replica A runs '
         '`gemato update -i`, replica B `gemato update`, both in-process under TZ in {UTC, Etc/GMT-14, Etc/GMT+12, Asia/Kolkata, America/St_Johns}; in a quarter of the '
         'rounds a file that has already been hashed is modified during the scan (mtime = scan start + 1 s) while the clock keeps advancing; every round is also run '
         'through the model from the real pre-state; non-trivial = round',
         'Theorems in Properties/C11.v (per-entry: incremental = full unless not newer, non-empty and same size; skipping an up-to-date entry = full); the whole update '
         'is tied to /repo by running the CLI and the model on the same directory states; when every modified file is later than the previous TIMESTAMP the two replicas '
         'must agree byte for byte, and the TIMESTAMP written must be the start of the scan.',
         ORACLE + ['kernel: st_mtime is what os.utime set (whole seconds are used)', 'the controlled clock replaces datetime.datetime.utcnow in gemato.cli only'])

register('C14', 'p_c14', 'c14',
         'random consistent trees with sub-Manifests (hostile names included), 0-1 mutations; top-level Manifest originally {unsigned, signed, signed with a bad signature} x sign option '
         '{unset, on, off} x key id {default, explicit, one without usable secret key} x verification on/off x sort/compression options x forced/unforced save; each case runs twice '
         '(as given, and with signing off) through /repo and the model with a deterministic stand-in for gpg (same function on both sides); then with real gpg 2.2: homes with and without '
         'the secret key, explicit/default key, originally signed or not; non-trivial = distinct pair / run',
         'Theorems in Properties/C14.v (sign decision, sub-Manifests never reach the signer, failure propagates, stored bytes = signer output over the dump); on the implementation: signed '
         'iff required, the cleartext equals the unsigned twin, sub-Manifests carry no signature, signing failure raised; with real gpg the result verifies with the signing key.',
         ORACLE + ['GnuPG: --clearsign output verifies with the signing key and authenticates the text given (exercised with gpg 2.2 on every run)'])

register('C18', 'p_c18', 'c18',
         'trees of the C01 generator (19 mutation kinds) and of the C03 generator (stale / absent / unregistered / compressed prior states), in 60% of the cases with 1-3 odd lines put into '
         'one Manifest (duplicate IGNORE, unknown / unsupported hash names, out-of-range and surrogate escapes, escaped absolute paths, entries naming directories or lying below a regular '
         'file, missing / negative / huge sizes, dangling checksum names, unknown tags, and lines of the C09 grammar generator); commands run in-process through gemato.cli.main: '
         'verify [-k], update -H .. -p {default, ebuild, old-ebuild} on the whole tree and on sub-directories, create; outcome class = exit status or escaping exception class, '
         'compared with the class the model predicts for the library operations behind the command; non-trivial = distinct (tree, odd lines, command)',
         'Theorems in Properties/C18.v; an escaping exception other than OSError is a violation (damaged compressed streams are outside "UTF-8 Manifest text"); known findings are matched structurally.',
         ORACLE)

register('C19', 'p_repo', 'c19',
         'generated ebuild repositories: 0-4 categories (some with metadata.xml) x 0-4 packages with 0-3 ebuilds, metadata.xml, files/ with nested directories and awkward names, '
         'ChangeLog, pre-existing package Manifests with DIST entries; eclass, licenses, profiles (nested), metadata with layout.conf, timestamps, dtd / glsa / news / xml-schema / '
         'md5-cache/<category>; distfiles / local / packages with junk; `gemato create -p {ebuild, old-ebuild, default}` in-process with random overrides of hashes, watermark, format; '
         'then `gemato verify` (plain loader), 0-3 edits, `gemato update -p ..`, verify again; the files written are compared with the model; non-trivial = repository',
         'Theorems in Properties/C19.v about the policy functions regenerated from profile.py; the runs compare the tree written with an independent statement of the documented policy '
         '(Manifest directories, default IGNOREs, entry types, hashes, sorting, compression) and with the model, and verify it with a plain loader.',
         ORACLE)

register('C20', 'p_repo', 'c20',
         'generated repositories as in C19 with portable names, ignored directories absent, with and without pre-existing package Manifests carrying DIST entries: complete layouts '
         '(profiles/categories, metadata/{dtd,glsa,news,xml-schema}, eclass, licenses) for utils/gen_fast_metamanifest.py, single package / eclass / licenses directories for '
         'utils/gen_fast_manifest.py (both run as subprocesses); then gemato verify, the exactness oracle (every file once, true size, BLAKE2B+SHA512), gemato update -p ebuild on the '
         'untouched tree (semantic and byte comparison), 0-5 edits (change, add, delete), update, verify; every step is also run through the model from the real directory state; '
         'non-trivial = repository / directory',
         'Theorems in Properties/C20.v (the script line format is gemato\'s own for portable names; reader round trip); the scripts are not modelled: their output is judged by '
         'gemato verify, by an independent exactness oracle and by the model as reference verifier and updater.',
         ORACLE + ['the scripts are run with the interpreter of the harness; multiprocessing.Pool works in the sandbox'])

# ---- MANIFEST metadata per claimed property ------------------------------------------------
NOT_APPLICABLE = {}
META = {
 'C08': dict(engine='coq+text', design_ref='DESIGN.md section 5 C08',
   technique='Coq theorems (induction over paths/entry lists; finite-table lemmas by vm_compute) + differential model/implementation runs',
   level_text='Proved in Coq for all inputs (no size bound): path escape round trip, one-field/one-line shape, int(str(n)), '
              'strptime(strftime(ts)) over all valid datetimes, per-entry and whole-file load(dump(es)) = es for every list of well-formed '
              'entries; every entry the parser returns for a Python str is well-formed (C08_parsed_wf), hence the canonical fixed point without any premise on the parsed entries (C08_fixpoint): the rewritten text is accepted with equal entries and writing those gives the same text. '
              'The model is tied to /repo by regenerated tables (regexes, encode_char, tag table) and by exhaustive/random correspondence.',
   level_note='Theorems are about the hand-written model Model/{Entry,Text}.v; Python builtins modelled in Py/; compression codecs and UTF-8 '
              'are exercised on the implementation only (round trip through real files); Print Assumptions: closed under the global context.'),
 'C04': dict(engine='coq+text+pgp', design_ref='DESIGN.md section 5 C04',
   technique='Coq invariant proof over the cleartext state machine + spec checker c04_b evaluated on implementation output + real-gpg differential',
   level_text='Proved in Coq for every text (any number of lines): if loading with verification reaches verify_file, the text handed over is exactly '
              'the BEGIN..END slice of the unique framework, only blank lines surround it, and the entries are exactly those of the dash-unescaped body '
              '(C04_signed_text, against the declarative spec Spec/Cleartext.v); a BEGIN line is never ignored; failures are syntax/unsigned errors; '
              'the verify flag does not change the entries; once the lines read end a complete signed block the first non-blank line that follows makes the load fail as unsigned data '
              '(as a syntax error when it looks like armor), and a signed block that begins after entries is unsigned data (C04_content_after_signed_block, '
              'C04_signed_block_after_content; the same relation is judged on the implementation for every generated text). '
              'The clause about gpg-authenticated cleartext is carried by the real-gpg differential run.',
   level_note='About the model (Model/Text.v load); tie: exhaustive line-class sequences and gpg-signed mutations run through both; '
              'GnuPG behaviour (what it authenticates) is an oracle, exercised with gpg 2.2 on every run.'),
 'C05': dict(engine='coq+pgp', design_ref='DESIGN.md section 5 C05',
   technique='Coq proof of the acceptance rule against a gpg-vocabulary spec + spec evaluated on mocked and real gpg status output',
   level_text='Proved in Coq for status reports of any length and order (VALIDSIG lines of gpg shape): verify_file returns signature data iff exit status 0, '
              'GOODSIG, VALIDSIG, validity in {marginal, fully, ultimate}, no EXPKEYSIG/REVKEYSIG; otherwise exactly the specified failure; the accepted '
              'words in the source are gpg\'s; monotonicity; the signed flag implies verify_file succeeded on the extracted text; the isolated '
              'environment always overrides GNUPGHOME. Byte-mutation detection and keyring non-interference are GnuPG behaviour, exercised with real gpg.',
   level_note='About the model Model/OpenPGP.v over generated status_prefixes / trust_accepted; tie: mocked-Popen transcripts and real gpg 2.2 runs. '
              'The CLI -s/-P/-K clauses are checked on the implementation (argparse and the loader construction are not modelled yet).'),
 'C17': dict(engine='coq+hash', design_ref='DESIGN.md section 5 C17',
   technique='Coq proof over an abstract streaming hash object (induction on the read schedule) + differential runs against hashlib/coreutils',
   level_text='Proved in Coq for any streaming hash library, any names, any schedule of non-empty chunks and any size hint: every requested name gets the '
              'digest of the whole content and __size__ the byte count (C17_digest; also instantiated without premises for the executable table-backed '
              'instance); unsupported names raise UnsupportedHash; the Manifest-name table equals the GLEP 74 mapping; unknown Manifest names are reported. '
              '"Equals the standard digest" is carried by the hashlib/coreutils comparison.',
   level_note='About Model/Hash.v over generated HASH_BUFFER_SIZE/MAX_SLURP_SIZE/manifest_hash_mapping; hashlib is an oracle with the streaming law as an explicit premise.'),
 'C15': dict(engine='coq+top', design_ref='DESIGN.md section 5 C15',
   technique='Coq proof by induction over the ancestor chain against a declarative spec + differential runs on real directory chains with tmpfs device boundaries',
   level_text='Proved in Coq for ancestor chains of any length: the result of discovery is the Manifest of the outermost level reachable without passing a '
              'Manifest that IGNOREs the start path by whole components or lies on another device (C15_outermost, against Spec/FindTop.v); compressed names are '
              'only tried when allowed; path_starts_with is component-wise (theorem about the translated util.py); read off the specification: in one-file-system mode the returned Manifest - directory and file - and every level passed on the way lie on the device of the start directory (C15_no_manifest_on_another_device).',
   level_note='About Model/FindTop.v over the translated util.path_starts_with and generated name tables; start paths are assumed canonical (relpath is lexical); '
              'error levels (unreadable Manifests) are covered by correspondence only.'),
 'C01': dict(engine='coq+tree', design_ref='DESIGN.md section 5 C01',
   technique='Coq proofs about the per-file decision and the aggregation + differential runs of whole-tree verification on realised inode graphs',
   level_text='Proved in Coq for all inputs: a file entry verifies only if the object is a regular file of matching size whose content has every listed checksum '
              '(or is not newer than last_mtime with unchanged size); a stray object is a mismatch; IGNORE verifies; IGNORE matching is component-wise; the '
              'directory verdict is the conjunction of all per-path verdicts; for one directory exactly which objects are presented (C01_directory_is_its_items, C01_items_exactly: every visible listed file once, with its entry or none; '
              'sub-directories with entries; every entry not met as a missing file); two entries for one path are compatible iff tags agree, sizes are equal and every hash carried by both has one value - a conflicting common hash is never forgiven (C01_duplicates_compatible_iff, C01_conflict_not_forgiven). The composition over the whole tree (Proofs/WalkComplete.v): every entry of the merged entry dictionary - visited directory or not, below an IGNOREd directory or not - is checked by verify_path against the object at its path, and every visible file of every directory reached from the start through sub-directories that are not hidden and have no entry is checked with an entry recorded for its path or as a stray file; a failing check is raised or handed to the handler, so a verification that reports nothing means all of them matched (C01_every_entry_is_checked, C01_every_found_file_is_checked, C01_silent_verification_means_match, C01_default_handler_success). The merged dictionary drops nothing: every entry other than DIST / TIMESTAMP of every loaded Manifest relevant for the directory whose path lies beneath it is represented by an entry with the same size and every one of its checksums, so every such Manifest entry is checked (C01_entry_dictionary_drops_nothing, C01_every_manifest_entry_is_checked; Proofs/EntryDict.v). A found file is checked against exactly the entry the merged dictionary records for its path, as a stray file only when it records none (C01_found_file_is_checked_against_its_entry, Proofs/Exact.v: a directory visit removes only the dictionaries of that directory and of directories below it, no relative path is visited twice - for trees with unique, non-empty, slash-free names). Which Manifests are loaded is the subject of C02.',
   level_note='About Model/{FS,Verify,Loader}.v; filesystem, hashlib and codecs are oracles; the model is the reference for verdict disagreements.'),
 'C02': dict(engine='coq+tree', design_ref='DESIGN.md section 5 C02',
   technique='Coq invariant proof over Manifest loading rounds + differential tamper matrix on realised trees',
   level_text='Proved in Coq for any nesting depth and any number of loading rounds: every loaded Manifest other than the top-level one is named by a MANIFEST entry '
              'of the file of a loaded Manifest and its stored bytes matched that entry (size + every listed checksum) before it was parsed; a non-matching '
              'sub-Manifest is never loaded. Any history of reading operations on one loader object (entry lookup, single-path verification, assert_path_verifies, DIST and TIMESTAMP lookup, '
              'directory verification with any handler) keeps that invariant, and the entry a lookup answers with belongs to a Manifest that is loaded, hence top-level or vouched for, at that moment '
              '(C02_reading_keeps_chain, C02_lookup_answers_from_accepted, C02_dist_lookup_answers_from_accepted; Proofs/ChainOps.v). The update side loads without verification by design (verify=False) and is outside C02.',
   level_note='About Model/Loader.v; "always detected" means: differs in size or a listed digest (no hash assumption).'),
 'C06': dict(engine='coq+tree', design_ref='DESIGN.md section 5 C06',
   technique='Coq proofs of per-primitive error propagation + fault injection into the real os calls compared with the model',
   level_text='Proved in Coq: every failure of open / fstat / read on a listed or stray object is the result of verify_path (never success, never "absent"; '
              'only ENOENT means absent, only ENXIO/EOPNOTSUPP mean "exists, not opened"); the same for update_entry_for_path. Through the whole directory verification: when it returns, with any handler, '
              'every directory the walk reaches was listed and inspected without error and the per-object check of every found file and of every entry of the merged dictionary returned an answer, not an error '
              '(C06_walk_hides_no_error), so a found file that cannot be opened makes the verification end with that error (C06_unreadable_found_file_fails_the_walk; Proofs/WalkComplete.v). The update: when update_entries_for_directory returns, every directory its walk reached was listed and inspected without error, '
              'the first listing error ends the walk with that error (C06_update_lists_every_directory, C06_update_listing_error; Proofs/UpdListed.v), and the operation cannot write (its result is a loader, not a file system). PARTIAL: propagation through '
              'Manifest loading is the error monad of the model, validated by persistent and transient fault injection; "update has written nothing" is also checked on the real file system (C10, and the snapshot comparison of the fault engines).',
   level_note='Faults are persistent per (primitive, inode); transient faults are not modelled.'),
 'C07': dict(engine='coq+tree', design_ref='DESIGN.md section 5 C07',
   technique='Coq induction over the walk (log only grows, result is the conjunction of all verdicts) + complete call-log comparison',
   level_text='Proved in Coq for trees of any size: the result of keep-going verification is False iff some handler invocation of the whole scan (including the trailing '
              'missing-directory pass) returned False; no invocation is dropped or short-circuited; within one directory the handler is invoked exactly for the items that do not verify, once each, in order '
              '(C07_directory_log); over the whole tree every invocation is justified by a failed check of that very path with exactly the differences handed over (C07_only_offending_reported: "for no other path"). '
              'Conversely every entry of the merged entry dictionary and every file found by the walk whose check fails is handed to the handler, whichever directory it belongs to (C07_every_offending_path_reported, Proofs/WalkComplete.v). '
              'No path is handed to the handler twice - the relative paths of different directory visits never coincide, the trailing pass reports entries of directories that were not visited - for any requested path, the whole tree included, on a tree whose '
              'directory listings have unique, non-empty, slash-free names and a loader whose Manifests name relative paths, which loading preserves (C07_each_path_reported_at_most_once, C07_loader_names_relative_paths; Proofs/Once.v, Proofs/DictWf.v, '
              'Proofs/Relative.v: string lemmas about os.path.join / dirname / basename, the merged dictionary has unique directory keys and unique slash-free names per directory). The complete ordered call log is also compared on generated trees (model vs /repo).',
   level_note='About Model/Loader.v walk_verify/verify_dir; the lazy-all() defect D1 was repaired in /repo (fix commit) and the model has no laziness.'),
 'C16': dict(engine='coq+tree', design_ref='DESIGN.md section 5 C16',
   technique='Coq termination proof of the walk over arbitrary cyclic inode graphs (pigeonhole on recorded directory identities) + enumeration of small symlink graphs on a real filesystem under a watchdog',
   level_text='Proved in Coq for every finite inode graph (any directory symlinks, any cycles, any names without slashes): each of the three walks - verification, the scan for unregistered Manifests, update / create - never depends on its fuel once it is '
              'at least |directory identities|+2 - it terminates by loop detection or by exhausting the tree (C16_terminates, including the start-directory key quirk); a directory whose '
              'identity is recorded for an ancestor raises the symlink-loop error and a directory/file on another device raises the cross-device error, whatever the handler answers. '
              'Through the whole walk: a verification of any relative path (the top directory included) that returns has reached no directory whose identity is that of a directory passed on the way to it - a link back to an ancestor is never walked into and accepted (C16_no_loop_is_walked_into, Proofs/NoLoop.v, Proofs/NoLoopTop.v); '
              'the same for update / create: an update that returns has walked into no such directory, so no Manifest is created or rewritten through a link that leads back to an ancestor (C16_update_walks_into_no_loop, Proofs/NoLoopUpd.v); the scan for unregistered Manifests and the update walk raise the same loop / cross-device errors before anything in the directory is read or written (C16_update_walks_raise). '
              'Which links lead back to an ancestor (the kernel identity law) and "unless under an IGNOREd path" are compared on enumerated graphs (with an independent cycle oracle), for all three walks.',
   level_note='About Model/Loader.v walk_verify; termination of the real os.walk is covered by a 20 s watchdog per run; the kernel identity law (st_dev, st_ino) is assumed.'),
 'C03': dict(engine='coq+tree', design_ref='DESIGN.md section 5 C03',
   technique='Coq theorems about the entry refresh and the save step + differential update/save/re-verify runs with an independent exactness oracle',
   level_text='Proved in Coq for all inputs: an entry refreshed by the update carries the size and the digests computed from the present content for exactly the requested '
              'hash set, a vanished file is an error (C03_refresh_true_partial, C03_vanished_is_error); what the update writes for a file verifies - verify_path on the same file state with exactly that size and those '
              'checksums returns success whenever it returns, for any streaming hash library (C03_refresh_then_verify) - and is a fixed point of a further refresh (C03_refresh_fixed_point). PARTIAL: the whole-tree statement (exactly one entry per file, '
              'parents reference rewritten children with their true digests, a fresh verification succeeds, whatever the prior Manifest state) is decided on generated '
              'trees by running model and /repo and checking the result with an independent exactness oracle and a fresh verification.',
   level_note='About Model/{Verify,Update}.v; the executable update/save model is the reference for disagreements; known findings D8, D11, D12 (unrepaired defects) are matched structurally.'),
 'C10': dict(engine='coq+tree', design_ref='DESIGN.md section 5 C10',
   technique='Coq theorems (only the save operation returns a changed filesystem, for every operation sequence; frame lemmas for write/unlink) + content+mtime snapshots of real trees around every operation',
   level_text='Proved in Coq for every sequence of loader operations: every filesystem state seen before the first save equals the initial one (verification, lookups, update, '
              'set_timestamp, reload never write, whether they succeed or fail: C10_no_save_no_write); writing or unlinking a path leaves every other regular file untouched '
              '(C10_write_frame, C10_unlink_frame), and so does saving one Manifest, existing or new (C10_save_manifest_frame); the whole save step (refresh, recompression, rename, unlink) changes only regular files that a '
              'Manifest path of the loader - as is, with the format suffix appended or cut - named at the beginning (C10_save_writes_manifest_paths_only); a refreshed entry keeps its tag, path and aux name; the single-path API update_entry_for_path keeps the DIST and TIMESTAMP entries of every loaded Manifest, same entries in the same order (C10_single_path_keeps_dist_timestamp) and leaves every entry that is not a file entry for that very path untouched, adding at most one (C10_single_path_frame), and so does update_entries_for_directory under the default profile, for any prior state, for every loader the library can build (C10_directory_update_keeps_dist_timestamp, C10_loader_wellformed). PARTIAL: for the ebuild profiles, and for IGNORE / out-of-scope entries, the preservation of '
              'DIST/IGNORE/TIMESTAMP and out-of-scope entries through the whole update are checked on generated trees (content+mtime listings, independent Manifest parser).',
   level_note='About Exec/Tree.v run_op over Model/Update.v; the model does not expose partially completed saves (a failing save is compared up to its error only).'),
 'C12': dict(engine='coq+tree', design_ref='DESIGN.md section 5 C12',
   technique='Coq theorems (save with an empty queue is the identity; sorted() over a strict weak order is canonical and idempotent) + repeated and order-permuted update runs on real trees',
   level_text='Proved in Coq for all inputs: a save with nothing queued and no force returns the same filesystem and loader state (C12_nothing_queued_nothing_written); the sorted dump of '
              'any two arrangements of the same entries is identical, and sorting twice equals sorting once, for entries ordered by (tag, path | timestamp) with pairwise distinct keys '
              '(C12_sorted_dump_canonical, C12_sorted_text_canonical, C12_sorted_dump_idempotent), likewise the checksum-name order; a refreshed entry is a fixed point of the refresh (C12_refresh_idempotent). PARTIAL: that a second update queues nothing and that the written entry set is '
              'independent of the enumeration order is decided on generated trees (queue + st_mtime_ns of every file; paired runs with permuted scandir order and permuted old Manifests).',
   level_note='About Model/Update.v save_manifests and Py/PyStr.v py_sorted (= save_manifest\'s sort); the deterministic gzip header is exercised on the implementation (compressed bytes are an oracle).'),
 'C13': dict(engine='coq+tree', design_ref='DESIGN.md section 5 C13',
   technique='Coq theorems (transparent read under the codec law; compression policy of every profile regenerated from profile.py) + cross-layout differential runs and watermark boundary runs',
   level_text='Proved in Coq for all inputs: reading a compressed Manifest yields the entries of the decompressed text, independent of the storage format (C13_read_transparent); every profile '
              'compresses iff watermark <= uncompressed size, never the file named Manifest, old-ebuild never a Manifest with EBUILD entries (C13_policy_*, C13_top_level_never; about the '
              'translation of gemato/profile.py made on this run). PARTIAL: identical verification/lookup results across whole layouts and the post-save clauses (one file per logical Manifest, '
              'parents reference the new name, tree verifies) are decided on generated trees with watermarks at size-1/size/size+1.',
   level_note='About Model/Loader.v read_manifest and Gen/Profile.v; codecs are oracles (decompress(compress(x)) = x is a premise of the theorem and exercised on real files).'),
 'C11': dict(engine='coq+tree+cli', design_ref='DESIGN.md section 5 C11',
   technique='Coq theorems about the per-entry skip rule + CLI-level differential histories (incremental vs full replica, five time zones, controlled clock and mtimes, mid-scan modification) + model runs from the real pre-states',
   level_text='Proved in Coq for all inputs: with a last-update time, refreshing an entry is exactly the full refresh unless the object is a regular file that is not newer, not empty and of the recorded '
              'size (C11_incremental_cases); so a file modified after the TIMESTAMP or with a changed size is re-hashed (C11_newer_is_full, C11_size_changed_is_full) and skipping an entry the full '
              'update would leave unchanged yields the full result (C11_unchanged_is_full); the TIMESTAMP is converted as UTC from its six fields only. PARTIAL: the lift to whole histories, the '
              'time-zone independence of the real CLI and "TIMESTAMP = start of the scan" are decided by replayed histories on two replicas and by model runs from the same pre-states.',
   level_note='About Model/Verify.v update_entry_for_path and Py/PyTime.v utc_epoch; the CLI glue (cli.py:390-417) is modelled by the update_inc / touch_timestamp operations of Exec/Tree.v.'),
 'C14': dict(engine='coq+tree+pgp', design_ref='DESIGN.md section 5 C14',
   technique='Coq theorems about save_manifest with an arbitrary signer + differential runs with a deterministic stand-in signer + real gpg runs',
   level_text='Proved in Coq for every signer, loader state and Manifest: the signer is consulted only for the top-level Manifest and only if the sign option is on or (unset) the Manifest was loaded with a '
              'valid signature (C14_decision, C14_sub_manifest_never_signed, C14_plain_when_off); a signer failure is the result of the save (C14_signing_failure_is_error); on success the bytes stored are '
              'the signer\'s output for exactly the dump of the entries written (C14_signed_content). That this output verifies with the signing key is GnuPG behaviour, exercised with real gpg.',
   level_note='About Model/Update.v save_manifest; the signed flag of a loaded Manifest is covered by C04/C05; the truncation of the file before a failing signer runs is visible in the model (write_file first).'),
 'C18': dict(engine='coq+cli', design_ref='DESIGN.md section 5 C18',
   technique='Coq totality theorems (parser, entry compatibility, the whole reading side of the loader) + in-process CLI runs over the generators of C01/C03/C09 with the outcome class compared to the executable model',
   level_text='Proved in Coq for all inputs: every text is parsed or rejected with ManifestSyntaxError / ManifestUnsignedData, accepted entries are sane (C18_parser_total, C18_accepted_entries_sane); '
              'the compatibility check of two entries for one path is total on parser-shaped entries, duplicate IGNORE included (C18_compatibility_total); no reading operation - constructing the '
              'loader, loading the Manifest chain, entry lookups, single-path and directory verification with any failure handler and last_mtime, in any order on one loader object - ends with an '
              'internal error for any tree, fault placement, Manifest texts, hash library, decompressor and OpenPGP environment, except the ValueError / UnicodeError of a path holding NUL or a lone '
              'surrogate (findings D23, D13) or of Manifest bytes that are not UTF-8 (C18_reading_never_internal, C18_single_file_check_never_internal; Proofs/ReadSafe.v, 800 lines). PARTIAL: the '
              'model keeps internal-error results to mirror the code; for update / save / create that none but the listed findings (D8, D11, D12, D21, D25) is reachable is decided by CLI runs '
              'whose outcome class (exit status or escaping exception) is compared with the model.',
   level_note='About Model/{Text,Entry,Verify}.v; cli.py:602-634 (exception to exit status) is exercised, not modelled; zlib.error/EOFError from damaged compressed Manifests are reported as an observation (not UTF-8 text).'),
 'C19': dict(engine='coq+cli', design_ref='DESIGN.md section 5 C19',
   technique='Coq theorems about the translated profile policy on repository-shaped paths of arbitrary names + gemato create/update runs on generated repositories checked against an independent policy statement and the model',
   level_text='Proved in Coq about the policy functions as translated from gemato/profile.py on this run, for arbitrary slash-free names: a Manifest is wanted wherever metadata.xml lies, in every top-level '
              'directory with sub-directories, in eclass/licenses/metadata/profiles, in cat/pkg holding an ebuild, and not in cat/pkg/files; default IGNORE lists; option defaults (BLAKE2B+SHA512, sorted, '
              'watermark 128, gz) that never override explicit options; old-ebuild types cat/pkg/*.ebuild as EBUILD, metadata.xml as MISC, everything below files/ as AUX and never compresses a Manifest with '
              'EBUILD entries (C13_policy_old_ebuild). PARTIAL: that the loader applies the policy at the right places and that the output verifies is decided by the create/update runs.',
   level_note='About Gen/Profile.v (regenerated on every run, fail-closed); metadata/md5-cache rules and "ignore lists are empty elsewhere" are exercised by the runs only; finding D8 (old-ebuild AUX typing relative to a non-package Manifest) is listed.'),
 'C20': dict(engine='coq+scripts', design_ref='DESIGN.md section 5 C20',
   technique='Coq theorems tying the scripts\' line format to gemato\'s writer/reader for portable names + runs of the real scripts judged by gemato verify, an exactness oracle and the model (reference verifier and updater)',
   level_text='Proved in Coq for all portable paths, sizes and digests: the entry line the fast generator writes (DATA/MISC/EBUILD/MANIFEST, and AUX relative to files/) equals gemato\'s own '
              'line for the entry (C20_line_is_canonical, C20_aux_line_is_canonical), which the reader parses back to that entry (C20_reader_roundtrip = C08). PARTIAL: the scripts are Python outside '
              'the package and are not modelled; that their Manifest trees verify, cover every file exactly once, are left unchanged by `gemato update -p ebuild` and are repaired after edits is '
              'decided by running them on generated repositories (also through the model from the same directory states).',
   level_note='gen_fast_manifest.py on a directory without ebuilds writes only Manifest.gz, which the reference tools do not take for a top-level Manifest: such single-directory runs are counted, not judged.'),
 'C09': dict(engine='coq+text', design_ref='DESIGN.md section 5 C09',
   technique='Coq theorems (totality of the parser result type by induction over lines; per-class rejection lemmas) + differential runs',
   level_text='Proved in Coq for every text: load returns entries, ManifestSyntaxError or ManifestUnsignedData and nothing else; accepted entries '
              'have non-empty relative paths however escaped, non-negative sizes, slash-free DIST names, valid timestamps; wrong field counts, '
              'dangling checksum names, bad/out-of-range escapes, unknown tags are rejected; no non-blank line is skipped.',
   level_note='About the model; tied to /repo by generated tables and by correspondence on grammar/token/mutation/escape generators. '
              'int() and strptime() are modelled after CPython 3.12 and validated per run.'),
}
