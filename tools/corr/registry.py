from common import register

ORACLE = ['Python builtins (Py/*.v) are modelled, validated per run against CPython %s' % __import__('sys').version.split()[0]]

register('C08', 'p_text', 'c08',
         'exhaustive over all 0x110000 code points (encode/decode, model vs implementation, in four contexts); '
         'random entry lists (all tags, hostile paths, sizes to 10^30, 0-10 checksums) dumped/loaded by both; '
         'generated and mutated texts for the fixed point; five storage formats on disk. '
         'non-trivial = entry list containing a path that needs escaping, or an accepted non-canonical text',
         'Theorems in Properties/C08.v are about the model (Model/Entry.v, Model/Text.v over Gen/Tables.v); '
         'the correspondence compares model and implementation results case by case and re-checks the round-trip '
         'predicates on the implementation output.',
         ORACLE + ['UTF-8 encodable text (lone surrogates reachable through \\\\uD800 escapes are outside the file round trip)'])
register('C09', 'p_text', 'c09',
         'grammar lines with independently valid/invalid fields, exhaustive token sequences, mutated valid Manifests, '
         'every \\\\xHH, (sampled in quick tier) \\\\uHHHH and boundary/random \\\\UHHHHHHHH values; compared on (exception class | entries); '
         'non-trivial = distinct text',
         'Theorems in Properties/C09.v: totality of the parser result type and one rejection theorem per class; '
         'correspondence on generated texts; spec predicates evaluated on the implementation output.',
         ORACLE)


register('C04', 'p_pgp', 'c04',
         'exhaustive line-class sequences (10 classes, both final-newline settings, length <= 4 quick / 6 thorough), random longer '
         'sequences over 22 classes with CR/LF variants, and mutations (insert/delete/duplicate/move lines, whitespace, CRLF, dash-escapes, '
         'injected armor, concatenation) of Manifests genuinely signed with gpg; non-trivial = distinct text',
         'Theorems in Properties/C04.v (one invariant over the loader fold); Spec/Cleartext.v c04_b is evaluated by the extracted model on the '
         'implementation output (entries + text captured at verify_file); with real gpg the entries are compared with those of the cleartext gpg authenticates.',
         ORACLE + ['GnuPG: --decrypt outputs the authenticated cleartext (dash-unescaped, trailing whitespace removed)'])

register('C05', 'p_pgp', 'c05',
         'bounded-exhaustive sequences of gpg status lines (16-word vocabulary from doc/DETAILS, length <= 3 quick / 4 thorough) x exit status, '
         'random longer sequences; the environment handed to gpg under five user environments x proxy; with real gpg: key states '
         '(valid, expired, revoked, other key, no key, subkey) x owner-trust 2..6, single-byte mutations of a signed Manifest, '
         '-K against three user keyrings (snapshot compared), -s/-P flag combinations; non-trivial = distinct (exit, status text) / gpg operation',
         'Theorems in Properties/C05.v against Spec/Accept.v (gpg vocabulary); accept_spec/failure_spec are evaluated by the extracted model on the '
         'status lines the implementation saw (mocked Popen) and on the status real gpg printed.',
         ORACLE + ['GnuPG: EXPKEYSIG/REVKEYSIG/GOODSIG/VALIDSIG/TRUST_* are printed as documented in doc/DETAILS; an isolated GNUPGHOME confines key lookup'])

register('C17', 'p_hash', 'c17',
         'contents of every length 0..300, 65534..65538, 1048574..1048578 and random longer ones x size hints {0, true, -1, +1, half, double, around 1 MiB} '
         'x read schedules (none, random cuts, every byte, cuts at the 64 KiB boundaries) served by a scheduled file object or a real BufferedReader over a '
         'short-read raw stream, x 1-4 hashlib names (+ __size__); reference = hashlib one-shot and coreutils; all ten Manifest names and unknown/unsupported '
         'names through get_file_metadata; non-trivial = distinct (length, cuts, hint)',
         'Theorems in Properties/C17.v; the executable model runs with a digest table computed by hashlib (never by gemato).',
         ORACLE + ['hashlib objects are streaming (update(a);update(b) = update(a+b)); validated per run for every available algorithm',
                   'hashlib one-shot and coreutils are the reference for "the standard digest"'])

register('C15', 'p_top', 'c15',
         'directory chains of depth 4 on a real filesystem: per level {absent, plain, gz, both} Manifest, IGNORE of the start path / an ancestor / a sibling / '
         'string-prefix look-alikes / trailing slash / deeper path / preceded by a DATA entry, every start depth, allow_xdev and allow_compressed on/off, '
         'a tmpfs mounted at any level (private mount namespace) as device boundary, Manifest as directory / garbage gzip / syntax error; '
         'non-trivial = distinct case',
         'Theorem C15_outermost ties the model to the declarative Spec/FindTop.v is_answer, which determines the result uniquely; '
         'a disagreement between implementation and model on a readable chain is therefore a violation of the specification.',
         ORACLE + ['kernel: st_dev identifies a filesystem; os.path.relpath is lexical (start paths are canonical)'])

# ---- MANIFEST metadata per claimed property ------------------------------------------------
NOT_APPLICABLE = {}
META = {
 'C08': dict(engine='coq+text', design_ref='DESIGN.md section 5 C08',
   technique='Coq theorems (induction over paths/entry lists; finite-table lemmas by vm_compute) + differential model/implementation runs',
   level_text='Proved in Coq for all inputs (no size bound): path escape round trip, one-field/one-line shape, int(str(n)), '
              'strptime(strftime(ts)) over all valid datetimes, per-entry and whole-file load(dump(es)) = es for every list of well-formed '
              'entries; the canonical fixed point is proved given well-formedness of the parsed entries (C08_fixpoint_partial). '
              'The model is tied to /repo by regenerated tables (regexes, encode_char, tag table) and by exhaustive/random correspondence.',
   level_note='Theorems are about the hand-written model Model/{Entry,Text}.v; Python builtins modelled in Py/; compression codecs and UTF-8 '
              'are exercised on the implementation only (round trip through real files); Print Assumptions: closed under the global context.'),
 'C04': dict(engine='coq+text+pgp', design_ref='DESIGN.md section 5 C04',
   technique='Coq invariant proof over the cleartext state machine + spec checker c04_b evaluated on implementation output + real-gpg differential',
   level_text='Proved in Coq for every text (any number of lines): if loading with verification reaches verify_file, the text handed over is exactly '
              'the BEGIN..END slice of the unique framework, only blank lines surround it, and the entries are exactly those of the dash-unescaped body '
              '(C04_signed_text, against the declarative spec Spec/Cleartext.v); a BEGIN line is never ignored; failures are syntax/unsigned errors; '
              'the verify flag does not change the entries. The clause about gpg-authenticated cleartext is carried by the real-gpg differential run.',
   level_note='About the model (Model/Text.v load); tie: exhaustive line-class sequences and gpg-signed mutations run through both; '
              'GnuPG behaviour (what it authenticates) is an oracle, exercised with gpg 2.2 on every run.'),
 'C05': dict(engine='coq+pgp', design_ref='DESIGN.md section 5 C05',
   technique='Coq proof of the acceptance rule against a gpg-vocabulary spec + spec evaluated on mocked and real gpg status output',
   level_text='Proved in Coq for status reports of any length and order (VALIDSIG lines of gpg shape): verify_file returns signature data iff exit status 0, '
              'GOODSIG, VALIDSIG, validity in {marginal, fully, ultimate}, no EXPKEYSIG/REVKEYSIG; otherwise exactly the specified failure; the accepted '
              'words in the source are gpg\'s; monotonicity; the signed flag implies verify_file succeeded on the extracted text; the isolated '
              'environment always overrides GNUPGHOME. Byte-mutation detection and keyring non-interference are GnuPG behaviour, exercised with real gpg.',
   level_note='About the model Model/OpenPGP.v over generated status_prefixes / trust_accepted; tie: mocked-Popen transcripts and real gpg 2.2 runs. '
              'The CLI -s/-P/-K clauses are checked on the implementation (argparse and the loader construction are not modelled yet).'),
 'C17': dict(engine='coq+hash', design_ref='DESIGN.md section 5 C17',
   technique='Coq proof over an abstract streaming hash object (induction on the read schedule) + differential runs against hashlib/coreutils',
   level_text='Proved in Coq for any streaming hash library, any names, any schedule of non-empty chunks and any size hint: every requested name gets the '
              'digest of the whole content and __size__ the byte count (C17_digest; also instantiated without premises for the executable table-backed '
              'instance); unsupported names raise UnsupportedHash; the Manifest-name table equals the GLEP 74 mapping; unknown Manifest names are reported. '
              '"Equals the standard digest" is carried by the hashlib/coreutils comparison.',
   level_note='About Model/Hash.v over generated HASH_BUFFER_SIZE/MAX_SLURP_SIZE/manifest_hash_mapping; hashlib is an oracle with the streaming law as an explicit premise.'),
 'C15': dict(engine='coq+top', design_ref='DESIGN.md section 5 C15',
   technique='Coq proof by induction over the ancestor chain against a declarative spec + differential runs on real directory chains with tmpfs device boundaries',
   level_text='Proved in Coq for ancestor chains of any length: the result of discovery is the Manifest of the outermost level reachable without passing a '
              'Manifest that IGNOREs the start path by whole components or lies on another device (C15_outermost, against Spec/FindTop.v); compressed names are '
              'only tried when allowed; path_starts_with is component-wise (theorem about the translated util.py).',
   level_note='About Model/FindTop.v over the translated util.path_starts_with and generated name tables; start paths are assumed canonical (relpath is lexical); '
              'error levels (unreadable Manifests) are covered by correspondence only.'),
 'C09': dict(engine='coq+text', design_ref='DESIGN.md section 5 C09',
   technique='Coq theorems (totality of the parser result type by induction over lines; per-class rejection lemmas) + differential runs',
   level_text='Proved in Coq for every text: load returns entries, ManifestSyntaxError or ManifestUnsignedData and nothing else; accepted entries '
              'have non-empty relative paths however escaped, non-negative sizes, slash-free DIST names, valid timestamps; wrong field counts, '
              'dangling checksum names, bad/out-of-range escapes, unknown tags are rejected; no non-blank line is skipped.',
   level_note='About the model; tied to /repo by generated tables and by correspondence on grammar/token/mutation/escape generators. '
              'int() and strptime() are modelled after CPython 3.12 and validated per run.'),
}
