from common import register

ORACLE = ['Python builtins (Py/*.v) are modelled, validated per run against CPython %s' % __import__('sys').version.split()[0]]

register('C08', 'p_text', 'c08',
         'exhaustive over all 0x110000 code points (encode/decode, model vs implementation, in four contexts); '
         'random entry lists (all tags, hostile paths, sizes to 10^30, 0-10 checksums) dumped/loaded by both; '
         'generated and mutated texts for the fixed point; five storage formats on disk. '
         'non-trivial = entry list containing a path that needs escaping, or an accepted non-canonical text',
         'Theorems in Properties/C08.v are about the model (Model/Entry.v, Model/Text.v over Gen/Tables.v); '
         'the correspondence compares model and implementation results case by case and re-checks the round-trip '
         'predicates on the implementation output.',
         ORACLE + ['UTF-8 encodable text (lone surrogates reachable through \\\\uD800 escapes are outside the file round trip)'])
register('C09', 'p_text', 'c09',
         'grammar lines with independently valid/invalid fields, exhaustive token sequences, mutated valid Manifests, '
         'every \\\\xHH, (sampled in quick tier) \\\\uHHHH and boundary/random \\\\UHHHHHHHH values; compared on (exception class | entries); '
         'non-trivial = distinct text',
         'Theorems in Properties/C09.v: totality of the parser result type and one rejection theorem per class; '
         'correspondence on generated texts; spec predicates evaluated on the implementation output.',
         ORACLE)
