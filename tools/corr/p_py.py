"""Unit correspondence of the Py/ prelude against CPython (exhaustive over small alphabets)."""
import itertools
import os
import posixpath

from sx import run_model


def py_units(ctx, quick=True):
    alpha = ['a', 'b', '/', '.']
    strs = ['']
    for n in range(1, 5 if quick else 6):
        strs += [''.join(t) for t in itertools.product(alpha, repeat=n)]
    reqs, want = [], []
    for s in strs:
        reqs += [['dirname', s], ['basename', s], ['splitext', s]]
        want += [posixpath.dirname(s), posixpath.basename(s), list(posixpath.splitext(s))]
    for s in ['Manifest.gz', 'a/Manifest.bz2', '.gz', 'a/.gz', '..gz', 'a.b/c', 'x.tar.gz', 'Manifest.', 'a/b.c/d.e.f', '...', 'a..b']:
        reqs.append(['splitext', s])
        want.append(list(posixpath.splitext(s)))
    pairs = [(a, b) for a in strs if len(a) <= 3 for b in strs if len(b) <= 3]
    for a, b in pairs:
        reqs.append(['pjoin', a, b])
        want.append(posixpath.join(a, b))
        reqs.append(['rstrip', a, '/'])
        want.append(a.rstrip('/'))
        reqs.append(['startswith', a, b])
        want.append(1 if a.startswith(b) else 0)
        reqs.append(['endswith', a, b])
        want.append(1 if a.endswith(b) else 0)
    rel = [s for s in strs if not s.startswith('/') and len(s) <= 4]
    cwd = os.getcwd()
    for a in rel:
        for b in rel:
            if len(a) + len(b) > 6:
                continue
            try:
                w = posixpath.relpath(a or '.', b or '.') if a else posixpath.relpath('.', b or '.')
            except ValueError:
                continue
            if a == '':
                continue
            # relpath is lexical when both climb no higher than the current directory
            na, nb = posixpath.normpath(a), posixpath.normpath(b or '.')
            if na.startswith('..') or nb.startswith('..'):
                continue
            reqs.append(['relpath', a, b])
            want.append(w)
    # UTF-8
    for c in list(range(0, 0x800, 7)) + list(range(0xD7F0, 0xE010)) + [0xFFFF, 0x10000, 0x10FFFF, 0x7F, 0x80, 0x7FF, 0x800]:
        s = chr(c) + 'a'
        try:
            e = s.encode('utf8')
            reqs.append(['utf8_encode', s])
            want.append([e.decode('latin1')])
            reqs.append(['utf8_decode', e])
            want.append([s])
        except UnicodeEncodeError:
            reqs.append(['utf8_encode', s])
            want.append([])
    for b in [b'\x80', b'\xc0\x80', b'\xc1\xbf', b'\xe0\x80\x80', b'\xed\xa0\x80', b'\xf4\x90\x80\x80', b'\xf5\x80\x80\x80', b'\xe2\x82', b'a\xff']:
        reqs.append(['utf8_decode', b])
        want.append([])
    got = run_model(reqs, jobs=16)
    bad = 0
    for rq, g, w in zip(reqs, got, want):
        if g != w:
            bad += 1
            if bad <= 5:
                ctx.violation('correspondence', f'Py prelude: {rq[0]} differs from CPython',
                              {'where': 'py:' + rq[0], 'request': rq, 'model': g, 'cpython': w})
    ctx.count('py:prelude', len(reqs), len(reqs), samples=[{'request': reqs[7], 'cpython': want[7]}])
