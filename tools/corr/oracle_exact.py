"""Independent reading of 'the Manifest files on disk describe the directory exactly' (C03) and helpers that
parse Manifest files without gemato (used by C03, C10, C12, C13).  Nothing here imports gemato."""
import hashlib
import os
import re

import engine_tree as ET

HASHLIB_OF = {'MD5': 'md5', 'SHA1': 'sha1', 'SHA256': 'sha256', 'SHA512': 'sha512', 'RMD160': 'ripemd160',
              'BLAKE2B': 'blake2b', 'BLAKE2S': 'blake2s', 'SHA3_256': 'sha3_256', 'SHA3_512': 'sha3_512'}
FILE_TAGS = ('DATA', 'MISC', 'EBUILD', 'AUX', 'MANIFEST')
_ESC = re.compile(r'\\(x[0-9a-fA-F]{2}|u[0-9a-fA-F]{4}|U[0-9a-fA-F]{8})')


class BadEscape(Exception):
    pass


def unescape(p):
    def one(m):
        v = int(m.group(1)[1:], 16)
        if v > 0x10FFFF:
            raise BadEscape(p)
        return chr(v)
    return _ESC.sub(one, p)


def plain_bytes(name, data):
    """uncompressed bytes of a Manifest file, None if it cannot be decompressed"""
    fmt = ET.suffix_of(os.path.basename(name))
    if fmt:
        data = ET.decompress(fmt, data)
        if not isinstance(data, (bytes, bytearray)):
            return None
    return bytes(data)


def parse(name, data):
    """list of (tag, path | None, size | None, {hash: digest}, raw line) of a Manifest file; None if unreadable"""
    raw = plain_bytes(name, data)
    if raw is None:
        return None
    try:
        text = raw.decode('utf8')
    except UnicodeDecodeError:
        return None
    try:
        return parse_text(text)
    except BadEscape:
        return None


def parse_text(text):
    out = []
    for line in text.split('\n'):
        f = line.split()
        if not f:
            continue
        tag = f[0]
        if tag in FILE_TAGS or tag == 'DIST':
            if len(f) < 3 or len(f) % 2 == 0:
                return None
            try:
                size = int(f[2])
            except ValueError:
                return None
            path = unescape(f[1])
            if tag == 'AUX':
                path = 'files/' + path
            out.append((tag, path, size, dict(zip(f[3::2], f[4::2])), line))
        elif tag == 'IGNORE':
            if len(f) != 2:
                return None
            out.append((tag, unescape(f[1]), None, {}, line))
        elif tag == 'TIMESTAMP':
            out.append((tag, None, None, {}, line))
        else:
            return None
    return out


def digest(hname, data):
    return hashlib.new(HASHLIB_OF[hname], data).hexdigest()


def norm(d, p):
    return os.path.normpath(os.path.join(d, p)) if d else os.path.normpath(p)


def under(p, d):
    return d == '' or p == d or p.startswith(d + '/')


def relevant(m, upath):
    """a Manifest whose directory lies above or below the updated directory"""
    d = os.path.dirname(m)
    return under(upath, d) or under(d, upath)


def in_use(files, top='Manifest', upath=''):
    """Manifest files reachable from the top-level one through MANIFEST entries: {path: parsed entries},
    and the list of (referencing Manifest, entry, target) references"""
    used = {}
    refs = []
    todo = [top]
    while todo:
        m = todo.pop()
        if m in used or m not in files:
            continue
        ents = parse(m, files[m])
        used[m] = ents
        if ents is None:
            continue
        d = os.path.dirname(m)
        for e in ents:
            if e[0] == 'MANIFEST':
                tgt = norm(d, e[1])
                if relevant(tgt, upath):
                    refs.append((m, e, tgt))
                    todo.append(tgt)
    return used, refs


def hidden(p):
    return any(c.startswith('.') for c in p.split('/'))


def exactness(files, hashes, upath, top='Manifest'):
    """problems (strings) that contradict 'the Manifests on disk describe directory upath exactly'.
    files: {relative path: bytes} of every regular file (symlinks to files included)"""
    problems = []
    used, refs = in_use(files, top, upath)
    for m, ents in used.items():
        if ents is None:
            problems.append(f'unreadable-manifest:{m}')
    entries = []       # (manifest, tag, full path, size, cks)
    ignores = []
    for m, ents in used.items():
        d = os.path.dirname(m)
        for e in ents or ():
            if e[0] in FILE_TAGS:
                entries.append((m, e[0], norm(d, e[1]), e[2], e[3]))
            elif e[0] == 'IGNORE':
                ignores.append(norm(d, e[1]))

    def ignored(p):
        return any(under(p, i) for i in ignores)
    # every Manifest in use is referenced from its parent with true size and digests
    for m, e, tgt in refs:
        if tgt not in files:
            if under(tgt, upath):
                problems.append(f'manifest-entry-dangling:{m}->{tgt}')
            continue
        data = files[tgt]
        if e[2] != len(data) or any(h in HASHLIB_OF and digest(h, data) != v for h, v in e[3].items()):
            problems.append(f'manifest-entry-stale:{m}->{tgt}')
    want = set(hashes)
    for f, data in sorted(files.items()):
        if f == top or not under(f, upath) or hidden(f) or ignored(f):
            continue
        cov = [e for e in entries if e[2] == f]
        if len(cov) != 1:
            problems.append(f'coverage:{len(cov)}:{f}')
            continue
        m, tag, _, size, cks = cov[0]
        if size != len(data):
            problems.append(f'size:{f}')
        if set(cks) != want:
            problems.append(f'hashset:{f}:{",".join(sorted(cks))}')
        for h, v in cks.items():
            if h in HASHLIB_OF and digest(h, data) != v:
                problems.append(f'digest:{h}:{f}')
    for m, tag, p, size, cks in entries:
        if under(p, upath) and p not in files and not ignored(p):
            problems.append(f'vanished:{tag}:{p}')
    return problems
