"""Engine `tree`: abstract inode graphs + Manifests + operation sequences, realised on a scratch
filesystem for the implementation and sent as terms to the executable model."""
import bz2
import errno
import gzip
import hashlib
import lzma
import os
import shutil
import stat
import tempfile

import impl
from sx import run_model

HASHLIB = {'MD5': 'md5', 'SHA1': 'sha1', 'SHA256': 'sha256', 'SHA512': 'sha512', 'RMD160': 'ripemd160',
           'WHIRLPOOL': 'whirlpool', 'BLAKE2B': 'blake2b', 'BLAKE2S': 'blake2s', 'SHA3_256': 'sha3_256',
           'SHA3_512': 'sha3_512'}
AVAIL = sorted(n for n in hashlib.algorithms_available if not n.startswith('shake_'))
GOOD_HASHES = [h for h, l in HASHLIB.items() if l in hashlib.algorithms_available]
ERRNO_NAMES = {v: k for k, v in impl.ERRNO_NAMES.items()}
SHM = '/dev/shm'


def compress(fmt, data, flush=False):
    if fmt == 'gz':
        import io
        b = io.BytesIO()
        with gzip.GzipFile(fileobj=b, mode='wb', filename='', mtime=0) as f:
            f.write(data)
            if flush:
                f.flush()          # save_manifest() flushes before asking for the size: a sync-flush block is emitted
        return b.getvalue()
    if fmt == 'bz2':
        return bz2.compress(data)
    if fmt == 'lzma':
        return lzma.compress(data, format=lzma.FORMAT_ALONE)
    if fmt == 'xz':
        return lzma.compress(data, format=lzma.FORMAT_XZ)
    raise ValueError(fmt)


def decompress(fmt, data):
    """plain bytes, or 0 for invalid data (swallowed by the unregistered-Manifest scan), or 1 for a damaged stream"""
    import zlib
    try:
        if fmt == 'gz':
            return gzip.decompress(data)
        if fmt == 'bz2':
            return bz2.decompress(data)
        if fmt == 'lzma':
            return lzma.decompress(data, format=lzma.FORMAT_ALONE)
        if fmt == 'xz':
            return lzma.decompress(data, format=lzma.FORMAT_XZ)
    except (zlib.error, EOFError):
        return 1
    except Exception:
        return 0
    return 0


def suffix_of(name):
    for s in ('gz', 'bz2', 'lzma', 'xz'):
        if name.endswith('.' + s) and len(name) > len(s) + 1 and not os.path.basename(name)[:-len(s) - 1].strip('.') == '':
            return s
    return None


class Tree:
    """abstract filesystem: inode graph"""
    def __init__(self):
        self.nodes = {}
        self.next = 1
        self.root = self.mkdir(None, 1)

    def new(self, n):
        i = self.next
        self.next += 1
        self.nodes[i] = n
        return i

    def mkdir(self, parent, dev=None):
        i = self.next
        pd = self.nodes[parent]['dev'] if parent is not None else 1
        return self.new({'k': 'd', 'dev': dev if dev is not None else pd, 'parent': parent if parent is not None else i, 'ents': []})

    def mkfile(self, dev, data, mtime=1500000000):
        return self.new({'k': 'f', 'dev': dev, 'mtime': mtime, 'size': len(data), 'data': data})

    def link(self, d, name, target):
        self.nodes[d]['ents'] = [e for e in self.nodes[d]['ents'] if e[0] != name] + [(name, target)]

    def unlink(self, d, name):
        self.nodes[d]['ents'] = [e for e in self.nodes[d]['ents'] if e[0] != name]

    def lookup(self, path):
        cur = self.root
        for c in [x for x in path.split('/') if x]:
            n = self.nodes[cur]
            if n['k'] != 'd':
                return None
            t = dict(n['ents']).get(c)
            if not isinstance(t, int):
                return None
            cur = t
        return cur

    def add_dir(self, path, dev=None):
        d, name = os.path.split(path)
        p = self.lookup(d)
        i = self.mkdir(p, dev)
        self.link(p, name, i)
        return i

    def add_file(self, path, data, mtime=1500000000):
        d, name = os.path.split(path)
        p = self.lookup(d)
        i = self.mkfile(self.nodes[p]['dev'], data, mtime)
        self.link(p, name, i)
        return i

    def files(self):
        """(path, ino) of every regular file reachable through physical (parent) edges"""
        out = []
        seen = {self.root}

        def rec(i, prefix):
            for name, t in self.nodes[i]['ents']:
                if not isinstance(t, int):
                    continue
                n = self.nodes[t]
                p = prefix + name
                if n['k'] == 'd':
                    if n['parent'] == i and t not in seen:
                        seen.add(t)
                        rec(t, p + '/')
                elif n['k'] == 'f':
                    out.append((p, t))
        rec(self.root, '')
        return out

    def link_paths(self):
        """relative paths that are directory symlinks under the realisation rule (first edge met is the directory)"""
        seen = {self.root}
        links = set()

        def rec(i, prefix):
            for name, t in self.nodes[i]['ents']:
                if not isinstance(t, int) or self.nodes[t]['k'] != 'd':
                    continue
                n = self.nodes[t]
                if t in seen or (n['parent'] != i and n['dev'] == self.nodes[i]['dev']):
                    links.add(prefix + name)
                    continue
                seen.add(t)
                if n['dev'] != self.nodes[i]['dev']:
                    links.add(prefix + name)
                    continue
                rec(t, prefix + name + '/')
        rec(self.root, '')
        return links

    def clone(self):
        import copy
        t = Tree.__new__(Tree)
        t.nodes = copy.deepcopy(self.nodes)
        t.next = self.next
        t.root = self.root
        if hasattr(self, 'hardlinks'):
            t.hardlinks = self.hardlinks
        return t

    # ---- model term ----
    def to_sx(self, faults=(), order=None):
        nodes = []
        for i, n in self.nodes.items():
            if n['k'] == 'd':
                ents = n['ents']
                if order is not None:
                    ents = sorted(ents, key=lambda e: order(e[0]))
                nodes.append([i, 'd', n['dev'], n['parent'],
                              [[nm, (t if isinstance(t, int) else ['e', t[1]])] for nm, t in ents]])
            elif n['k'] == 'f':
                nodes.append([i, 'f', n['dev'], n['mtime'], n['size'], n['data']])
            else:
                nodes.append([i, 's', n['dev'], n['kind'], 0])
        # what lies above the tree root: an empty directory (inode 0), so that '..' from the root finds nothing
        if 0 not in self.nodes:
            nodes = [[0, 'd', self.nodes[self.root]['dev'], 0, []]] + [
                ([n[0], 'd', n[2], 0, n[4]] if (n[0] == self.root and n[1] == 'd' and n[3] == self.root) else n) for n in nodes]
        return [self.root, nodes, [[p, i, e] for p, i, e in faults], AVAIL]

    # ---- realisation ----
    def realise(self, base, shm_base=None):
        """create the tree under base (device 1) / shm_base (device 2); returns {ino: real path}"""
        paths = {}
        os.makedirs(base, exist_ok=True)
        paths[self.root] = base
        pending_links = []
        shm_count = [0]

        def rec(i, real):
            for name, t in self.nodes[i]['ents']:
                p = os.path.join(real, name)
                if not isinstance(t, int):
                    if t[1] == 'ELOOP':
                        os.symlink(name, p)
                    else:
                        os.symlink('/nonexistent-' + 'x' * 8, p)
                    continue
                n = self.nodes[t]
                if t in paths or (n['k'] == 'd' and n['parent'] != i and n['dev'] == self.nodes[i]['dev']):
                    pending_links.append((p, t))
                    continue
                if n['k'] == 'd':
                    if n['dev'] != self.nodes[i]['dev']:
                        if shm_base is None:
                            raise RuntimeError('no second device available')
                        # a directory on the other device: lives under shm_base, linked in
                        shm_count[0] += 1
                        realdir = os.path.join(shm_base, f'x{shm_count[0]}', name)
                        os.makedirs(realdir)
                        paths[t] = realdir
                        os.symlink(realdir, p)
                        rec(t, realdir)
                    else:
                        os.mkdir(p)
                        paths[t] = p
                        rec(t, p)
                elif n['k'] == 'f':
                    q = p
                    if n.get('dev', self.nodes[i]['dev']) != self.nodes[i]['dev'] and self.nodes[i]['dev'] == 1 and shm_base is not None:
                        # a file on the other device inside a directory of this one: lives under shm_base, linked in (a file symlink)
                        shm_count[0] += 1
                        os.makedirs(os.path.join(shm_base, f'x{shm_count[0]}'))
                        q = os.path.join(shm_base, f'x{shm_count[0]}', name)
                        os.symlink(q, p)
                    with open(q, 'wb') as f:
                        f.write(n['data'])
                    os.utime(q, ns=(int(round(n['mtime'] * 10**9)), int(round(n['mtime'] * 10**9))))
                    paths[t] = p
                else:
                    if n['kind'] == 'fifo':
                        os.mkfifo(p)
                    else:
                        import socket
                        s = socket.socket(socket.AF_UNIX)
                        s.bind(p)
                        s.close()
                    paths[t] = p
        rec(self.root, base)
        orphan = [0]
        while pending_links:
            p, t = pending_links.pop(0)
            if t not in paths:
                # a directory only reachable through a link: keep it outside the tree proper
                orphan[0] += 1
                real = os.path.join(os.path.dirname(base), os.path.basename(base) + '.orph', str(orphan[0]))
                os.makedirs(real)
                paths[t] = real
                rec(t, real)
            if getattr(self, 'hardlinks', False) and self.nodes[t]['k'] == 'f':
                # update/save cases: a second name of a file is a hard link, which is what the model's second
                # edge to the inode means also when one of the names is unlinked or renamed
                try:
                    os.link(paths[t], p)
                    continue
                except OSError:
                    pass
            os.symlink(paths[t], p)
        return paths


def digest_table(tree, hash_names):
    """(hashlib name, content, digest) for every regular file x every hashlib name that may be asked"""
    libs = sorted({HASHLIB[h] for h in hash_names if h in HASHLIB and HASHLIB[h] in hashlib.algorithms_available})
    seen = set()
    out = []
    for n in tree.nodes.values():
        if n['k'] == 'f' and n['data'] not in seen:
            seen.add(n['data'])
            for l in libs:
                out.append([l, n['data'], hashlib.new(l, n['data']).hexdigest()])
    return out


def codec_table(tree):
    out = []
    seen = set()
    for i, n in tree.nodes.items():
        if n['k'] != 'd':
            continue
        for name, t in n['ents']:
            if isinstance(t, int) and tree.nodes[t]['k'] == 'f':
                fmt = suffix_of(name)
                if fmt and (fmt, tree.nodes[t]['data']) not in seen:
                    seen.add((fmt, tree.nodes[t]['data']))
                    p = decompress(fmt, tree.nodes[t]['data'])
                    out.append(['d', fmt, tree.nodes[t]['data'], p])
    return out


def entry_line(tag, path, data, hashes):
    import gemato.manifest  # only for path escaping of generated names: uses the codec checked by C08
    ep = impl.encode_path(path)
    fields = [tag, ep, str(len(data))]
    for h in sorted(hashes):
        if h in HASHLIB and HASHLIB[h] in hashlib.algorithms_available:
            fields += [h, hashlib.new(HASHLIB[h], data).hexdigest()]
        else:
            fields += [h, '00']
    return ' '.join(fields)


# --------------------------------------------------------------------------- implementation run
class ScandirOrder:
    """patch os.scandir so that entries come in the order the model case fixes"""
    def __init__(self, key):
        self.key = key

    def __enter__(self):
        self.old = os.scandir
        key = self.key
        old = self.old

        class It:
            def __init__(self, path):
                with old(path) as it:
                    self.items = sorted(it, key=lambda e: key(e.name))
                self.pos = 0

            def __iter__(self):
                return self

            def __next__(self):
                if self.pos >= len(self.items):
                    raise StopIteration
                self.pos += 1
                return self.items[self.pos - 1]

            def __enter__(self):
                return self

            def __exit__(self, *a):
                pass

            def close(self):
                pass
        os.scandir = lambda path='.': It(path)
        return self

    def __exit__(self, *a):
        os.scandir = self.old


class FaultInjector:
    """persistent faults: (primitive, (st_dev, st_ino)) -> errno, injected by patching os.* in-process"""
    suspended = False       # the harness's own observations (file listings) are not subject to the faults
    fired = 0               # number of faults raised during the last run
    def __init__(self, faults):
        self.faults = {(p, ident): en for p, ident, en in faults}

    def __enter__(self):
        import builtins
        import io
        self.saved = (os.open, os.stat, os.fstat, os.scandir, builtins.open)
        o_open, o_stat, o_fstat, o_scandir, b_open = self.saved
        faults = self.faults

        def ident_of(path):
            try:
                st = o_stat(path)
                return (st.st_dev, st.st_ino)
            except OSError:
                return None

        counters = {}
        FaultInjector.fired = 0

        def hit(prim, ident, path):
            en = None if FaultInjector.suspended else faults.get((prim, ident))
            if isinstance(en, (tuple, list)):
                # a transient fault: only the n-th matching call fails
                en, nth = en
                counters[(prim, ident)] = counters.get((prim, ident), 0) + 1
                if counters[(prim, ident)] != nth:
                    en = None
            if en is not None:
                FaultInjector.fired += 1
                code = ERRNO_NAMES.get(en, errno.EIO)
                raise OSError(code, os.strerror(code), path if isinstance(path, str) else None)

        def f_open(path, flags, *a, **k):
            if faults:
                hit('open', ident_of(path), path)
            return o_open(path, flags, *a, **k)

        def f_stat(path, *a, **k):
            if faults and isinstance(path, (str, bytes)):
                hit('stat', ident_of(path), path)
            return o_stat(path, *a, **k)

        def f_fstat(fd):
            st = o_fstat(fd)
            hit('fstat', (st.st_dev, st.st_ino), None)
            return st

        def f_scandir(path='.'):
            hit('scandir', ident_of(path), path)
            return o_scandir(path)

        class ReadFault(io.RawIOBase):
            def __init__(self, raw, en):
                self.raw = raw
                self.en = en

            def readable(self):
                return True

            def fileno(self):
                return self.raw.fileno()

            def readinto(self, b):
                code = ERRNO_NAMES.get(self.en, errno.EIO)
                raise OSError(code, os.strerror(code))

            def close(self):
                self.raw.close()
                super().close()

        def f_bopen(file, mode='r', *a, **k):
            if FaultInjector.suspended:
                return b_open(file, mode, *a, **k)
            if isinstance(file, int):
                st = o_fstat(file)
                ident = (st.st_dev, st.st_ino)
            else:
                ident = ident_of(file)
                if 'r' in mode and ident is not None:
                    en = faults.get(('open', ident)) or faults.get(('mopen', ident))
                    if en is not None:
                        code = ERRNO_NAMES.get(en, errno.EIO)
                        raise OSError(code, os.strerror(code), file)
            en = faults.get(('read', ident))
            if en is not None and 'r' in mode and 'w' not in mode:
                raw = io.FileIO(file, 'r', closefd=True) if not isinstance(file, int) else io.FileIO(file, 'r')
                buf = io.BufferedReader(ReadFault(raw, en))
                if 'b' in mode:
                    return buf
                return io.TextIOWrapper(buf, encoding=k.get('encoding'))
            return b_open(file, mode, *a, **k)
        os.open, os.stat, os.fstat, os.scandir = f_open, f_stat, f_fstat, f_scandir
        builtins.open = f_bopen
        return self

    def __exit__(self, *a):
        import builtins
        os.open, os.stat, os.fstat, os.scandir, builtins.open = self.saved


def canon_exc(e, base, paths_extra=()):
    """exception -> model vocabulary; system paths are rewritten to R/..."""
    x = impl.exc_sx(e)

    def fix(p):
        p = str(p)
        if p == base:
            return 'R'
        if p == base + '/':
            return 'R/'
        if p.startswith(base + '/'):
            return 'R/' + p[len(base) + 1:]
        return p
    if x[1][0] in ('ManifestCrossDevice', 'ManifestSymlinkLoop'):
        x[1][1] = fix(e.path)
    elif x[1][0] == 'ManifestInvalidPath':
        x[1][1] = fix(e.path)
    return x


POLICIES = {0: None, 1: lambda e: False, 2: lambda e: True, 3: lambda e: None,
            4: lambda e: (len(e.path) % 2 == 0)}


class FakePGP:
    """deterministic stand-in for gpg, the same function as Exec/Tree.v fake_pgp_sign / fake_pgp_verify"""
    def verify_file(self, f):
        import gemato.exceptions as ge
        import gemato.openpgp as go
        t = f.read()
        if '\nFAKESIG ' in t:
            return go.OpenPGPSignatureData('FAKE', None, None, 'FAKE')
        raise ge.OpenPGPVerificationFailure('fake: no FAKESIG')

    def clear_sign_file(self, f, outf, keyid=None):
        import gemato.exceptions as ge
        kid = keyid if keyid is not None else 'default'
        if kid == 'bad':
            raise ge.OpenPGPSigningFailure('fake: no usable secret key')
        outf.write('-----BEGIN PGP SIGNED MESSAGE-----\nHash: FAKE\n\n' + f.read()
                   + '-----BEGIN PGP SIGNATURE-----\n\nFAKESIG ' + kid + '\n-----END PGP SIGNATURE-----\n')

    def close(self):
        pass


def fake_clearsign(text, kid='default'):
    import io
    out = io.StringIO()
    FakePGP().clear_sign_file(io.StringIO(text), out, kid)
    return out.getvalue()


def fd_count():
    try:
        return len(os.listdir('/proc/self/fd'))
    except OSError:
        return 10**6


STAMP_NS = 1600000000 * 10**9
LAST_STAMPS = []


def run_impl(base, top, opts, allow_create, allow_xdev, ops, order_key, real_faults=(), jobs=None):
    """run the operation sequence on the implementation; results in the model's shape"""
    del LAST_STAMPS[:]
    import gemato.recursiveloader as rl
    import gemato.profile as gp
    import gemato.util as gu
    hashes, sort, wm, fmt, profile, sign, keyid, vpgp = opts
    out = []
    def mk(create):
        return rl.ManifestRecursiveLoader(os.path.join(base, top), verify_openpgp=bool(vpgp), openpgp_env=FakePGP(),
                                          sign_openpgp=sign, openpgp_keyid=keyid, hashes=hashes,
                                          allow_create=bool(create), sort=(True if sort else None),
                                          compress_watermark=wm, compress_format=(fmt or None),
                                          profile=gp.get_profile_by_name(profile), allow_xdev=bool(allow_xdev),
                                          **({} if jobs is None else {'max_jobs': jobs}))
    with FaultInjector(real_faults), ScandirOrder(order_key):
        try:
            m = mk(allow_create)
        except Exception as e:
            return canon_exc(e, base)
        failed_at = None
        for op in ops:
            try:
                if op[0] == 'verify':
                    calls = []
                    pol = POLICIES[op[2]]
                    if pol is None:
                        r = m.assert_directory_verifies(op[1], last_mtime=(op[3][0] if op[3] else None))
                    else:
                        def handler(err, pol=pol, calls=calls):
                            if not hasattr(err, 'diff'):
                                # not a mismatch report: a keep-going handler (like the CLI's) logs it and goes on
                                calls.append(['<%s>' % type(err).__name__, []])
                                return False
                            calls.append([err.path, [str(d[0]) for d in err.diff]])
                            return pol(err)
                        r = m.assert_directory_verifies(op[1], fail_handler=handler,
                                                        last_mtime=(op[3][0] if op[3] else None))
                    out.append(['ok', [1 if r else 0, calls]])
                elif op[0] == 'find_path_entry':
                    e = m.find_path_entry(op[1])
                    out.append(['ok', [impl.entry_sx(e)] if e is not None else []])
                elif op[0] == 'verify_path':
                    ok, diff = m.verify_path(op[1])
                    out.append(['ok', [1 if ok else 0, [str(d[0]) for d in diff]]])
                elif op[0] == 'assert_path_verifies':
                    m.assert_path_verifies(op[1])
                    out.append(['ok', []])
                elif op[0] == 'find_dist_entry':
                    e = m.find_dist_entry(op[1], op[2])
                    out.append(['ok', [impl.entry_sx(e)] if e is not None else []])
                elif op[0] == 'entry_dict':
                    d = m.get_file_entry_dict(op[1])
                    out.append(['ok', [[k, [[f, impl.entry_sx(e)] for f, e in v.items()]] for k, v in d.items()]])
                elif op[0] == 'loaded':
                    out.append(['ok', list(m.loaded_manifests.keys())])
                elif op[0] == 'reload':
                    top = m.top_level_manifest_filename if False else top
                    m = mk(False)
                    out.append(['ok', []])
                elif op[0] == 'update':
                    m.update_entries_for_directory(op[1], hashes=(op[2][0] if op[2] else None),
                                                   last_mtime=(op[3][0] if op[3] else None))
                    out.append(['ok', []])
                elif op[0] == 'update_path':
                    m.update_entry_for_path(op[1], new_entry_type=op[2], hashes=(op[3][0] if op[3] else None))
                    out.append(['ok', []])
                elif op[0] == 'save':
                    m.save_manifests(hashes=(op[1][0] if op[1] else None), force=bool(op[2]),
                                     sort=(bool(op[3][0]) if op[3] else None),
                                     compress_watermark=(op[4][0] if op[4] else None),
                                     compress_format=(op[5][0] if op[5] else None))
                    out.append(['ok', []])
                elif op[0] == 'set_timestamp':
                    import datetime
                    m.set_timestamp(datetime.datetime(*op[1]))
                    out.append(['ok', []])
                elif op[0] == 'find_timestamp':
                    e = m.find_timestamp()
                    out.append(['ok', [impl.entry_sx(e)] if e is not None else []])
                elif op[0] == 'files':
                    FaultInjector.suspended = True
                    try:
                        out.append(['ok', list_real_files(base)])
                    finally:
                        FaultInjector.suspended = False
                elif op[0] == 'stamp':
                    # record bytes + st_mtime_ns of every file, then age all files so that a later write shows
                    FaultInjector.suspended = True
                    try:
                        snap = {}
                        for dp, dn, fn in os.walk(base):
                            for f in fn:
                                q = os.path.join(dp, f)
                                if os.path.islink(q) or not os.path.isfile(q):
                                    continue
                                snap[os.path.relpath(q, base)] = (open(q, 'rb').read(), os.stat(q).st_mtime_ns)
                                os.utime(q, ns=(STAMP_NS, STAMP_NS))
                        LAST_STAMPS.append(snap)
                    finally:
                        FaultInjector.suspended = False
                    out.append(['ok', []])
                elif op[0] == 'manifests':
                    out.append(['ok', [[k, [impl.entry_sx(e) for e in mf.entries]] for k, mf in m.loaded_manifests.items()]])
                elif op[0] == 'updated':
                    out.append(['ok', sorted(m.updated_manifests)])
                else:
                    raise RuntimeError('unknown op ' + op[0])
            except Exception as e:
                out.append(canon_exc(e, base))
                failed_at = len(out) - 1
                break
    if failed_at is not None and ops[failed_at][0] != 'save':
        # after a failed non-saving operation the remaining file listings are still taken (C10: nothing was written)
        for op in ops[failed_at + 1:]:
            if op[0] == 'files':
                out.append(['ok', list_real_files(base)])
    return ['ok', out]


def list_real_files(base):
    """(relative path, content, mtime seconds) of every regular file below base, physical directories only"""
    out = []

    def rec(d, prefix):
        with os.scandir(d) as it:
            ents = sorted(it, key=lambda e: e.name)
        for e in ents:
            p = os.path.join(d, e.name)
            if e.is_symlink():
                if os.path.isfile(p):
                    out.append([prefix + e.name, open(p, 'rb').read(), int(os.stat(p).st_mtime)])
                continue
            if e.is_dir(follow_symlinks=False):
                rec(p, prefix + e.name + '/')
            elif e.is_file(follow_symlinks=False):
                out.append([prefix + e.name, open(p, 'rb').read(), int(os.stat(p).st_mtime)])
    rec(base, '')
    return out


def canon_files(lst, links=()):
    """files listing with run-written mtimes abstracted; paths through directory symlinks dropped"""
    def through_link(p):
        parts = p.split('/')
        return any('/'.join(parts[:k]) in links for k in range(1, len(parts)))
    return sorted([p, d if isinstance(d, str) else d, ('W' if m > 1750000000 else m)] for p, d, m in lst if not through_link(p))


def complete_oracles(req, reply):
    """if the model reply reports oracle misses, extend the tables of the request; returns True if extended"""
    misses = []

    def find(x):
        if isinstance(x, list):
            if len(x) == 2 and x[0] == 'OracleMiss' and isinstance(x[1], list):
                misses.append(x[1])
            else:
                for y in x:
                    find(y)
    find(reply)
    if not misses:
        return False
    for q in misses:
        if len(q) == 2:
            name, content = q[0], q[1].encode('latin1')
            try:
                req[2].append([name, content, hashlib.new(name, content).hexdigest()])
            except ValueError:
                req[2].append([name, content, 'unsupported'])
        elif len(q) == 3:
            d, fmt, data = q[0], q[1], q[2].encode('latin1')
            if d == 'c':
                req[3].append(['c', fmt, data, compress(fmt, data, flush=True)])
            else:
                req[3].append(['d', fmt, data, decompress(fmt, data)])
    return True


def preseed_oracles(req, impl_result):
    """add digests / codec pairs of the Manifest files the implementation left behind (so that the model
    usually needs no completion round when both agree); computed with hashlib and the codecs, not gemato"""
    if not (isinstance(impl_result, list) and impl_result and impl_result[0] == 'ok'):
        return
    seen = set()
    for x in impl_result[1]:
        if not (isinstance(x, list) and len(x) == 2 and x[0] == 'ok' and isinstance(x[1], list)):
            continue
        for item in x[1]:
            if not (isinstance(item, list) and len(item) == 3 and isinstance(item[1], (bytes, bytearray))):
                continue
            path, data = item[0], bytes(item[1])
            name = os.path.basename(path)
            if not name.startswith('Manifest') or data in seen:
                continue
            seen.add(data)
            for h in GOOD_HASHES:
                lib = HASHLIB[h]
                req[2].append([lib, data, hashlib.new(lib, data).hexdigest()])
            fmt = suffix_of(name)
            if fmt:
                plain = decompress(fmt, data)
                req[3].append(['d', fmt, data, plain])
                if isinstance(plain, bytes):
                    req[3].append(['c', fmt, plain, compress(fmt, plain, flush=True)])


def run_model_completing(reqs, rounds=40):
    """run the model on tree requests, completing the oracle tables until no miss remains"""
    replies = run_model(reqs, jobs=16)
    for _ in range(rounds):
        redo = [i for i, (rq, rp) in enumerate(zip(reqs, replies)) if complete_oracles(rq, rp)]
        if not redo:
            break
        new = run_model([reqs[i] for i in redo], jobs=16)
        for i, rp in zip(redo, new):
            replies[i] = rp
    return replies


class Scratch:
    """fresh scratch directories on two devices"""
    def __enter__(self):
        self.base = os.path.realpath(tempfile.mkdtemp(prefix='gvtree.'))
        self.shm = None
        if os.path.isdir(SHM) and os.stat(SHM).st_dev != os.stat(self.base).st_dev:
            self.shm = tempfile.mkdtemp(prefix='gvtree.', dir=SHM)
        self.n = 0
        return self

    def fresh(self):
        self.n += 1
        b = os.path.join(self.base, f'c{self.n}')
        s = os.path.join(self.shm, f'c{self.n}') if self.shm else None
        return b, s

    def cleanup(self, b, s):
        shutil.rmtree(b, ignore_errors=True)
        shutil.rmtree(b + '.orph', ignore_errors=True)
        if s:
            shutil.rmtree(s, ignore_errors=True)

    def __exit__(self, *a):
        shutil.rmtree(self.base, ignore_errors=True)
        if self.shm:
            shutil.rmtree(self.shm, ignore_errors=True)


WRITE_MTIME = 1800000000


def model_request(tree, top, opts, allow_create, allow_xdev, ops, order_key, hash_names, faults=(), extra_digests=(), extra_codec=()):
    if any(isinstance(n.get('mtime'), float) for n in tree.nodes.values()):
        # sub-second file times reach the model only through callers that scale them (p_tree.run_cases); elsewhere
        # the times play no role in the operations: whole seconds
        tree = tree.clone()
        for n in tree.nodes.values():
            if isinstance(n.get('mtime'), float):
                n['mtime'] = int(n['mtime'])
    hashes, sort, wm, fmt, profile, sign, keyid, vpgp = opts
    o = [[hashes] if hashes is not None else [], [1] if sort else [], [wm] if wm is not None else [], [fmt] if fmt else [], profile,
         [1 if sign else 0] if sign is not None else [], [keyid] if keyid else [], 1 if vpgp else 0]
    return ['tree', tree.to_sx(faults, order_key), digest_table(tree, hash_names) + list(extra_digests),
            codec_table(tree) + list(extra_codec),
            [top, o, 1 if allow_create else 0, 1 if allow_xdev else 0], [encode_op(op) for op in ops], WRITE_MTIME]


def encode_op(op):
    if op[0] == 'verify':
        return ['verify', op[1], op[2], op[3]]
    return list(op)
