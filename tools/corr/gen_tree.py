"""Generator of tree cases: a consistent tree with Manifests (computed with hashlib, never with
gemato), then mutations, symlinks, odd entries."""
import hashlib
import os

import engine_tree as ET
from engine_tree import Tree, HASHLIB, GOOD_HASHES

NAMES = ['a', 'b', 'foo', 'foobar', 'foo.bar', 'sub', 'sub2', 'x y', 'é', 'b\\s', '.hid', 'files', 'c.gz', 'Manifest.x', 'zz', 'd']
DNAMES = ['sub', 'sub2', 'foo', 'foobar', 'dir', '.hdir', 'files', 'x y', 'deep', 'other', 'é', 'foo.d']
CONTENTS = [b'', b'a', b'hello\n', b'hellp\n', b'0123456789', b'\x00\xff', b'longer content here\n', b'x' * 100]
FORMATS = ['', '', '', 'gz', 'bz2', 'lzma', 'xz']


class Case:
    def __init__(self):
        self.tree = None
        self.top = 'Manifest'
        self.opts = (None, False, None, 'gz', 'default', None, None, False)
        self.allow_create = False
        self.allow_xdev = True
        self.ops = []
        self.hash_names = set(GOOD_HASHES)
        self.meta = {}
        self.faults = []


def build_consistent(r, case, depth=3, nfiles=None, allow_multi=True, dups=True, double_refs=0.0):
    """directories, files, and a consistent Manifest hierarchy"""
    t = Tree()
    dirs = ['']
    for _ in range(r.randint(0, 4)):
        parent = r.choice(dirs)
        if parent.count('/') >= depth:
            continue
        name = r.choice(DNAMES)
        p = (parent + '/' + name) if parent else name
        if t.lookup(p) is None and not (p in dirs):
            t.add_dir(p)
            dirs.append(p)
    files = {}
    for _ in range(nfiles if nfiles is not None else r.randint(0, 7)):
        d = r.choice(dirs)
        name = r.choice(NAMES)
        p = (d + '/' + name) if d else name
        if t.lookup(p) is None and p not in dirs:
            data = r.choice(CONTENTS) if r.random() < 0.8 else bytes(r.getrandbits(8) for _ in range(r.randint(1, 40)))
            t.add_file(p, data, mtime=r.choice([1400000000, 1500000000, 1500000001, 1600000000]))
            files[p] = data
    # which directories get a sub-Manifest
    mdirs = [d for d in dirs if d and not any(c.startswith('.') for c in d.split('/')) and r.random() < 0.45]
    manifests = {'': ('Manifest', [])}          # dir -> (file name, lines)
    for d in mdirs:
        fmt = r.choice(FORMATS)
        manifests[d] = ('Manifest' + ('.' + fmt if fmt else ''), [])
    extra = {}                                   # second Manifest in a directory, referenced by the first
    if allow_multi and r.random() < 0.2:
        d = r.choice(list(manifests))
        fmt = r.choice(FORMATS)
        extra[d] = ('Manifest.files' + ('.' + fmt if fmt else ''), [])

    def governing(p):
        d = os.path.dirname(p)
        while True:
            if d in manifests:
                return d
            if d == '':
                return ''
            d = os.path.dirname(d)
    ignored = set()
    for p, data in sorted(files.items()):
        base = os.path.basename(p)
        comps = p.split('/')
        if any(c.startswith('.') for c in comps):
            if r.random() < 0.7:
                continue                       # hidden files usually have no entry
        g = governing(p)
        if r.random() < 0.15:
            g = ''                             # entry in an ancestor Manifest instead
        rel = os.path.relpath(p, g) if g else p
        k = r.random()
        if k < 0.08:
            manifests[g][1].append('IGNORE ' + ET.impl.encode_path(rel))
            ignored.add(p)
            continue
        tag = r.choice(['DATA', 'DATA', 'DATA', 'MISC', 'EBUILD'])
        hs = r.sample(GOOD_HASHES, r.randint(0, 3))
        target = manifests[g][1] if not (g in extra and r.random() < 0.5) else extra[g][1]
        if rel.startswith('files/') and r.random() < 0.5:
            target.append(ET.entry_line('AUX', rel[6:], data, hs))
        else:
            target.append(ET.entry_line(tag, rel, data, hs))
        # duplicates: same Manifest or an ancestor, same / other hash set
        if r.random() < 0.15 and dups:
            g2 = r.choice(['', g])
            rel2 = os.path.relpath(p, g2) if g2 else p
            hs2 = r.choice([hs, r.sample(GOOD_HASHES, r.randint(0, 3)), []])
            # ... and now and then conflicting: the digests (or the size) of other content, for an equal, overlapping or disjoint hash set
            k2 = r.random()
            data2 = data
            if k2 < 0.3 and data:
                data2 = bytes([data[0] ^ 1]) + data[1:]
                if r.random() < 0.5 and hs:
                    hs2 = sorted(set(r.sample(hs, r.randint(1, len(hs))) + r.sample(GOOD_HASHES, r.randint(0, 2))))
                    r.shuffle(hs2)
            elif k2 < 0.36:
                data2 = data + b'!'
            if data2 != data:
                case.meta.setdefault('conflicting_dups', []).append(p)
            manifests[g2][1].append(ET.entry_line(r.choice(['DATA', tag, 'MANIFEST']), rel2, data2, hs2))
    # extras: DIST, TIMESTAMP, IGNORE of directories / look-alikes / absent paths
    for d in list(manifests):
        if r.random() < 0.3:
            dn = r.randint(0, 3)
            # (DIST entries are never verified by gemato: they may carry hash names it does not know, which an update has to keep)
            manifests[d][1].append('DIST dist-%d.tar.gz 5 %sSHA1 %s%s' % (dn, 'BLAKE3 0123abcd ' if dn % 2 else '', hashlib.sha1(b'hello').hexdigest(), ' XXH128 77' if dn % 2 else ''))
        if r.random() < 0.2:
            manifests[d][1].append('IGNORE ' + r.choice(['absent', 'foo', 'sub', 'fo', 'foo.', 'sub/x', 'x\\x20y', 'dir/']))
    if r.random() < 0.3:
        manifests[''][1].insert(0, 'TIMESTAMP 2017-10-22T18:06:41Z')
    # write Manifests bottom-up so that parents carry true sizes and digests
    order = sorted(set(manifests) | set(extra), key=lambda d: -len(d.split('/')) if d else 1)
    written = {}

    def put(path, lines, shuffle=True):
        if shuffle and r.random() < 0.5:
            r.shuffle(lines)
        text = ('\n'.join(lines) + '\n') if lines else ''
        data = text.encode('utf8')
        fmt = ET.suffix_of(os.path.basename(path))
        if fmt:
            data = ET.compress(fmt, data)
        t.add_file(path, data)
        written[path] = data
        return data
    for d in order:
        if d in extra:
            name, lines = extra[d]
            p = (d + '/' + name) if d else name
            data = put(p, lines)
            manifests[d][1].append(ET.entry_line('MANIFEST', name, data, r.sample(GOOD_HASHES, r.randint(0, 2))))
        if d in manifests and d != '':
            name, lines = manifests[d]
            p = d + '/' + name
            data = put(p, lines)
            g = governing(d)           # the Manifest of the nearest ancestor directory
            rel = os.path.relpath(p, g) if g else p
            hs1 = r.sample(GOOD_HASHES, r.randint(0, 2))
            manifests[g][1].append(ET.entry_line('MANIFEST', rel, data, hs1))
            # now and then a second reference to the same sub-Manifest: the same line again, or from the top-level Manifest
            if (dups and r.random() < 0.1) or (double_refs and r.random() < double_refs):
                g2 = r.choice([g, ''])
                rel2 = os.path.relpath(p, g2) if g2 else p
                manifests[g2][1].append(ET.entry_line('MANIFEST', rel2, data, r.sample(GOOD_HASHES, r.randint(0, 2))))
                case.meta.setdefault('double_references', []).append(p)
            elif dups and g in extra and r.random() < 0.7:
                # ... or from the second Manifest of the governing directory, with hash names the first reference does not use:
                # right (compatible) or wrong (the chain is broken although the first reference matches)
                others = [h for h in GOOD_HASHES if h not in hs1]
                wrong = r.random() < 0.5
                d2 = (bytes([data[0] ^ 1]) + data[1:]) if (wrong and data) else data
                extra[g][1].append(ET.entry_line('MANIFEST', rel, d2, r.sample(others, r.randint(1, 2))))
                case.meta.setdefault('double_references', []).append(p + (':wrong' if d2 != data else ':right'))
    put('Manifest', manifests[''][1])
    case.tree = t
    case.meta.update(dirs=dirs, files=sorted(files), manifests=sorted(written), ignored=sorted(ignored))
    return t, files, written


MUTATIONS = ['content-same-size', 'content-other-size', 'delete', 'stray', 'stray-hidden', 'file-to-dir', 'dir-to-file',
             'fifo', 'mtime', 'manifest-byte', 'manifest-delete', 'dangling-link', 'loop-link', 'dir-symlink',
             'file-symlink', 'xdev-dir', 'stray-in-ignored', 'manifest-garbage', 'socket']


def mutate(r, case, files, written, kind=None):
    try:
        return mutate_(r, case, files, written, kind)
    except (KeyError, TypeError):
        return 'none'


def mutate_(r, case, files, written, kind=None):
    t = case.tree
    kind = kind or r.choice(MUTATIONS)
    dirs = [d for d in case.meta['dirs'] if t.lookup(d) is not None and t.nodes[t.lookup(d)]['k'] == 'd']
    fl = sorted(files)
    done = kind
    if kind in ('content-same-size', 'content-other-size', 'delete', 'file-to-dir', 'fifo', 'mtime', 'socket') and fl:
        p = r.choice(fl)
        d, name = os.path.split(p)
        di = t.lookup(d)
        i = t.lookup(p)
        if i is None or t.nodes[i]['k'] != 'f':
            return 'none'
        n = t.nodes[i]
        if kind == 'content-same-size':
            if not n['data']:
                return 'none'
            nd = bytes((n['data'][0] + 1) % 256 for _ in range(1)) + n['data'][1:]
            t.link(di, name, t.mkfile(n['dev'], nd, r.choice([n['mtime'], n['mtime'] + 1000])))
        elif kind == 'content-other-size':
            t.link(di, name, t.mkfile(n['dev'], n['data'] + b'!', n['mtime']))
        elif kind == 'delete':
            t.unlink(di, name)
        elif kind == 'file-to-dir':
            t.unlink(di, name)
            t.add_dir(p)
        elif kind == 'fifo':
            t.link(di, name, t.new({'k': 's', 'dev': n['dev'], 'kind': 'fifo'}))
        elif kind == 'socket':
            t.link(di, name, t.new({'k': 's', 'dev': n['dev'], 'kind': 'sock'}))
        elif kind == 'mtime':
            n['mtime'] = r.choice([1, 1500000000, 1700000000])
    elif kind in ('stray', 'stray-hidden', 'stray-in-ignored'):
        d = r.choice(dirs)
        name = {'stray': r.choice(['stray', 'foo2', 'Manifest', 'Manifest.gz']), 'stray-hidden': '.stray',
                'stray-in-ignored': 'stray'}[kind]
        p = (d + '/' + name) if d else name
        if t.lookup(p) is not None or p == 'Manifest':
            return 'none'
        t.add_file(p, b'stray data')
    elif kind == 'dir-to-file' and len(dirs) > 1:
        d = r.choice(dirs[1:])
        pd, name = os.path.split(d)
        t.unlink(t.lookup(pd), name)
        t.add_file(d, b'was a dir')
    elif kind in ('manifest-byte', 'manifest-delete', 'manifest-garbage') and len(written) > 1:
        p = r.choice([x for x in written if x != 'Manifest'])
        d, name = os.path.split(p)
        di = t.lookup(d)
        i = t.lookup(p)
        if i is None or di is None:
            return 'none'
        if kind == 'manifest-delete':
            t.unlink(di, name)
        elif kind == 'manifest-garbage':
            t.link(di, name, t.mkfile(t.nodes[di]['dev'], b'FOO bar\n'))
        else:
            data = t.nodes[i]['data']
            if not data:
                return 'none'
            j = r.randrange(len(data))
            t.link(di, name, t.mkfile(t.nodes[di]['dev'], data[:j] + bytes([(data[j] + 1) % 256]) + data[j + 1:]))
    elif kind in ('dangling-link', 'loop-link'):
        d = r.choice(dirs)
        di = t.lookup(d)
        if di is None:
            return 'none'
        t.link(di, 'lnk', ('e', 'ENOENT' if kind == 'dangling-link' else 'ELOOP'))
    elif kind == 'dir-symlink' and len(dirs) > 1:
        d = r.choice(dirs)
        tgt = r.choice(dirs)
        di, ti = t.lookup(d), t.lookup(tgt)
        if di is None or ti is None or t.nodes[di]['k'] != 'd' or t.nodes[ti]['k'] != 'd':
            return 'none'
        t.link(di, r.choice(['dlink', 'sub', 'zlink']), ti)
    elif kind == 'file-symlink' and fl:
        p = r.choice(fl)
        d = r.choice(dirs)
        di, fi = t.lookup(d), t.lookup(p)
        if di is None or fi is None or t.nodes[di]['k'] != 'd':
            return 'none'
        t.link(di, 'flink', fi)
    elif kind == 'xdev-dir':
        d = r.choice(dirs)
        di = t.lookup(d)
        if di is None or t.nodes[di]['k'] != 'd':
            return 'none'
        container = t.new({'k': 'd', 'dev': 2, 'parent': 0, 'ents': []})
        t.nodes[container]['parent'] = container
        x = t.mkdir(container, 2)
        t.link(container, 'xd', x)
        shape = r.choice(['file', 'file', 'file', 'empty', 'subdir', 'hidden', 'manifest-file', 'listed-dir'])
        top = t.lookup('Manifest')
        if shape == 'manifest-file' and top is not None and t.lookup((d + '/' if d else '') + 'xm') is None:
            # a sub-Manifest FILE that lives on the other filesystem (a file symlink), in a directory of the tree's own, with a matching entry
            mdata = r.choice([b'', b'IGNORE nothing-here\n'])
            t.link(di, 'xm', t.mkfile(2, mdata))
            node = t.nodes[top]
            line = ET.entry_line('MANIFEST', (d + '/' if d else '') + 'xm', mdata, ['SHA1'])
            node['data'] = node['data'] + (b'' if node['data'].endswith(b'\n') or not node['data'] else b'\n') + line.encode('utf8') + b'\n'
            node['size'] = len(node['data'])
            return done
        if shape == 'file':
            t.link(x, 'inner', t.mkfile(2, b'on other device'))
            top = t.lookup('Manifest')
            if top is not None and r.random() < 0.7:
                # ... with an entry of its own that matches it
                node = t.nodes[top]
                line = ET.entry_line('DATA', (d + '/' if d else '') + 'xd/inner', b'on other device', ['SHA1'])
                node['data'] = node['data'] + (b'' if node['data'].endswith(b'\n') or not node['data'] else b'\n') + line.encode('utf8') + b'\n'
                node['size'] = len(node['data'])
        elif shape == 'listed-dir':
            # the foreign directory itself has a file entry: a listed path that leads to a non-regular object on the other filesystem
            if top is not None:
                node = t.nodes[top]
                line = 'DATA ' + ((d + '/' if d else '') + 'xd').replace(' ', '\\x20') + ' 0'
                node['data'] = node['data'] + (b'' if node['data'].endswith(b'\n') or not node['data'] else b'\n') + line.encode('utf8') + b'\n'
                node['size'] = len(node['data'])
        elif shape == 'subdir':
            y = t.mkdir(x, 2)
            t.link(x, 'deeper', y)
        elif shape == 'hidden':
            t.link(x, '.hidden', t.mkfile(2, b'hidden file on other device'))
        t.link(di, 'xd', x)
    else:
        return 'none'
    return done


def order_key_for(seed):
    def key(name):
        return hashlib.md5((str(seed) + name).encode('utf8', 'surrogateescape')).digest()
    return key
