"""Structural matchers for the findings listed under "known" in /verif/known_findings.json.
A matcher gets (case, kind, detail) and decides whether the observed failure is exactly the listed finding;
anything it does not recognise is reported as a violation."""
import os

import oracle_exact as OX


def pre_manifests(case):
    """{path: parsed entries} of every readable Manifest-named file of the tree before the run"""
    out = {}
    for p, ino in case.tree.files():
        if os.path.basename(p).startswith('Manifest'):
            ents = OX.parse(p, case.tree.nodes[ino]['data'])
            if ents:
                out[p] = ents
    return out


def d11_paths(case):
    """paths with two entries in one Manifest that are equal once the first has received the checksums of the
    second (identical lines are the simplest instance): list.remove() then drops the refreshed object and the
    stale twin is written back"""
    if 'd11' not in case.meta:
        paths = set()
        for m, ents in pre_manifests(case).items():
            d = os.path.dirname(m)
            first = {}
            for e in ents:
                if e[0] not in OX.FILE_TAGS:
                    continue
                full = OX.norm(d, e[1])
                if full in first:
                    f = first[full]
                    if f[0] == e[0] and f[2] == e[2] and set(f[3]) <= set(e[3]):
                        paths.add(full)
                else:
                    first[full] = e
        case.meta['d11'] = sorted(paths)
    return set(case.meta['d11'])


def problem_path(p):
    k = p.split(':')
    if k[0] in ('manifest-entry-stale', 'manifest-entry-dangling') and '->' in p:
        return p.split('->', 1)[1]
    return {'hashset': lambda: k[1], 'size': lambda: k[1], 'digest': lambda: k[2], 'coverage': lambda: k[2],
            'vanished': lambda: k[2]}.get(k[0], lambda: None)()


def match_d11(case, kind, detail):
    paths = d11_paths(case)
    if not paths:
        return False
    if kind == 'idempotence':
        # the first run leaves the stale twin behind, the second run repairs it (and rewrites the Manifests above it)
        return True
    if kind == 'exactness':
        return all(problem_path(p) in paths for p in detail)
    if kind == 'fresh-verify':
        # ['err', ['ManifestMismatch', path, diff]] or ['ok', [0, log]]
        if detail[0] == 'err' and detail[1][0] == 'ManifestMismatch':
            return detail[1][1] in paths
        if detail[0] == 'ok' and isinstance(detail[1], list) and len(detail[1]) == 2:
            return all(x[0] in paths for x in detail[1][1])
    return False


def physical_path(tree, ino):
    """path of a directory inode through parent edges"""
    def rec(i, prefix):
        for name, t in tree.nodes[i]['ents']:
            if isinstance(t, int) and tree.nodes[t]['k'] == 'd' and tree.nodes[t]['parent'] == i and t != i:
                if t == ino:
                    return prefix + name
                r = rec(t, prefix + name + '/')
                if r is not None:
                    return r
        return None
    return '' if ino == tree.root else rec(tree.root, '')


def alias_zones(case):
    """(link path, physical path of its target) of every same-device directory symlink whose target directory
    holds a Manifest-named file somewhere below it"""
    if 'aliases' not in case.meta:
        t = case.tree
        mans = [p for p, _ in t.files() if os.path.basename(p).startswith('Manifest')]
        out = []
        for lk in sorted(t.link_paths()):
            ino = t.lookup(lk)
            if ino is None:
                continue
            tgt = physical_path(t, ino)
            if tgt is None:
                continue
            if any(OX.under(m, tgt) for m in mans) or any(OX.under(lk, os.path.dirname(m)) and os.path.dirname(m) for m in mans):
                out.append((lk, tgt))
        case.meta['aliases'] = out
    return case.meta['aliases']


def match_d20(case, kind, detail):
    zones = alias_zones(case)
    if zones and kind == 'idempotence':
        return True        # the two objects of the one file overwrite each other again on every run
    if not zones or kind != 'fresh-verify':
        return False

    def in_zone(p):
        return any(OX.under(p, lk) or OX.under(p, tgt) for lk, tgt in zones)
    if detail[0] == 'err' and detail[1][0] == 'ManifestIncompatibleEntry':
        return True        # the exception names the entry's own relative path only
    if detail[0] == 'err' and detail[1][0] == 'ManifestMismatch':
        return in_zone(detail[1][1])
    if detail[0] == 'ok' and isinstance(detail[1], list) and len(detail[1]) == 2:
        return all(in_zone(x[0]) for x in detail[1][1])
    return False


def d21_dirs(case):
    """directories of files that are listed by a MANIFEST entry and by an entry of another type and parse as Manifests"""
    if 'd21' not in case.meta:
        tags = {}
        for m, ents in pre_manifests(case).items():
            d = os.path.dirname(m)
            for e in ents:
                if e[0] in OX.FILE_TAGS:
                    tags.setdefault(OX.norm(d, e[1]), set()).add(e[0])
        dirs = set()
        for p, tg in tags.items():
            if 'MANIFEST' in tg and len(tg) > 1:
                ino = case.tree.lookup(p)
                if ino is not None and case.tree.nodes[ino]['k'] == 'f' and OX.parse(p, case.tree.nodes[ino]['data']) is not None:
                    dirs.add(os.path.dirname(p))
        case.meta['d21'] = sorted(dirs)
    return case.meta['d21']


def d29_dirs(case):
    """directories of Manifest-named files that parse as Manifests and are listed by an entry of another type only (no MANIFEST entry)"""
    if 'd29' not in case.meta:
        tags = {}
        for m, ents in pre_manifests_all(case).items():
            d = os.path.dirname(m)
            for e in ents:
                if e[0] in OX.FILE_TAGS:
                    tags.setdefault(OX.norm(d, e[1]), set()).add(e[0])
        dirs = set()
        for p, tg in tags.items():
            if 'MANIFEST' not in tg and os.path.basename(p).split('.')[0] == 'Manifest':
                ino = case.tree.lookup(p)
                if ino is not None and case.tree.nodes[ino]['k'] == 'f' and OX.parse(p, case.tree.nodes[ino]['data']) is not None:
                    dirs.add(os.path.dirname(p))
        case.meta['d29'] = sorted(dirs)
    return case.meta['d29']


def pre_manifests_all(case):
    """like pre_manifests, empty Manifests included"""
    out = {}
    for p, ino in case.tree.files():
        if os.path.basename(p).startswith('Manifest'):
            ents = OX.parse(p, case.tree.nodes[ino]['data'])
            if ents is not None:
                out[p] = ents
    return out


def match_d29(case, kind, detail):
    if kind == 'internal':
        return detail[1:3] == ['Internal', 'AssertionError'] and bool(d29_dirs(case))
    return _match_near(d29_dirs(case), kind, detail)


def match_d21(case, kind, detail):
    return _match_near(d21_dirs(case), kind, detail)


def _match_near(dirs, kind, detail):
    if not dirs:
        return False

    def near(p):
        return p is not None and any(OX.under(p, d) for d in dirs)
    if kind == 'exactness':
        return all(near(problem_path(p)) for p in detail)
    if kind == 'foreign-file':
        return near(detail.split(':')[0])
    if kind in ('idempotence', 'watermark'):
        return True
    if kind == 'fresh-verify':
        if detail[0] == 'err' and detail[1][0] == 'ManifestIncompatibleEntry':
            return True
        if detail[0] == 'err' and detail[1][0] == 'ManifestMismatch':
            return near(detail[1][1])
        if detail[0] == 'ok' and isinstance(detail[1], list) and len(detail[1]) == 2:
            return all(near(x[0]) for x in detail[1][1])
    return False


import re
_SURR = re.compile(rb'\\(u[dD][89a-fA-F][0-9a-fA-F]{2}|U0000[dD][89a-fA-F][0-9a-fA-F]{2})')


def has_surrogate_escape(case):
    for p, ino in case.tree.files():
        if os.path.basename(p).startswith('Manifest'):
            raw = OX.plain_bytes(p, case.tree.nodes[ino]['data'])
            if raw and _SURR.search(raw):
                return True
    return False


def match_d13(case, kind, detail):
    """a path written with an escape for a lone surrogate: UnicodeEncodeError when the path reaches the filesystem"""
    return kind == 'internal' and detail[1:3] == ['Internal', 'UnicodeError'] and has_surrogate_escape(case)


def unwalked_manifests(case):
    """a Manifest that is referenced by a MANIFEST entry but lies below a hidden or an IGNOREd directory"""
    pm = pre_manifests(case)
    ignores = []
    for m, ents in pm.items():
        d = os.path.dirname(m)
        ignores += [OX.norm(d, e[1].rstrip('/') or e[1]) for e in ents if e[0] == 'IGNORE']
    out = []
    for m, ents in pm.items():
        d = os.path.dirname(m)
        for e in ents:
            if e[0] == 'MANIFEST':
                tgt = OX.norm(d, e[1])
                if case.tree.lookup(tgt) is not None and (OX.hidden(tgt) or any(OX.under(tgt, i) for i in ignores)):
                    out.append(tgt)
    return out


def match_d12(case, kind, detail):
    return kind == 'internal' and detail[1:3] == ['Internal', 'AssertionError'] and bool(unwalked_manifests(case))


_NUL = re.compile(rb'\\(x00|u0000|U00000000)')


def match_d23(case, kind, detail):
    """a path written with an escape for NUL: ValueError('embedded null byte') from open()/os.*"""
    if not (kind == 'internal' and detail[1:3] == ['Internal', 'ValueError']):
        return False
    for p, ino in case.tree.files():
        if os.path.basename(p).startswith('Manifest'):
            raw = OX.plain_bytes(p, case.tree.nodes[ino]['data'])
            if raw and _NUL.search(raw):
                return True
    return False


def match_d21_internal(case, kind, detail):
    return kind == 'internal' and detail[1:3] == ['Internal', 'AssertionError'] and bool(d21_dirs(case))


def logical_file_paths(case, depth=5):
    """paths of regular files as the walks see them: directory symlinks followed (to a bounded depth)"""
    t = case.tree
    out = []

    def rec(i, prefix, d):
        for name, tgt in t.nodes[i]['ents']:
            if not isinstance(tgt, int):
                continue
            n = t.nodes[tgt]
            if n['k'] == 'd':
                if d < depth:
                    rec(tgt, prefix + name + '/', d + 1)
            elif n['k'] == 'f':
                out.append(prefix + name)
    rec(t.root, '', 0)
    return out


def match_d8(case, kind, detail):
    """old-ebuild profile: a new file typed AUX (a path with a files/ component at depth 3) whose governing Manifest
    is not the package's: the entry class is built with the full path"""
    return kind == 'internal' and detail[1:2] == ['Internal'] and detail[2] in ('AssertionError', 'AttributeError') and case.opts[4] == 'old-ebuild' \
        and any('files' in p.split('/')[2:3] for p in logical_file_paths(case))


def match_d25(case, kind, detail):
    """a MANIFEST entry whose path leaves the directory of its Manifest through '..'"""
    if not (kind == 'internal' and detail[1:3] == ['Internal', 'AssertionError']):
        return False
    for m, ents in pre_manifests(case).items():
        for e in ents:
            if e[0] == 'MANIFEST' and '..' in e[1].split('/'):
                return True
    return False


def stale_refs_before(case):
    """{target path: [referencing Manifests]} of the MANIFEST entries that were stale (size or a checkable digest) before the run"""
    if 'stale_refs' not in case.meta:
        files = {p: case.tree.nodes[ino]['data'] for p, ino in case.tree.files()}
        out = {}
        for m, ents in pre_manifests(case).items():
            d = os.path.dirname(m)
            for e in ents:
                if e[0] != 'MANIFEST':
                    continue
                tgt = OX.norm(d, e[1])
                data = files.get(tgt)
                if data is None:
                    continue
                if e[2] != len(data) or any(h in OX.HASHLIB_OF and OX.digest(h, data) != v for h, v in e[3].items()):
                    out.setdefault(tgt, []).append(m)
        case.meta['stale_refs'] = out
    return case.meta['stale_refs']


def match_d28(case, kind, detail):
    """sub-directory update; a MANIFEST entry outside the updated directory that was stale before the run and whose target
    the run did not rewrite (same bytes afterwards, when the post-state is known) stays stale"""
    upd = [op for op in case.ops if op and op[0] in ('update', 'update_inc')]
    if not upd or not upd[0][1]:
        return False                       # whole-tree updates repair stale references
    upath = upd[0][1]
    stale = stale_refs_before(case)
    if not stale:
        return False
    post = getattr(case, 'post_files', None)

    def untouched_stale(tgt):
        if tgt not in stale or OX.under(tgt, upath):
            return False
        if post is not None:
            ino = case.tree.lookup(tgt)
            return ino is not None and post.get(tgt) == case.tree.nodes[ino]['data']
        return True
    if kind == 'exactness':
        ok = True
        for p in detail:
            k = p.split(':', 1)
            if k[0] != 'manifest-entry-stale' or '->' not in k[1]:
                return False
            m, tgt = k[1].split('->', 1)
            ok = ok and untouched_stale(tgt) and m in stale.get(tgt, [])
        return ok
    if kind == 'fresh-verify':
        if detail[0] == 'err' and detail[1][0] == 'ManifestMismatch':
            return untouched_stale(detail[1][1])
        if detail[0] == 'ok' and isinstance(detail[1], list) and len(detail[1]) == 2 and detail[1][1]:
            return all(untouched_stale(x[0]) for x in detail[1][1])
    return False


D30_IGNORES = {'metadata': ['timestamp', 'timestamp.chk', 'timestamp.commit', 'timestamp.x'],
               'metadata/dtd': ['timestamp.chk', 'timestamp.commit'], 'metadata/glsa': ['timestamp.chk', 'timestamp.commit'],
               'metadata/news': ['timestamp.chk', 'timestamp.commit'], 'metadata/xml-schema': ['timestamp.chk', 'timestamp.commit']}


def match_d30(case, kind, detail):
    """ebuild profiles: a Manifest is created in metadata/ (or one of its four special sub-directories) and a file its default IGNORE list
    names already has an entry in a Manifest above (the tree was covered under another profile before): NotImplementedError"""
    if not (kind == 'internal' and detail[1:3] == ['Internal', 'NotImplementedError'] and case.opts[4] in ('ebuild', 'old-ebuild')):
        return False
    paths = set(logical_file_paths(case))
    cand = [d + '/' + f for d, fs in D30_IGNORES.items() for f in fs if d + '/' + f in paths]
    if not cand:
        return False
    if case.meta.get('switched_profile'):
        return True
    listed = set()
    for m, ents in pre_manifests(case).items():
        d = os.path.dirname(m)
        for e in ents:
            if e[0] in OX.FILE_TAGS:
                listed.add(OX.norm(d, e[1]))
    return any(p in listed for p in cand)


MATCHERS = {'D30': match_d30, 'D29': match_d29, 'D28': match_d28, 'D25': match_d25, 'D11': match_d11, 'D20': match_d20, 'D21': lambda c, k, d: match_d21(c, k, d) or match_d21_internal(c, k, d),
            'D13': match_d13, 'D12': match_d12, 'D8': match_d8, 'D23': match_d23}
