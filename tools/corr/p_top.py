"""Check for C15: top-level Manifest discovery (engine `top`)."""
import itertools
import json
import os
import subprocess
import sys

from sx import run_model

HERE = os.path.dirname(os.path.abspath(__file__))
DEPTH = 4
ERRNO = {21: 'EISDIR', 13: 'EACCES', 20: 'ENOTDIR', 2: 'ENOENT'}


def run_worker(cases):
    env = dict(os.environ, GV_TOP_DEPTH=str(DEPTH))
    inp = json.dumps(cases).encode()
    for argv in (['unshare', '-m', sys.executable, os.path.join(HERE, 'top_worker.py')], None):
        if argv is None:
            # no private mount namespace available: device boundary only via /dev/shm (cases with boundary 0 there)
            return None
        p = subprocess.run(argv, input=inp, env=env, stdout=subprocess.PIPE, stderr=subprocess.PIPE)
        if p.returncode == 0 and p.stdout.strip():
            out = json.loads(p.stdout)
            if 'error' not in out:
                return out
    return None


def ignore_texts(comps_rel, own=None):
    """Manifest texts for a level whose relative start path is comps_rel (list of components); own = the name of the level's own directory"""
    rel = '/'.join(comps_rel)
    first = comps_rel[0] if comps_rel else 'x'
    outs = ['', 'DATA other 0\n']
    if own:
        # IGNORE entries that would match the start path as seen from the directory ABOVE this level (which may have no Manifest): they say
        # nothing about the start path as seen from here
        outs += [f'IGNORE {own}\n', f'IGNORE {own}/{rel}\n' if rel else f'IGNORE {own}/x\n']
    if rel:
        outs += [f'IGNORE {rel}\n', f'IGNORE {first}\n', f'IGNORE {rel}/\n', f'IGNORE {first}x\n', f'IGNORE {rel}/deeper\n',
                 f'IGNORE {first[:-1] or "q"}\n', f'DATA {rel} 0\nIGNORE {rel}\n', f'IGNORE sibling\nIGNORE {first}\n',
                 f'IGNORE {rel}x/y\n',
                 # the path field is escaped text: an IGNORE path spelled with escapes names the same path
                 'IGNORE %s\\x%02X\n' % (rel[:-1], ord(rel[-1])), 'IGNORE \\u%04X%s\n' % (ord(first[0]), first[1:]),
                 'IGNORE %s\\x%02Xx\n' % (rel[:-1], ord(rel[-1]))]
    else:
        outs += ['IGNORE x\n', 'IGNORE l1\n']
    return outs


def c15(ctx, device_only=False):
    """device_only (run for C16): only chains searched in one-file-system mode that hold a device boundary or a Manifest linked to another file system"""
    quick = ctx.tier == 'quick'
    r = ctx.rng('c15' if not device_only else 'c16-discovery')
    cases = []
    # levels l1..l4 (outermost first); start depth s in 1..4; relative path at level j (1-based) = l(j+1)..l(s)
    states = ['absent', 'plain', 'gz', 'both']
    n_target = (2500 if quick else 40000) if not device_only else (500 if quick else 5000)
    seen = set()

    def mk(boundary, start, xdev, compr, lv_states, ign_level, ign_idx, odd, link=None):
        levels = []
        for j in range(1, DEPTH + 1):
            st = lv_states[j - 1]
            rel = [f'l{d}' for d in range(j + 1, start + 1)]
            texts = ignore_texts(rel, f'l{j}')
            # (levels that IGNORE nothing may still say anything else, e.g. carry a TIMESTAMP like the top-level Manifest of a repository kept inside a larger tree)
            text = texts[ign_idx % len(texts)] if j == ign_level else r.choice(['', 'DATA other 0\n', 'TIMESTAMP 2020-01-01T00:00:00Z\n', 'TIMESTAMP 2021-02-03T04:05:06Z\nDATA other 0\n'])
            files = {}
            if st in ('plain', 'both'):
                files['Manifest'] = ['text', text]
            if st in ('gz', 'both'):
                files['Manifest.gz'] = ['gz', text if st == 'gz' else texts[(ign_idx + 1) % len(texts)]]
            if odd and j == odd[0]:
                files = dict(files)
                files[odd[1]] = [odd[2]] if odd[2] != 'text' else ['text', 'FOO bar\n']
            if link and j == link[0] and link[1] in files and files[link[1]][0] in ('text', 'gz'):
                files = dict(files)
                files[link[1]] = ['link', link[2], files[link[1]]]
            levels.append({'files': files})
        return {'boundary': boundary, 'levels': levels, 'start': start, 'xdev': xdev, 'compr': compr, 'defaults': (ign_idx + start + boundary) % 2 == 0,
                'via_link': (ign_idx * 7 + start * 3 + boundary) % 5 == 0,
                'chroot': boundary == 0 and link is None and (ign_idx + 2 * start + sum(map(len, lv_states))) % 3 == 0}
    combos = itertools.product(range(0, DEPTH + 1), range(1, DEPTH + 1), (True, False), (True, False))
    combos = list(combos)
    while len(cases) < n_target:
        boundary, start, xdev, compr = r.choice(combos)
        lv_states = tuple(r.choice(states) for _ in range(DEPTH))
        ign_level = r.randint(1, DEPTH)
        ign_idx = r.randrange(16)
        odd = None
        if r.random() < 0.06:
            odd = (r.randint(1, DEPTH), r.choice(['Manifest', 'Manifest.gz']), r.choice(['dir', 'garbage-gz', 'text']))
        link = None
        if r.random() < 0.2:
            # a Manifest that is a symbolic link to a file on another (or the same) filesystem
            link = (r.randint(1, DEPTH), r.choice(['Manifest', 'Manifest', 'Manifest.gz']), r.choice(['foreign', 'foreign', 'same']))
        if device_only:
            xdev = False
            if boundary == 0 and (link is None or link[2] != 'foreign'):
                link = (r.randint(1, start), r.choice(['Manifest', 'Manifest', 'Manifest.gz']), 'foreign')
                lv_states = tuple(('plain' if link[1] == 'Manifest' else 'gz') if j + 1 == link[0] and st == 'absent' else st for j, st in enumerate(lv_states))
                compr = compr or link[1] != 'Manifest'
        key = (boundary, start, xdev, compr, lv_states, ign_level, ign_idx, odd, link)
        if key in seen:
            continue
        seen.add(key)
        cases.append(mk(*key))
    if not quick and not device_only:
        # exhaustive core: all level states x start x flags, one ignore placement each, no boundary / boundary at 2
        for lv_states in itertools.product(states[:3], repeat=DEPTH):
            for start in range(1, DEPTH + 1):
                for xdev, compr in ((True, False), (True, True), (False, True)):
                    for ign_level in range(1, DEPTH + 1):
                        for ign_idx in (2, 3, 5):
                            cases.append(mk(r.choice([0, 2, 3]), start, xdev, compr, lv_states, ign_level, ign_idx, None))
    out = run_worker(cases)
    if out is None:
        ctx.notes.append('unshare -m / mount not available: device boundaries not realised; cases with a boundary dropped')
        cases = [c for c in cases if c['boundary'] == 0]
        p = subprocess.run([sys.executable, os.path.join(HERE, 'top_worker.py')], input=json.dumps(cases).encode(),
                           env=dict(os.environ, GV_TOP_DEPTH=str(DEPTH)), stdout=subprocess.PIPE)
        out = json.loads(p.stdout)
    if any(a['manifest_present'] for a in out['ancestors']):
        ctx.broke('harness: a Manifest exists in an ancestor of the scratch directory ' + out['base'])
        return
    anc = out['ancestors']         # base, its parents ... '/'
    reqs = []
    for c, res in zip(cases, out['results']):
        devs = res['devs']         # skeleton root (b<k>) then l1..l4
        levels = []
        # from the start directory upwards: l_start .. l1, skeleton root, then the real ancestors
        for j in range(c['start'], 0, -1):
            files = []
            for n, spec in c['levels'][j - 1]['files'].items():
                compressed_name = n != 'Manifest'
                fdev = res.get('fdevs', [{}] * DEPTH)[j - 1].get(n, devs[j])
                if spec[0] == 'link':
                    spec = spec[2]
                if spec[0] == 'dir':
                    files.append([n, ['err', 'EISDIR']])
                elif spec[0] == 'gz' or (spec[0] == 'text' and not compressed_name):
                    files.append([n, ['text', fdev, spec[1]]])
                elif compressed_name:
                    files.append([n, ['err', 'BadCompressedFile']])     # not gzip data under a .gz name
                else:
                    files.append([n, ['text', fdev, 'this is not gzip data']])
            levels.append([[devs[j], 0], files])
        if res.get('chrooted'):
            levels[-1][0][1] = 1         # l1 is the root directory of the process: nothing above it
        else:
            levels.append([[devs[0], 0], []])
            for a in anc:
                levels.append([[a['dev'], 1 if a['root'] else 0], []])
        reqs.append(['find_top_level', levels, res['comps'], 1 if c['xdev'] else 0, 1 if c['compr'] else 0])
    model = run_model(reqs, jobs=16)
    kinds = {}
    for c, res, mi in zip(cases, out['results'], model):
        ii = res['res']
        if ii[0] == 'ok':
            iv = ['ok', [] if ii[1] is None else [[ii[1][0], ii[1][1]]]]
        elif ii[0] == 'err':
            nm = ii[1]
            if nm == 'ManifestSyntaxError':
                iv = ['err', ['ManifestSyntaxError']]
            elif nm in ('BadGzipFile', 'LZMAError', 'EOFError'):
                iv = ['err', ['BadCompressedFile']]
            else:
                iv = ['err', ['OSError', ERRNO.get(ii[2], ii[2])]]
        else:
            iv = ii
        kinds[str(iv[0]) + ('/none' if iv[0] == 'ok' and not iv[1] else '')] = kinds.get(str(iv[0]) + ('/none' if iv[0] == 'ok' and not iv[1] else ''), 0) + 1
        if mi != iv:
            if iv[0] == 'weird' and mi[0] == 'ok':
                ctx.violation('spec', 'discovery returned the path %s, which does not name the Manifest it found (expected %s levels up)' % (iv[1], mi[1]),
                              {'where': 'find_top_level', 'case': c, 'impl': iv, 'model': mi, 'devs': res['devs']})
                continue
            clean = mi[0] == 'ok' and iv[0] == 'ok'
            if mi[0] == 'err' and iv[0] == 'ok' and mi[1][0] in ('OSError', 'BadCompressedFile', 'ManifestSyntaxError'):
                ctx.violation('spec', 'discovery answered %s although a Manifest candidate on the way cannot be read (%s): an unreadable object '
                              'was treated as non-existent' % (iv[1], mi[1]), {'where': 'find_top_level', 'case': c, 'impl': iv, 'model': mi, 'devs': res['devs']})
                continue
            if mi[0] == 'ok' and iv[0] == 'err':
                ctx.violation('spec', 'discovery failed with %s although every Manifest candidate on the way up can be read: the outermost covering Manifest '
                              'is %s%s' % (iv[1], mi[1] or 'none (answer: nothing)', ' (the outermost level is the root directory of the process)' if res.get('chrooted') else ''),
                              {'where': 'find_top_level', 'case': c, 'impl': iv, 'model': mi, 'devs': res['devs']})
                continue
            ctx.violation('spec' if clean else 'correspondence',
                          ('discovery returned %s but the outermost covering Manifest is %s (Spec/FindTop.v is_answer, '
                           'via theorem C15_outermost)' % (iv[1], mi[1])) if clean else
                          'find_top_level_manifest differs between model and implementation',
                          {'where': 'find_top_level', 'case': c, 'impl': iv, 'model': mi, 'devs': res['devs']})
    if not device_only:
        cli_discovery_per_path(ctx)
    ctx.count('top:chains' if not device_only else 'top:chains-one-file-system', len(cases), len({json.dumps(c, sort_keys=True) for c in cases}),
              samples=[{'case': cases[0], 'result': out['results'][0]['res']}],
              dist=dict(kinds, realisation=out['realisation'], depth=DEPTH,
                        with_boundary=sum(1 for c in cases if c['boundary']),
                        outermost_level_is_the_root_directory=sum(1 for x in out['results'] if x.get('chrooted'))))


def cli_discovery_per_path(ctx):
    """`gemato verify p1 p2 ...`: the top-level Manifest is discovered for each path on its own (an overlay inside an IGNOREd directory has
    its own top-level Manifest): the command fails iff one of the single-path commands fails, whatever the order"""
    import hashlib
    import tempfile
    import shutil
    import p_tree as PT
    r = ctx.rng('c15cli')
    n = same = 0
    td = tempfile.mkdtemp(prefix='gv-c15-', dir=os.environ.get('GV_SCRATCH'))
    try:
        for i in range(40 if ctx.tier == 'quick' else 400):
            repo = os.path.join(td, 'r%d' % i)
            os.makedirs(os.path.join(repo, 'pkg'))
            os.makedirs(os.path.join(repo, 'local', 'inner'))
            def line(tag, rel, data):
                return '%s %s %d SHA1 %s' % (tag, rel, len(data), hashlib.sha1(data).hexdigest())
            files = {'pkg/file': b'pkg\n', 'local/own': b'own\n', 'local/inner/deep': b'deep\n'}
            for pth, data in files.items():
                with open(os.path.join(repo, pth), 'wb') as f:
                    f.write(data)
            overlay_ok = r.random() < 0.7          # the overlay's own Manifest matches / does not match its files
            ignore = r.choice(['local', 'local', 'local/inner', None])
            top = [line('DATA', 'pkg/file', files['pkg/file'] if r.random() < 0.8 else b'x')]
            if ignore:
                top.append('IGNORE ' + ignore)
            if ignore != 'local':
                top.append(line('DATA', 'local/own', files['local/own']))
            if ignore is None:
                top.append(line('DATA', 'local/inner/deep', files['local/inner/deep']))
            lm_dir = 'local' if ignore == 'local' else ('local/inner' if ignore == 'local/inner' else None)
            if lm_dir:
                ents = [line('DATA', os.path.relpath(pth, lm_dir), data if overlay_ok else b'??') for pth, data in files.items() if pth.startswith(lm_dir + '/')]
                with open(os.path.join(repo, lm_dir, 'Manifest'), 'w') as f:
                    f.write('\n'.join(ents) + '\n')
            with open(os.path.join(repo, 'Manifest'), 'w') as f:
                f.write('\n'.join(top) + '\n')
            cand = ['pkg', 'local', 'local/inner', '']
            paths = r.sample(cand, r.choice([2, 2, 3]))
            flags = r.choice([[], ['--keep-going']])
            single = {pp: PT.run_cli_collect(['gemato', 'verify', '--no-openpgp-verify'] + flags + [os.path.join(repo, pp) if pp else repo])[0] for pp in paths}
            multi, items = PT.run_cli_collect(['gemato', 'verify', '--no-openpgp-verify'] + flags + [os.path.join(repo, pp) if pp else repo for pp in paths])
            n += 1
            if (multi != 0) != any(v != 0 for v in single.values()):
                ctx.violation('spec', f'gemato verify {" ".join(flags)} {" ".join(pp or "<top>" for pp in paths)} exits {multi}, the single-path commands exit {single}: '
                              'the top-level Manifest of a later path was not discovered from that path', {'paths': paths, 'flags': flags, 'ignore_in_top': ignore,
                                                                                                            'overlay_consistent': overlay_ok, 'single': single, 'several': multi, 'log': items[:8]})
            else:
                same += 1
            shutil.rmtree(repo, ignore_errors=True)
    finally:
        shutil.rmtree(td, ignore_errors=True)
    ctx.count('cli:discovery-per-path', n, n, dist={'runs_agreeing': same})
