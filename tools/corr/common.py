"""Check framework: build + proof step, evidence, violation reporting, known findings."""
import fcntl
import json
import os
import random
import re
import subprocess
import sys
import time

VERIF = os.path.abspath(os.path.join(os.path.dirname(os.path.abspath(__file__)), '..', '..'))
COQ = os.path.join(VERIF, 'coq')
REPO = os.environ.get('GEMATO_REPO', '/repo')
EVID = os.path.join(VERIF, 'evidence')
REPLAY = os.path.join(VERIF, 'replays')

TRUSTED_BASE_COMMON = [
    'Coq 8.16.1 kernel (coqc; vm_compute used for finite-table lemmas and for running the model; no native_compute)',
    'tools/py2v.py translator (fail-closed) for Gen/{Util,Profile,Tables,PyFacts}.v',
    'hand-written Gallina model of gemato (Model/*.v) and of the CPython builtins it uses (Py/*.v), tied to /repo by the correspondence harness tools/corr on every run',
    'extraction: ExtrOcamlBasic only (bool/option/list/prod/unit/sumbool); N, Z, positive, nat, string kept as extracted inductives; coq/extract/driver.ml',
]


PROPS = {}


def register(pid, module, func, rule, explanation, assumptions):
    PROPS[pid] = dict(module=module, func=func, rule=rule, explanation=explanation, assumptions=assumptions)


class Ctx:
    """State of one check run."""
    def __init__(self, pid, tier, seed):
        self.pid = pid
        self.tier = tier
        self.seed = seed
        self.t0 = time.time()
        self.violations = []          # (kind, description, replay dict)
        self.known = []               # known-finding lines
        self.broken = []              # names of theorems / correspondences that no longer check
        self.cov = {'evaluations': 0, 'distinct_nontrivial': 0, 'samples': [], 'engines': {}}
        self.obligations = 0
        self.discharged = 0
        self.assumptions_printed = []
        self.build_ok = True
        self.model_stale = False
        self.notes = []

    def rng(self, name):
        return random.Random(f'{self.seed}/{self.pid}/{name}')

    def count(self, engine, evaluations, nontrivial, samples=(), dist=None, exhaustive=None):
        e = self.cov['engines'].setdefault(engine, {})
        e['evaluations'] = e.get('evaluations', 0) + evaluations
        e['distinct_nontrivial'] = e.get('distinct_nontrivial', 0) + nontrivial
        if dist:
            e.setdefault('distribution', {}).update(dist)
        if exhaustive is not None:
            e['exhaustive'] = exhaustive
        self.cov['evaluations'] += evaluations
        self.cov['distinct_nontrivial'] += nontrivial
        for s in samples:
            if len(self.cov['samples']) < 12:
                self.cov['samples'].append(s)

    def violation(self, kind, desc, replay):
        self.violations.append((kind, desc, replay))

    def broke(self, name):
        if name not in self.broken:
            self.broken.append(name)


def sh(cmd, timeout=3600, cwd=None, env=None):
    return subprocess.run(cmd, shell=isinstance(cmd, str), cwd=cwd, env=env, timeout=timeout,
                          stdout=subprocess.PIPE, stderr=subprocess.STDOUT, text=True)


def build(ctx, prop_file):
    """Translate + build the whole development under a lock.  Returns (ok, failing_file, log)."""
    os.makedirs(os.path.join(VERIF, 'work'), exist_ok=True)
    with open(os.path.join(VERIF, 'work', 'build.lock'), 'w') as lk:
        fcntl.flock(lk, fcntl.LOCK_EX)
        r = sh([os.path.join(VERIF, 'tools', 'build_model.sh'), REPO], timeout=3000)
        log = r.stdout
        ok = r.returncode == 0
        drv = os.path.join(COQ, 'extract', 'model_driver')
        good = drv + '.lastgood'
        if ok:
            if not os.path.exists(good) or os.path.getmtime(good) < os.path.getmtime(drv):
                sh(['cp', '-p', drv, good])
        failing = None
        if not ok:
            m = re.search(r'File "\./(theories/[^"]+)"', log)
            failing = m.group(1) if m else 'translator-or-build'
            m2 = re.search(r'TRANSLATOR-ERROR (\S+)', log)
            if m2:
                failing = 'Gen/' + m2.group(1) + ' (translator: ' + log[m2.start():].splitlines()[0][:200] + ')'
    return ok, failing, log


def proof_step(ctx, prop_file):
    """Compile Properties/<prop>.v again to capture Print Assumptions; count theorems."""
    path = os.path.join(COQ, 'theories', 'Properties', prop_file)
    src = open(path).read()
    names = re.findall(r'^(?:Theorem|Lemma|Corollary)\s+(\w+)', src, re.M)
    ctx.obligations = len(names)
    r = sh(['coqc', '-Q', 'theories', 'Gemato', '-w', '-all', os.path.join('theories', 'Properties', prop_file)],
           cwd=COQ, timeout=1200)
    if r.returncode != 0:
        ctx.discharged = 0
        ctx.broke('Properties/' + prop_file + ': ' + (r.stdout.strip().splitlines() or ['coqc failed'])[-1][:200])
        return names, r.stdout
    ctx.discharged = len(names)
    out = r.stdout
    closed = out.count('Closed under the global context')
    axioms = sorted(set(re.findall(r'^(\w[\w.]*)\s*:', out, re.M)))
    ctx.assumptions_printed = ['%d of %d Print Assumptions report "Closed under the global context"'
                               % (closed, out.count('Closed under the global context') + len(re.findall(r'^Axioms:', out, re.M)))]
    if axioms:
        ctx.assumptions_printed.append('axioms listed: ' + ', '.join(axioms))
    return names, out


def coqchk_step(ctx, pid):
    """thorough tier: re-check the compiled property file and everything it depends on with the independent checker"""
    r = sh(['coqchk', '-o', '-silent', '-Q', 'theories', 'Gemato', 'Gemato.Properties.' + pid], cwd=COQ, timeout=3000)
    out = r.stdout
    ax = re.search(r'\* Axioms:\s*(.*?)\n\s*\n', out, re.S)
    axioms = ax.group(1).strip() if ax else '?'
    if r.returncode != 0:
        ctx.broke('coqchk failed on Properties/' + pid + ': ' + out.strip().splitlines()[-1][:200])
    elif axioms != '<none>':
        ctx.broke('coqchk reports axioms for Properties/' + pid + ': ' + axioms[:300])
    ctx.assumptions_printed.append('coqchk -o: Axioms: ' + axioms + '; type-in-type / unsafe fixpoints / assumed positivity: ' +
                                   ('none' if out.count('<none>') >= 4 else 'see log'))


FORBIDDEN = re.compile(r'\b(Admitted|admit|Axiom|Parameter|Conjecture|Abort All)\b|Unset Guard|bypass_check|'
                       r'Unset Positivity|Unset Universe|type-in-type|Admit Obligations')


def forbidden_scan():
    bad = []
    for root, _, files in os.walk(os.path.join(COQ, 'theories')):
        for f in files:
            if f.endswith('.v'):
                p = os.path.join(root, f)
                txt = re.sub(r'\(\*.*?\*\)', '', open(p).read(), flags=re.S)
                for i, line in enumerate(txt.splitlines(), 1):
                    if FORBIDDEN.search(line):
                        bad.append(f'{os.path.relpath(p, COQ)}:{i}: {line.strip()[:80]}')
    return bad


def known_findings():
    return json.load(open(os.path.join(VERIF, 'known_findings.json')))


def finish(ctx, level_text, explanation, assumptions, extra_cov=None):
    """Write evidence + replay, print verdict lines, return exit status."""
    os.makedirs(EVID, exist_ok=True)
    os.makedirs(REPLAY, exist_ok=True)
    status = 0
    lines = []
    for k in ctx.known:
        lines.append(f'KNOWN-FINDING: property={ctx.pid} {k}')
    spec_v = [v for v in ctx.violations if v[0] != 'correspondence']
    corr_v = [v for v in ctx.violations if v[0] == 'correspondence']
    rp = os.path.join(REPLAY, f'{ctx.pid}-{ctx.tier}-{ctx.seed}.json')
    if spec_v:
        # a concrete input on which the property itself fails on the implementation
        status = 1
        kind, desc, replay = spec_v[0]
        json.dump({'property': ctx.pid, 'seed': ctx.seed, 'tier': ctx.tier, 'kind': kind, 'what': desc,
                   'case': replay, 'broken': ctx.broken,
                   'all_violations': [{'kind': k, 'what': d, 'case': r} for k, d, r in ctx.violations[:50]]},
                  open(rp, 'w'), indent=1, default=repr)
        lines.append(f'VIOLATION property={ctx.pid} replay={rp}')
    elif corr_v or ctx.broken:
        # the tie between model and code (or a proof obligation) is broken, but no input was found on
        # which the property fails: still a violation (the property is no longer shown to hold)
        status = 1
        for k, d, r in corr_v[:3]:
            ctx.broke('correspondence: ' + d + ' [' + str(r.get('where', r.get('op', '')))[:60] + ']')
        json.dump({'property': ctx.pid, 'seed': ctx.seed, 'tier': ctx.tier, 'found': None,
                   'broken': ctx.broken,
                   'note': 'a proof obligation or the model/implementation correspondence no longer checks; '
                           'the search found no input on which the property itself fails',
                   'disagreements': [{'what': d, 'case': r} for k, d, r in corr_v[:50]]},
                  open(rp, 'w'), indent=1, default=repr)
        lines.append(f'VIOLATION property={ctx.pid} replay={rp} no-failing-input-found')
    cov = dict(ctx.cov)
    cov.update({
        'obligations': ctx.obligations, 'discharged': ctx.discharged,
        'checker_cmd': 'tools/build_model.sh (py2v.py; coq_makefile; make -j16: every .v incl. all proofs) ; coqc theories/Properties/%s.v (Print Assumptions)' % ctx.pid,
        'trusted_base': TRUSTED_BASE_COMMON + ctx.assumptions_printed,
        'rule': level_text, 'explanation': explanation,
        'traces_validated_against_impl': ctx.cov['evaluations'],
        'broken': ctx.broken, 'notes': ctx.notes,
    })
    if extra_cov:
        cov.update(extra_cov)
    ev = {'property_id': ctx.pid, 'tier': ctx.tier, 'seed': ctx.seed, 'level': 'proof', 'coverage': cov,
          'assumptions': assumptions, 'wall_s': round(time.time() - ctx.t0, 2),
          'violations': len(ctx.violations) + (1 if (ctx.broken and not ctx.violations) else 0)}
    json.dump(ev, open(os.path.join(EVID, ctx.pid + '.json'), 'w'), indent=1, default=repr)
    for l in lines:
        print(l)
    print(f'{ctx.pid} {ctx.tier}: obligations {ctx.discharged}/{ctx.obligations}, '
          f'{ctx.cov["evaluations"]} cases ({ctx.cov["distinct_nontrivial"]} distinct non-trivial), '
          f'{len(ctx.violations)} violations, broken={ctx.broken}, {ev["wall_s"]} s')
    return status


def known_finding(ctx, pid, case, kind, detail):
    """True (and a KNOWN-FINDING line is queued) if this failure is one of the findings listed in
    known_findings.json; matching is structural (tools/corr/known.py), per listed id.  A report that lists several problems
    (exactness oracle, keep-going verification) may be the joint effect of several listed findings on one tree: it is known
    iff every single problem is explained by some listed finding."""
    parts = None
    if kind == 'exactness' and isinstance(detail, list) and len(detail) > 1:
        parts = [[p] for p in detail]
    elif kind == 'fresh-verify' and isinstance(detail, list) and len(detail) == 2 and detail[0] == 'ok' and isinstance(detail[1], list) \
            and len(detail[1]) == 2 and isinstance(detail[1][1], list) and len(detail[1][1]) > 1:
        parts = [['ok', [detail[1][0], [x]]] for x in detail[1][1]]
    if parts is not None:
        if known_finding_one(ctx, pid, case, kind, detail, quiet=False):
            return True
        if all(known_finding_one(ctx, pid, case, kind, d1, quiet=True) for d1 in parts):
            for d1 in parts:
                known_finding_one(ctx, pid, case, kind, d1, quiet=False)
            return True
        return False
    return known_finding_one(ctx, pid, case, kind, detail, quiet=False)


def known_finding_one(ctx, pid, case, kind, detail, quiet=False):
    import known
    for k in known_findings().get('known', []):
        if k.get('property') != pid and pid not in k.get('also', []):
            continue
        fn = known.MATCHERS.get(k.get('id'))
        if fn is not None and fn(case, kind, detail):
            line = f"{k['id']}: {k['what']}"
            if not quiet and line not in ctx.known:
                ctx.known.append(line)
            return True
    return False


class CaseTimeout(BaseException):
    """raised by the watchdog inside an implementation run that does not come back"""


import contextlib as _contextlib


@_contextlib.contextmanager
def watchdog(seconds=30):
    import signal

    def on_alarm(signum, frame):
        raise CaseTimeout()
    old = signal.signal(signal.SIGALRM, on_alarm)
    # repeating: code under test may swallow the exception once (a `return` inside `finally:`); it is raised again every 0.5 s
    signal.setitimer(signal.ITIMER_REAL, seconds, 0.5)
    try:
        yield
    finally:
        signal.setitimer(signal.ITIMER_REAL, 0)
        signal.signal(signal.SIGALRM, old)


@_contextlib.contextmanager
def local_tz(tz):
    """run a block with the process' local time zone set to tz (POSIX TZ strings need no tzdata: 'XYZ-3', 'EST5')"""
    import time
    old = os.environ.get('TZ')
    os.environ['TZ'] = tz
    time.tzset()
    try:
        yield
    finally:
        if old is None:
            os.environ.pop('TZ', None)
        else:
            os.environ['TZ'] = old
        time.tzset()
