"""Engine `text`: Manifest text / entry codec correspondence (serves C08, C09, C04, C18)."""
import itertools
import random

from sx import run_model

TAGS = ['TIMESTAMP', 'MANIFEST', 'IGNORE', 'DATA', 'DIST', 'EBUILD', 'MISC', 'AUX']
FILE_TAGS = ['MANIFEST', 'DATA', 'DIST', 'EBUILD', 'MISC', 'AUX']
HOSTILE = (list(' \t\\/.-_aAfF09xuU') + ['\x00', '\x07', '\x1f', '\x7f', '\x80', '\x85', '\xa0', ' ', ' ',
           ' ', ' ', ' ', ' ', '　', '﻿', '￿', '\U00010000', '\U0010ffff',
           'é', '٠', 'é', 'ß', '\x0b', '\x0c', '\x1c', '\x1d', '\x1e', '\r', '\n', '5', 'C', 'c', 'x20',
           # text that Unicode normalisation would change: decomposed letters, compatibility characters, conjoining jamo
           'e\u0301', '\u0301', 'A\u030a', '\u2126', '\u212b', '\uf900', '\u037e', '\u1100\u1161', '\ufb01', '\u00c5'])
HASHNAMES = ['MD5', 'SHA1', 'SHA256', 'SHA512', 'RMD160', 'WHIRLPOOL', 'BLAKE2B', 'BLAKE2S', 'SHA3_256',
             'SHA3_512', 'FOO', 'md5', '__size__', 'x', 'é']


def rpath(r, maxlen=8, allow_slash=True):
    n = r.randint(1, maxlen)
    p = ''.join(r.choice(HOSTILE) for _ in range(n))
    if not allow_slash:
        p = p.replace('/', '_')
    if p.startswith('/'):
        p = 'a' + p
    # long names with dozens of characters that need escaping (decided from the path itself: the random stream stays as it was)
    if sum(map(ord, p)) % 11 == 0:
        p = p * (5 + len(p) % 20)
    # names that end (or begin) like OpenPGP armor: a line ending in five dashes is an entry, not armor
    elif sum(map(ord, p)) % 13 == 0:
        p = p + '-----'
    elif sum(map(ord, p)) % 13 == 1:
        p = '-----' + p.replace('/', '_') + '-----'
    # a literal backslash followed by what looks like the rest of an escape: written as \x5C + that text, read back as itself
    elif sum(map(ord, p)) % 13 in (2, 3):
        p = p + '\\' + ['u0041', 'U00000041', 'x41', 'u00e9z', 'x5Cx41', 'U0001F600', 'u005C', 'x'][len(p) % 8] + ('' if sum(map(ord, p)) % 2 else 'b')
    return p


def rentry(r):
    k = r.random()
    if k < 0.08:
        y = r.choice([1, 2, 999, 1000, 1970, 2017, 9999, r.randint(1, 9999)])
        mo = r.randint(1, 12)
        d = r.randint(1, 28)
        return ['ts', [y, mo, d, r.randint(0, 23), r.randint(0, 59), r.randint(0, 59)]]
    if k < 0.2:
        return ['ign', rpath(r)]
    tag = r.choice(FILE_TAGS)
    p = rpath(r, allow_slash=(tag != 'DIST'))
    size = r.choice([0, 1, 5, 2**32, 2**64, 2**64 + 1, 10**30, r.randint(0, 10**6)])
    names = r.sample(HASHNAMES[:10], r.randint(0, 10))
    if r.random() < 0.1:
        # names outside the GLEP 74 list: the text format carries any name
        names = names + r.sample(['FOO', 'sha1', 'Sha512', 'X-Y', 'SHA384', '\u00dcn\u00ef'], r.randint(1, 2))
    def value():
        # digests as tools write them (lower-case hex), as other tools may (upper / mixed case), and arbitrary non-blank tokens
        k = r.random()
        abc = '0123456789abcdef' if k < 0.7 else '0123456789ABCDEF' if k < 0.82 else '0123456789abcdefABCDEF' if k < 0.9 \
            else 'GHXYZghxyz+/=_-' if k < 0.96 else '\u00c4\u00e9\u0130\u1e9e\u03a3\u03c2'
        return ''.join(r.choice(abc) for _ in range(r.choice([1, 8, 32])))
    cks = [[n, value()] for n in names]
    if tag == 'AUX':
        return ['file', tag, 'files/' + p, p, size, cks]
    return ['file', tag, p, '', size, cks]


def is_nontrivial_entry(e):
    import impl
    p = e[2] if e[0] == 'file' else (e[1] if e[0] == 'ign' else '')
    return isinstance(p, str) and impl.encode_path(p) != p


# --------------------------------------------------------------------------- malformed / grammar
def esc_forms(r):
    """escape sequences over the full value range incl. boundaries"""
    out = []
    for v in [0, 0x20, 0x2f, 0x5c, 0x7f, 0xff]:
        out += ['\\x%02X' % v, '\\x%02x' % v]
    for v in [0, 0x20, 0x2f, 0xd7ff, 0xd800, 0xdfff, 0xe000, 0xffff]:
        out += ['\\u%04X' % v]
    for v in [0, 0x2f, 0xffff, 0x10000, 0x10ffff, 0x110000, 0x7fffffff, 0x80000000, 0xffffffff, 0xd800]:
        out += ['\\U%08X' % v]
    out += ['\\', '\\x', '\\x5', '\\xg0', '\\u123', '\\U0000123', '\\y41', '\\\\', '\\x5C41', '\\u005C', '\\X41',
            '\\x4', '\\U0011FFFF', '\\u00e9', '\\U0001F600']
    out.append('\\x%02X' % r.randint(0, 255))
    out.append('\\u%04X' % r.randint(0, 0xffff))
    out.append('\\U%08X' % r.choice([r.randint(0, 0x10ffff), r.randint(0x110000, 0xffffffff)]))
    return out


SIZES_OK = ['0', '5', '12345678901234567890', '+5', '-0', '1_0', '٣', '007']
SIZES_BAD = ['', '-1', '-5', '0x10', '1.0', '--1', 'abc', '1__0', '_1', '1_', '+', '5a', '²', '1e3', '٣a', '-١']
TS_OK = ['2017-10-22T18:06:41Z', '0001-01-01T00:00:00Z', '9999-12-31T23:59:59Z', '2017-1-2T3:4:5Z',
         '2016-02-29T00:00:00Z', '2017-10-22t18:06:41z', '٢٠١٧-10-22T18:06:41Z']
TS_BAD = ['2017-10-22', '2017-10-22T18:06:41', '2017-13-01T00:00:00Z', '2017-02-30T00:00:00Z',
          '0000-01-01T00:00:00Z', '2017-10-22T24:00:00Z', '2017-10-22T18:06:60Z', '17-10-22T18:06:41Z',
          '2017-10-22T18:06:41ZZ', '2017-10-22 18:06:41Z', 'now', '2017-010-22T18:06:41Z', '1900-02-29T00:00:00Z',
          '2017-10-22T18:06:41+00:00', '']
PATH_OK = ['foo', 'a/b', 'tes\\x20t', 'é', '.hidden', 'foo\\x5Cbar', '\\u2000x', '\\U0001F600', 'a\\x2Fb', '-', 'Manifest']
PATH_BAD = ['/abs', '\\x2Fabs', '\\u002Fabs', '\\U0000002Fabs', 'tes\\t', 'tes\\', 'tes\\x5', 'tes\\u345t',
            '\\U00110000', '\\UFFFFFFFF', '\\U80000000', 'a\\', '\\xZZ']


def grammar_line(r):
    """one Manifest line with every field independently valid/invalid; returns text"""
    tag = r.choice(TAGS + ['FOO', 'data', 'DATA2', '', 'IGNORE '])
    bad = r.random() < 0.5
    fields = [tag] if tag else []
    if tag == 'TIMESTAMP':
        fields.append(r.choice(TS_BAD if (bad and r.random() < 0.7) else TS_OK))
        if r.random() < 0.15:
            fields.append(r.choice(['x', 'DATA', '5']))
        if r.random() < 0.1:
            fields = fields[:1]
    else:
        pb = bad and r.random() < 0.4
        p = r.choice(PATH_BAD if pb else PATH_OK)
        if tag == 'DIST' and not pb and r.random() < 0.7:
            p = p.replace('/', '_').replace('\\x2F', '_')
        if r.random() < 0.3:
            p = r.choice(esc_forms(r)) + (r.choice(['', 'x', '41']))
            if r.random() < 0.5:
                p = 'a' + p
        fields.append(p)
        if tag != 'IGNORE' or r.random() < 0.2:
            sb = bad and r.random() < 0.4
            fields.append(r.choice(SIZES_BAD if sb else SIZES_OK))
            nck = r.choice([0, 0, 1, 2, 3])
            for _ in range(nck):
                fields += [r.choice(HASHNAMES), r.choice(['00', 'abcdef', 'Z', '-'])]
            if bad and r.random() < 0.3:
                fields.append(r.choice(HASHNAMES))      # dangling checksum name
        if r.random() < 0.1:
            fields = fields[:r.randint(0, len(fields))]
    seps = [r.choice([' ', ' ', ' ', '  ', '\t', ' ', '\x0b', '\xa0 ']) for _ in fields]
    line = r.choice(['', '', '', ' ', '\t']) + ''.join(f + s for f, s in zip(fields, seps)).rstrip(' ') \
        + r.choice(['', '', ' ', '\t'])
    return line.replace('\n', ' ').replace('\r', ' ')


TOKENS = ['DATA', 'IGNORE', 'TIMESTAMP', 'DIST', 'AUX', 'foo', 'a/b', '/x', '5', '-1', 'SHA1', 'ab', '2017-10-22T18:06:41Z',
          '\\x2Fq']


def token_lines(maxlen):
    for n in range(0, maxlen + 1):
        for combo in itertools.product(TOKENS, repeat=n):
            yield ' '.join(combo)


def valid_manifest(r, n=None):
    import impl
    n = r.randint(0, 6) if n is None else n
    es = [rentry(r) for _ in range(n)]
    d = impl.dump(es, 0)
    return es, (d[1] if d[0] == 'ok' else '')


def mutate_text(r, t):
    if not t:
        return r.choice(['\n', ' ', 'DATA', '\\'])
    k = r.randint(0, 7)
    i = r.randrange(len(t))
    if k == 0:
        return t[:i] + t[i + 1:]
    if k == 1:
        return t[:i] + r.choice(HOSTILE + ['\n', '\r', '\r\n', ' ']) + t[i:]
    if k == 2:
        return t[:i] + r.choice(HOSTILE) + t[i + 1:]
    if k == 3:
        ls = t.split('\n')
        j = r.randrange(len(ls))
        return '\n'.join(ls[:j] + [ls[j]] + ls[j:])
    if k == 4:
        ls = t.split('\n')
        r.shuffle(ls)
        return '\n'.join(ls)
    if k == 5:
        return t.replace('\n', r.choice(['\r\n', '\r', '\n\n', ' \n']))
    if k == 6:
        return t[:i] + r.choice(esc_forms(r)) + t[i:]
    return t[:i] + ' ' + r.choice(TOKENS) + ' ' + t[i:]


# --------------------------------------------------------------------------- comparisons
def compare(ctx, engine, reqs, impl_results, label, nontrivial=None):
    """run the model on reqs, compare with implementation results; returns list of disagreements"""
    model = run_model(reqs)
    dis = []
    for rq, mi, ii in zip(reqs, model, impl_results):
        if mi != ii:
            dis.append({'request': rq, 'model': mi, 'impl': ii, 'where': label})
    nt = nontrivial if nontrivial is not None else len(set(map(repr, reqs)))
    ctx.count(engine + ':' + label, len(reqs), nt,
              samples=[{'request': reqs[0], 'reply': impl_results[0]}] if reqs else [])
    return dis, model
