"""Checks for C08 (round trip) and C09 (rejection)."""
import os
import tempfile

import engine_text as T
import impl
from sx import run_model


def lines_wellformed(text, n_entries):
    """each entry occupies exactly one line whose fields are separated by single spaces"""
    if text == '':
        return n_entries == 0
    if not text.endswith('\n'):
        return False
    ls = text[:-1].split('\n')
    if len(ls) != n_entries:
        return False
    for l in ls:
        fields = l.split(' ')
        if any(f == '' for f in fields):
            return False
        if any(c.isspace() for f in fields for c in f):
            return False
        if any(ord(c) < 32 or 0x7f <= ord(c) <= 0x9f for c in l):
            return False
    return True


def canon(es):
    """entries with checksum dicts order-normalised (Python dict equality ignores order)"""
    return [[e[0], e[1], e[2], e[3], e[4], sorted(e[5])] if e[0] == 'file' else e for e in es]


def same_loaded(back, es):
    return back[0] == 'ok' and canon(back[1][0]) == canon(es) and back[1][1] == []


def has_surrogate(x):
    return any(0xD800 <= ord(c) <= 0xDFFF for c in repr_str(x))


def repr_str(x):
    if isinstance(x, str):
        return x
    if isinstance(x, list):
        return ''.join(repr_str(y) for y in x)
    return ''


def c08(ctx):
    quick = ctx.tier == 'quick'
    r = ctx.rng('c08')
    # 1. exhaustive code points: model vs implementation, and implementation round trip in context
    step = 65536
    sweep = run_model([['encode_sweep', lo, step] for lo in range(0, 0x110000, step)], jobs=16)
    model_map = {}
    for part in sweep:
        for c, e in part[0]:
            model_map[c] = e
        if not part[1]:
            ctx.broke('model: decode_path (encode_path [c]) <> [c] for some c (theorem C08_path would be false)')
    bad = 0
    import gemato.manifest as gm
    PE = gm.ManifestPathEntry
    dec = lambda s: PE.escape_seq_re.sub(PE.decode_char, s)
    for c in range(0x110000):
        ch = chr(c)
        e = PE(ch).encoded_path
        want = model_map.get(c, ch)
        if e != want:
            bad += 1
            ctx.violation('correspondence', f'encoded_path of U+{c:04X}: implementation {e!r}, model {want!r}',
                          {'op': 'encode_path', 'path': ch, 'impl': e, 'model': want})
            if bad > 5:
                break
        variants = (ch, 'A' + ch + 'B', '5C' + ch + '41', 'x5C' + ch + 'u0041') if (not quick or c < 0x3000 or c % 17 == 0 or c > 0x10ff00) else (ch, 'A' + ch + 'B')
        for v in variants:
            try:
                ev = PE(v).encoded_path
                ok = dec(ev) == v and not any(x.isspace() or x == '\\' for x in ev.replace('\\x', '').replace('\\u', '').replace('\\U', '')) \
                    and ev == ''.join(model_map.get(ord(x), x) for x in v)
            except Exception as ex:
                ok = False
                ev = repr(ex)
            if not ok:
                bad += 1
                ctx.violation('spec', f'path {v!r} does not round-trip through encode/decode (encoded {ev!r})',
                              {'op': 'path round trip', 'path': v, 'encoded': ev})
                break
        if bad > 5:
            break
    ctx.count('text:codepoints', 0x110000, 0x110000, samples=[{'codepoint': 0x2000, 'encoded': PE(chr(0x2000)).encoded_path}],
              exhaustive=True, dist={'escaped_code_points': len(model_map)})

    # 2. random entry lists: dump/load round trip on the implementation, and model agreement
    n = 1500 if quick else 20000
    cases = []
    for i in range(n):
        es = [T.rentry(r) for _ in range(r.randint(0, 6))]
        cases.append(es)
    # two Manifests whose text is well above every buffer size (hundreds of entries, > 64 KiB)
    r_big = __import__('random').Random(ctx.seed if isinstance(ctx.seed, int) else 1)
    for k in (450, 900):
        cases.append([T.rentry(r_big) for _ in range(k)])
    for sort in (0, 1):
        reqs = [['dump', es, sort] for es in cases]
        im = [impl.dump(es, sort) for es in cases]
        dis, _ = T.compare(ctx, 'text', reqs, im, f'dump(sort={sort})',
                           nontrivial=sum(1 for es in cases if any(T.is_nontrivial_entry(e) for e in es)))
        for d in dis[:5]:
            ctx.violation('correspondence', 'dump differs between model and implementation', d)
        if sort == 0:
            texts = [x[1] if x[0] == 'ok' else None for x in im]
    # the written text does not depend on the local time zone of the process (a TIMESTAMP is UTC text, not an instant to convert)
    import common
    tzn = 0
    for tz in ('XYZ-3', 'EST5', 'JST-9'):
        with common.local_tz(tz):
            for es, t in list(zip(cases, texts))[:400 if quick else 4000]:
                if t is None or not any(e[0] == 'ts' for e in es):
                    continue
                tzn += 1
                x = impl.dump(es, 0)
                if x[0] != 'ok' or x[1] != t:
                    ctx.violation('spec', f'with the local time zone {tz} the entries are written differently than under UTC: {str(x)[:160]} instead of {t[:120]!r}',
                                  {'entries': es, 'tz': tz, 'text_utc': t, 'written': x})
                    break
    ctx.cov['engines'].setdefault('text:dump(sort=0)', {})['dumps_repeated_under_other_time_zones'] = tzn
    loads = []
    for es, t in zip(cases, texts):
        if t is None:
            ctx.violation('spec', 'dump of a well-formed entry list raised', {'entries': es})
            continue
        if not lines_wellformed(t, len(es)):
            ctx.violation('spec', 'dumped text is not one single-space separated line per entry',
                          {'entries': es, 'text': t})
        back = impl.load(t, 0)
        loads.append((t, back))
        if not same_loaded(back, es):
            ctx.violation('spec', 'load(dump(entries)) != entries', {'entries': es, 'text': t, 'loaded': back})
    reqs = [['load', t, 0] for t, _ in loads]
    dis, _ = T.compare(ctx, 'text', reqs, [b for _, b in loads], 'load(dump)')
    for d in dis[:5]:
        ctx.violation('correspondence', 'load differs between model and implementation', d)

    # 3. canonical fixed point on accepted (possibly non-canonical) texts
    texts = []
    for i in range(2500 if quick else 40000):
        k = r.random()
        if k < 0.6:
            texts.append('\n'.join(T.grammar_line(r) for _ in range(r.randint(1, 3))) + r.choice(['\n', '']))
        else:
            _, t = T.valid_manifest(r)
            for _ in range(r.randint(1, 2)):
                t = T.mutate_text(r, t)
            texts.append(t)
    texts = [t for t in texts if not has_surrogate(t)]
    im = [impl.load(t, 0) for t in texts]
    dis, _ = T.compare(ctx, 'text', [['load', t, 0] for t in texts], im, 'load(generated)',
                       nontrivial=len({t for t, x in zip(texts, im) if x[0] == 'ok' and x[1][0]}))
    for d in dis[:5]:
        ctx.violation('correspondence', 'load differs between model and implementation', d)
    acc = 0
    for t, x in zip(texts, im):
        if x[0] != 'ok':
            continue
        es = x[1][0]
        acc += 1
        d1 = impl.dump(es, 0)
        if d1[0] != 'ok':
            if has_surrogate(es):
                continue
            ctx.violation('spec', 'entries parsed from accepted text cannot be written', {'text': t, 'dump': d1})
            continue
        if has_surrogate(d1[1]):
            continue
        l2 = impl.load(d1[1], 0)
        if not same_loaded(l2, es):
            ctx.violation('spec', 'accepted text is not a canonical fixed point: load(dump(load(t))) != load(t)',
                          {'text': t, 'entries': es, 'dumped': d1[1], 'reloaded': l2})
            continue
        d2 = impl.dump(l2[1][0], 0)
        if d2 != d1:
            ctx.violation('spec', 'dump(load(dump(es))) != dump(es)', {'text': t})
    ctx.cov['engines'].setdefault('text:load(generated)', {})['accepted_texts'] = acc

    # 4. through every compression format, on disk
    import gemato.compression as gc
    import gemato.manifest as gmm
    td = tempfile.mkdtemp(prefix='gv-c08-')
    try:
        k = 0
        for es, t in list(zip(cases, [x[0] for x in loads]))[:(60 if quick else 600)]:
            if has_surrogate(t):
                continue
            for suf in ('', '.gz', '.bz2', '.lzma', '.xz'):
                p = os.path.join(td, 'Manifest' + suf)
                m = gmm.ManifestFile()
                m.entries = [impl.sx_entry(e) for e in es]
                with gc.open_potentially_compressed_path(p, 'w', encoding='utf8') as f:
                    m.dump(f, sign_openpgp=False)
                m2 = gmm.ManifestFile()
                try:
                    with gc.open_potentially_compressed_path(p, 'r', encoding='utf8') as f:
                        m2.load(f, verify_openpgp=False)
                    got = [impl.entry_sx(e) for e in m2.entries]
                except Exception as e:
                    got = ['raised', repr(e)[:160]]         # what was written is not even read back
                os.unlink(p)
                k += 1
                if canon(got) != canon(es):
                    ctx.violation('spec', f'round trip through {suf or "plain"} file differs', {'entries': es, 'got': got})
        # ... and what the parser makes of a text does not depend on how the file is stored: non-canonical texts (CR LF and lone CR line
        #     ends, signed frames, blank lines) written byte for byte under every compressed name load exactly as under the plain name
        import bz2 as _bz2
        import gzip as _gzip
        import lzma as _lzma
        enc = {'': lambda b: b, '.gz': _gzip.compress, '.bz2': _bz2.compress, '.lzma': lambda b: _lzma.compress(b, format=_lzma.FORMAT_ALONE), '.xz': _lzma.compress}
        body = 'DATA a 0\nIGNORE x\n\nDIST d.tar 3 SHA1 00\n'
        frame = '-----BEGIN PGP SIGNED MESSAGE-----\nHash: SHA512\n\n' + body + '-----BEGIN PGP SIGNATURE-----\n\nAAAA\n-----END PGP SIGNATURE-----\n'
        odd = [body, frame, body.replace('\n', '\r\n'), frame.replace('\n', '\r\n'), body.replace('\n', '\r'), frame.replace('\n', '\r'),
               'DATA a 0\r\nDATA b 1\n', 'DATA a 0 \r\n\r\n', frame.replace('\n\nDATA', '\r\n\r\nDATA'), 'DATA a\x0c0\n', 'DATA a 0\x1c\n', 'DATA a 0']
        odd += [t for t, x in list(zip(texts, im))[:(40 if quick else 400)] if not has_surrogate(t)]
        kk = 0
        for t in odd:
            res = {}
            for suf, comp in enc.items():
                p = os.path.join(td, 'Manifest' + suf)
                with open(p, 'wb') as f:
                    f.write(comp(t.encode('utf8')))
                m2 = gmm.ManifestFile()
                try:
                    with gc.open_potentially_compressed_path(p, 'r', encoding='utf8') as f:
                        m2.load(f, verify_openpgp=False)
                    res[suf] = ['ok', [impl.entry_sx(e) for e in m2.entries]]
                except Exception as e:
                    res[suf] = ['err', type(e).__name__]
                os.unlink(p)
                kk += 1
            if any(v != res[''] for v in res.values()):
                ctx.violation('spec', f'the same text loads differently depending on the compression of the file: {dict((k2 or "plain", str(v)[:60]) for k2, v in res.items())}',
                              {'text': t, 'results': {k2 or 'plain': v for k2, v in res.items()}})
        ctx.count('text:files', k + kk, k + kk, dist={'formats': 5, 'non_canonical_texts_stored_under_each_format': len(odd)})
    finally:
        import shutil
        shutil.rmtree(td, ignore_errors=True)
    # 5. entry objects that are written, edited in place and written again: the second text is that of the edited entries
    import io
    import datetime
    k = 0
    for _ in range(600 if quick else 8000):
        es = [T.rentry(r) for _ in range(r.randint(1, 4))]
        objs = [impl.sx_entry(x) for x in es]
        m = gm.ManifestFile()
        m.entries = objs
        m.dump(io.StringIO(), sign_openpgp=False)
        es2 = []
        for x, o in zip(es, objs):
            y = T.rentry(r)
            while y[0] != x[0] or (x[0] == 'file' and (y[1] == 'AUX') != (x[1] == 'AUX')) or (x[0] == 'file' and (y[1] == 'DIST') != (x[1] == 'DIST')):
                y = T.rentry(r)
            if x[0] == 'ts':
                o.ts = datetime.datetime(*y[1])
                es2.append(y)
            elif x[0] == 'ign':
                o.path = y[1]
                es2.append(y)
            else:
                o.path = y[2]
                if x[1] == 'AUX':
                    o.aux_path = y[3]
                o.size = y[4]
                o.checksums = {a: b for a, b in y[5]}
                es2.append(['file', x[1], y[2], y[3], y[4], y[5]])
        f2 = io.StringIO()
        m.dump(f2, sign_openpgp=False)
        fresh = gm.ManifestFile()
        fresh.entries = [impl.sx_entry(y) for y in es2]
        f3 = io.StringIO()
        fresh.dump(f3, sign_openpgp=False)
        k += 1
        if f2.getvalue() != f3.getvalue():
            ctx.violation('spec', 'entries edited in place after a first dump are not written as they are now',
                          {'entries_at_first_dump': es, 'entries_now': es2, 'written': f2.getvalue()[:400], 'expected': f3.getvalue()[:400]})
    ctx.count('text:rewrite-after-edit', k, k)


def c09(ctx):
    quick = ctx.tier == 'quick'
    r = ctx.rng('c09')
    texts = []
    kinds = {}

    def add(kind, t):
        kinds[kind] = kinds.get(kind, 0) + 1
        texts.append(t)
    for i in range(6000 if quick else 80000):
        add('grammar', T.grammar_line(r) + r.choice(['\n', '', '\r\n']))
    for i in range(1000 if quick else 10000):
        add('grammar-multi', '\n'.join(T.grammar_line(r) for _ in range(r.randint(2, 5))) + '\n')
    for t in T.token_lines(3 if quick else 4):
        add('tokens', t + '\n')
    for i in range(2000 if quick else 30000):
        _, t = T.valid_manifest(r)
        for _ in range(r.randint(1, 3)):
            t = T.mutate_text(r, t)
        add('mutation', t)
    # dash-escaped lines ("- " prefix) outside a signed block: the dash is not a tag
    for i in range(600 if quick else 6000):
        _, t = T.valid_manifest(r, n=r.randint(1, 4))
        ls = t.split('\n')
        j = r.randrange(max(1, len(ls) - 1))
        ls[j] = r.choice(['- ', '- ', '-  ', '- - ', '-']) + ls[j]
        add('dash-prefixed', '\n'.join(ls))
    for tail in ['- \n', '- DATA x 0\n', '-\n', '- -\n']:
        add('dash-after-signature', '-----BEGIN PGP SIGNED MESSAGE-----\nHash: SHA512\n\nDATA a 0\n-----BEGIN PGP SIGNATURE-----\n\nAAAA\n-----END PGP SIGNATURE-----\n' + tail)
    # armor-like lines inside the signature block of a signed frame: malformed, never skipped
    for inner in ['-----BEGIN PGP SIGNED MESSAGE-----', '-----END PGP SIGNATURE----- ', '-----BEGIN PGP SIGNATURE-----', '-----FOO-----',
                  '-----END PGP SIGNATURE-----\t', '----- -----']:
        for pre in ('', 'iQEz\n'):
            add('armor-in-signature', '-----BEGIN PGP SIGNED MESSAGE-----\nHash: SHA512\n\nDATA a 0\n-----BEGIN PGP SIGNATURE-----\n\n' + pre + inner
                + '\nAAAA\n-----END PGP SIGNATURE-----\n')
    # dash-escaped armor lines inside the signed part: they are text (a malformed entry), never the start of the signature block
    for inner in ['- -----BEGIN PGP SIGNATURE-----', '- -----END PGP SIGNATURE-----', '- -----BEGIN PGP SIGNED MESSAGE-----', '- - DATA c 2',
                  '- -----FOO-----', '-  -----BEGIN PGP SIGNATURE-----']:
        for before in ('', 'DATA a 0\n'):
            for after in ('', 'DATA z 9\n', 'DATA z 9\n-----BEGIN PGP SIGNATURE-----\n\nAAAA\n'):
                add('escaped-armor-in-signed-part', '-----BEGIN PGP SIGNED MESSAGE-----\nHash: SHA512\n\n' + before + inner + '\n' + after
                    + '-----END PGP SIGNATURE-----\n')
                add('escaped-armor-in-signed-part', '-----BEGIN PGP SIGNED MESSAGE-----\nHash: SHA512\n\n' + before + inner + '\n' + after
                    + '-----BEGIN PGP SIGNATURE-----\n\nAAAA\n-----END PGP SIGNATURE-----\n')
    # the OpenPGP frame with pieces missing or out of order, loaded without verification (verify -P, discovery): every sequence of up to five
    # lines over the frame's line classes - e.g. entries that follow the armor headers without the empty separator line are headers, the
    # text then ends "before the signature"
    import itertools
    frame = ['-----BEGIN PGP SIGNED MESSAGE-----', 'Hash: SHA256', '', 'DATA a 0', '-----BEGIN PGP SIGNATURE-----', 'AAAA', '-----END PGP SIGNATURE-----']
    for n in range(1, 6 if quick else 7):
        for seq in itertools.product(frame, repeat=n):
            if seq[0] != frame[0] and r.random() < 0.8:
                continue           # (texts that do not start with the BEGIN line are sampled)
            add('frame-sequences', '\n'.join(seq) + '\n')
    # every escape form over its value range
    for v in range(256):
        add('esc-x', 'DATA a\\x%02X 0\n' % v)
        add('esc-x', 'IGNORE \\x%02xb\n' % v)
    rng_u = range(0x10000) if not quick else list(range(0, 0x10000, 97)) + list(range(0xD7F0, 0xE010))
    for v in rng_u:
        add('esc-u', 'DATA \\u%04X 0\n' % v)
    for v in [0, 0x2f, 0xd800, 0xffff, 0x10000, 0x10fffe, 0x10ffff, 0x110000, 0x110001, 0x7fffffff, 0x80000000,
              0xfffffffe, 0xffffffff] + [r.randint(0, 0xffffffff) for _ in range(300 if quick else 100000)] \
            + [r.randint(0, 0x110000) for _ in range(300 if quick else 20000)]:
        add('esc-U', '%s \\U%08X%s 0\n' % (r.choice(['DATA', 'AUX', 'IGNORE', 'MANIFEST', 'DIST']), v, r.choice(['', 'x'])))
    # escape sequences written with decimal digits that are not ASCII (Arabic-Indic, full-width, Devanagari, mathematical): not hex digits
    for dg in ['\u0663', '\uff14', '\u0967', '\U0001d7d7', '\u0660', '\u06f5']:
        for tag in ('DATA', 'IGNORE', 'DIST'):
            tail = '' if tag == 'IGNORE' else ' 0'
            add('esc-nonascii-digits', '%s a\\x%s%s%s\n' % (tag, dg, dg, tail))
            add('esc-nonascii-digits', '%s a\\x4%s%s\n' % (tag, dg, tail))
            add('esc-nonascii-digits', '%s \\u%s%s\n' % (tag, dg * 4, tail))
            add('esc-nonascii-digits', '%s \\u00%s1b%s\n' % (tag, dg, tail))
            add('esc-nonascii-digits', '%s \\U%s%s\n' % (tag, dg * 8, tail))
            add('esc-nonascii-digits', '%s \\U0000004%s%s\n' % (tag, dg, tail))
    texts = [t for t in texts if not has_surrogate(t)]
    im = [impl.load(t, 0) for t in texts]
    rej = sum(1 for x in im if x[0] == 'err')
    dis, model = T.compare(ctx, 'text', [['load', t, 0] for t in texts], im, 'load',
                           nontrivial=len(set(texts)))
    ctx.cov['engines']['text:load']['distribution'] = dict(kinds, rejected=rej, accepted=len(im) - rej)
    # spec on the implementation's own output
    for t, x in zip(texts, im):
        if x[0] == 'err':
            if x[1][0] not in ('ManifestSyntaxError', 'ManifestUnsignedData'):
                ctx.violation('spec', f'exception {x[1]} escapes the parser', {'text': t, 'impl': x})
        elif x[0] == 'ok':
            es = x[1][0]
            ls = t.replace('\r\n', '\n').replace('\r', '\n').split('\n')
            if '-----BEGIN PGP SIGNED MESSAGE-----' in ls[:-1]:
                # an accepted signed frame: the entries are the non-blank lines of the signed part (between the first whitespace-only
                # line after the BEGIN line and the BEGIN-SIGNATURE line); armor headers and the signature block are not entries
                try:
                    b0 = ls.index('-----BEGIN PGP SIGNED MESSAGE-----')
                    sep = next(k for k in range(b0 + 1, len(ls)) if not ls[k].strip())
                    sb = ls.index('-----BEGIN PGP SIGNATURE-----', sep + 1)
                    ls = ls[sep + 1:sb]
                except (StopIteration, ValueError):
                    ctx.violation('spec', 'a text with a BEGIN-SIGNED line but without a complete frame was accepted', {'text': t, 'entries': es})
                    continue
            nonblank = sum(1 for l in ls if l.strip())
            if len(es) != nonblank:
                ctx.violation('spec', 'a line was skipped or split', {'text': t, 'entries': es})
            # field counts of the accepted lines (signed Manifests aside): TIMESTAMP / IGNORE exactly one value,
            # file entries a path, a size and name/value pairs
            if '-----BEGIN' not in t:
                for l in t.replace('\r\n', '\n').replace('\r', '\n').split('\n'):
                    f = l.split()
                    if not f:
                        continue
                    if f[0] not in ('TIMESTAMP', 'IGNORE', 'DATA', 'MISC', 'EBUILD', 'AUX', 'MANIFEST', 'DIST'):
                        ctx.violation('spec', f'a line whose first field {f[0]!r} is not a tag was accepted', {'text': t, 'entries': es})
                    elif f[0] in ('TIMESTAMP', 'IGNORE') and len(f) != 2:
                        ctx.violation('spec', f'a {f[0]} line with {len(f) - 1} values was accepted', {'text': t, 'entries': es})
                    elif f[0] in ('DATA', 'MISC', 'EBUILD', 'AUX', 'MANIFEST', 'DIST') and (len(f) < 3 or len(f) % 2 == 0):
                        ctx.violation('spec', f'a {f[0]} line with {len(f) - 1} values was accepted', {'text': t, 'entries': es})
            for e in es:
                p = e[1] if e[0] == 'ign' else (e[3] if (e[0] == 'file' and e[1] == 'AUX') else (e[2] if e[0] == 'file' else 'x'))
                if p == '' or p.startswith('/'):
                    ctx.violation('spec', 'empty or absolute path accepted', {'text': t, 'entries': es})
                if e[0] == 'file' and e[4] < 0:
                    ctx.violation('spec', 'negative size accepted', {'text': t})
                if e[0] == 'file' and e[1] == 'DIST' and '/' in e[2]:
                    ctx.violation('spec', 'DIST with a slash accepted', {'text': t})
        else:
            ctx.violation('spec', 'implementation inconsistent', {'text': t, 'impl': x})
    for d in dis[:8]:
        if d['model'][0] != d['impl'][0]:
            # the accept / reject verdict differs: the model is the reference (theorems of Properties/C09.v)
            ctx.violation('spec', f'the implementation {"accepts" if d["impl"][0] == "ok" else "rejects"} a text the reference parser '
                          f'{"rejects" if d["impl"][0] == "ok" else "accepts"}: {d["request"][1]!r}', d)
        else:
            ctx.violation('correspondence', 'load differs between model and implementation', d)
    # unit level: from_list on field lists (bypasses the line splitter)
    fl = []
    for i in range(3000 if quick else 40000):
        f = T.grammar_line(r).split()
        if f:
            fl.append(f)
    fl = [f for f in fl if not has_surrogate(f)]
    im2 = [impl.from_list(f) for f in fl]
    dis2, _ = T.compare(ctx, 'text', [['from_list', f] for f in fl], im2, 'from_list')
    for d in dis2[:5]:
        ctx.violation('correspondence', 'from_list differs between model and implementation', d)
