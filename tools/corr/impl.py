"""Implementation side of the correspondence: runs gemato imported from the repository under
test (REPO, default /repo) in-process and renders results in the same shape as the model's
replies (see coq/theories/Exec/Sx.v)."""
import datetime
import io
import os
import sys

REPO = os.environ.get('GEMATO_REPO', '/repo')
if REPO not in sys.path:
    sys.path.insert(0, REPO)

import gemato.exceptions as gx          # noqa: E402
import gemato.manifest as gm            # noqa: E402

INTERNAL = [(UnicodeError, 'UnicodeError'), (AttributeError, 'AttributeError'), (KeyError, 'KeyError'),
            (IndexError, 'IndexError'), (AssertionError, 'AssertionError'), (OverflowError, 'OverflowError'),
            (ValueError, 'ValueError'), (TypeError, 'TypeError'),
            (NotImplementedError, 'NotImplementedError')]
ERRNO_NAMES = {2: 'ENOENT', 13: 'EACCES', 1: 'EPERM', 5: 'EIO', 12: 'ENOMEM', 40: 'ELOOP', 20: 'ENOTDIR',
               21: 'EISDIR', 6: 'ENXIO', 95: 'EOPNOTSUPP', 24: 'EMFILE', 116: 'ESTALE'}


def exc_sx(e, root=None):
    """exception -> ['err', [...]] in the model's vocabulary (no message texts)."""
    def rel(p):
        p = str(p)
        if root is not None:
            if p == root:
                return ''
            if p.startswith(root + '/'):
                return p[len(root) + 1:]
        return p
    n = type(e).__name__
    if isinstance(e, gx.ManifestMismatch):
        return ['err', ['ManifestMismatch', rel(e.path), [str(d[0]) for d in e.diff]]]
    if isinstance(e, gx.ManifestIncompatibleEntry):
        return ['err', ['ManifestIncompatibleEntry', e.e1.path]]
    if isinstance(e, (gx.ManifestCrossDevice, gx.ManifestSymlinkLoop)):
        return ['err', [n, rel(e.path)]]
    if isinstance(e, gx.ManifestInvalidPath):
        return ['err', ['ManifestInvalidPath', rel(e.path), str(e.detail[0])]]
    if isinstance(e, gx.UnsupportedHash):
        return ['err', ['UnsupportedHash', e.hash_name]]
    if isinstance(e, gx.UnsupportedCompression):
        return ['err', ['UnsupportedCompression', e.suffix]]
    if isinstance(e, gx.GematoException):
        return ['err', [n]]
    if isinstance(e, OSError):
        if e.errno is None:
            return ['err', ['BadCompressedFile']]
        return ['err', ['OSError', ERRNO_NAMES.get(e.errno, e.errno)]]
    import lzma
    import zlib
    if isinstance(e, lzma.LZMAError):
        return ['err', ['BadCompressedFile']]
    if isinstance(e, (EOFError, zlib.error)):
        return ['err', ['CodecInternalError']]
    for cls, name in INTERNAL:
        if isinstance(e, cls):
            return ['err', ['Internal', name]]
    return ['err', ['Internal', n]]


def entry_sx(e):
    if e.tag == 'TIMESTAMP':
        t = e.ts
        return ['ts', [t.year, t.month, t.day, t.hour, t.minute, t.second]]
    if e.tag == 'IGNORE':
        return ['ign', e.path]
    aux = e.aux_path if e.tag == 'AUX' else ''
    return ['file', e.tag, e.path, aux, e.size, [[k, v] for k, v in e.checksums.items()]]


def sx_entry(x):
    if x[0] == 'ts':
        return gm.ManifestEntryTIMESTAMP(datetime.datetime(*x[1]))
    if x[0] == 'ign':
        return gm.ManifestEntryIGNORE(x[1])
    _, tag, path, aux, size, cks = x
    d = {k: v for k, v in cks}
    if tag == 'AUX':
        e = gm.ManifestEntryAUX(aux, size, d)
        e.path = path
        return e
    return gm.MANIFEST_TAG_MAPPING[tag](path, size, d)


class RecordingEnv:
    """openpgp_env stand-in: records exactly what ManifestFile.load hands to verify_file."""
    def __init__(self):
        self.texts = []

    def verify_file(self, f):
        self.texts.append(f.read())
        return 'SIG'


def text_file(text):
    return io.TextIOWrapper(io.BytesIO(text.encode('utf8')), encoding='utf8')


def load(text, verify):
    m = gm.ManifestFile()
    env = RecordingEnv()
    try:
        with text_file(text) as f:
            m.load(f, verify_openpgp=bool(verify), openpgp_env=env)
    except Exception as e:
        return exc_sx(e)
    pgp = [env.texts[0]] if env.texts else []
    if bool(m.openpgp_signed) != bool(env.texts):
        return ['impl-inconsistent', 'openpgp_signed', bool(m.openpgp_signed), len(env.texts)]
    return ['ok', [[entry_sx(e) for e in m.entries], pgp]]


def dump(entries, sort):
    m = gm.ManifestFile()
    try:
        m.entries = [sx_entry(x) for x in entries]
        f = io.StringIO()
        m.dump(f, sign_openpgp=False, sort=bool(sort))
    except Exception as e:
        return exc_sx(e)
    return ['ok', f.getvalue()]


def from_list(fields):
    try:
        cls = gm.MANIFEST_TAG_MAPPING[fields[0]]
    except KeyError:
        return ['err', ['KeyError']]
    except IndexError:
        return ['err', ['IndexError']]
    try:
        return ['ok', entry_sx(cls.from_list(list(fields)))]
    except Exception as e:
        return exc_sx(e)


def to_list(x):
    try:
        return ['ok', [str(v) for v in sx_entry(x).to_list()]]
    except Exception as e:
        return exc_sx(e)


def decode_path(s):
    try:
        return ['ok', gm.ManifestPathEntry.escape_seq_re.sub(gm.ManifestPathEntry.decode_char, s)]
    except Exception as e:
        return exc_sx(e)


def encode_path(s):
    return gm.ManifestPathEntry(s).encoded_path
