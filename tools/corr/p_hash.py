"""Check for C17: digests and sizes are those of the whole content."""
import hashlib
import io
import os
import subprocess
import tempfile

import impl
from sx import run_model

# GLEP 74 names -> the algorithm each denotes, as hashlib calls it (written down here, not taken from gemato)
MANIFEST_TO_LIB = {'MD5': 'md5', 'SHA1': 'sha1', 'SHA256': 'sha256', 'SHA512': 'sha512', 'RMD160': 'ripemd160', 'WHIRLPOOL': 'whirlpool',
                   'BLAKE2B': 'blake2b', 'BLAKE2S': 'blake2s', 'SHA3_256': 'sha3_256', 'SHA3_512': 'sha3_512'}
MANIFEST_NAMES = ['MD5', 'SHA1', 'SHA256', 'SHA512', 'RMD160', 'WHIRLPOOL', 'BLAKE2B', 'BLAKE2S', 'SHA3_256', 'SHA3_512']


class SchedFile:
    """file object honouring the read()/read1() contract with a scheduled sequence of short reads"""
    def __init__(self, data, cuts):
        self.chunks = [data[a:b] for a, b in zip([0] + cuts, cuts + [len(data)]) if b > a]
        self.served = []

    def read1(self, n=-1):
        if not self.chunks:
            return b''
        c = self.chunks[0]
        if n is not None and 0 <= n < len(c):
            self.chunks[0] = c[n:]
            c = c[:n]
        else:
            self.chunks.pop(0)
        self.served.append(c)
        return c

    def read(self, n=-1):
        out = b''.join(self.chunks)
        self.chunks = []
        return out


class RawSched(io.RawIOBase):
    """raw stream returning short reads, to be wrapped in a real io.BufferedReader"""
    def __init__(self, data, cuts):
        self.chunks = [data[a:b] for a, b in zip([0] + cuts, cuts + [len(data)]) if b > a]

    def readable(self):
        return True

    def readinto(self, b):
        if not self.chunks:
            return 0
        c = self.chunks[0]
        n = min(len(b), len(c))
        b[:n] = c[:n]
        if n == len(c):
            self.chunks.pop(0)
        else:
            self.chunks[0] = c[n:]
        return n


def ref_digest(name, data):
    kw = {}
    h = hashlib.new(name)
    h.update(data)
    if name.startswith('shake_'):
        return None
    return h.hexdigest()


def c17(ctx):
    import gemato.hash as gh
    import gemato.verify as gv
    quick = ctx.tier == 'quick'
    r = ctx.rng('c17')
    avail = sorted(n for n in hashlib.algorithms_available if not n.startswith('shake_'))
    lengths = list(range(0, 301)) + [65534, 65535, 65536, 65537, 65538] + [1048574, 1048575, 1048576, 1048577, 1048578]
    lengths += [r.randint(301, 200000) for _ in range(6 if quick else 60)] + [131072, 196608 + 5]
    if not quick:
        lengths += [r.randint(1048579, 3000000) for _ in range(6)]
    base = bytes(r.getrandbits(8) for _ in range(4096))
    big = (base * (3100000 // 4096 + 1))
    cases = []
    for ln in lengths:
        off = r.randrange(4096)
        data = big[off:off + ln]
        hints = sorted({0, ln, max(0, ln - 1), ln + 1, ln // 2, 2 * ln + 7, 1048575, 1048576})
        if ln > 400:
            hints = sorted({0, ln, ln + 1, 5})
        for hint in hints:
            k = r.random()
            if ln == 0 or k < 0.2:
                cuts = []
            elif k < 0.5:
                cuts = sorted(r.sample(range(1, ln), min(ln - 1, r.randint(1, 5)))) if ln > 1 else []
            elif k < 0.7:
                cuts = list(range(1, ln)) if ln <= 64 else sorted(r.sample(range(1, ln), 40))
            else:
                cuts = [c for c in (1, 65535, 65536, 65537, 131072, ln - 1) if 0 < c < ln]
                cuts = sorted(set(cuts))
            names = r.sample(avail, r.randint(1, 4)) + (['__size__'] if r.random() < 0.8 else [])
            if r.random() < 0.1:
                names = names + [names[0]]
            cases.append((data, cuts, hint, names, r.random() < 0.5))
    n_model = 0
    reqs, req_idx = [], []
    results = []
    for i, (data, cuts, hint, names, buffered) in enumerate(cases):
        if buffered:
            f = io.BufferedReader(RawSched(data, cuts), buffer_size=r.choice([1, 16, 8192, 65536]))
            sched = None
        else:
            f = SchedFile(data, cuts)
        try:
            got = gh.hash_file(f, names, _apparent_size=hint)
            res = ['ok', got]
        except Exception as e:
            res = impl.exc_sx(e)
        results.append(res)
        want = {n: (len(data) if n == '__size__' else ref_digest(n, data)) for n in names}
        if res[0] != 'ok' or res[1] != want:
            ctx.violation('spec', 'hash_file does not return the digests/size of the whole content',
                          {'length': len(data), 'cuts': cuts[:20], 'hint': hint, 'names': names,
                           'buffered_reader': buffered,
                           'wrong': [n for n in names if res[0] != 'ok' or res[1].get(n) != want[n]], 'impl': str(res)[:300]})
        # model run (content as a Coq/OCaml list): only moderately sized contents
        if not buffered and len(data) <= (70000 if quick else 1100000) and (len(data) <= 400 or n_model < (25 if quick else 80)):
            if len(data) > 400:
                n_model += 1
            sched_chunks = []
            sf = SchedFile(data, cuts)
            while True:
                c = sf.read1(65536)
                if not c:
                    break
                sched_chunks.append(c)
            table = [[n, data, want[n]] for n in set(names) if n != '__size__']
            reqs.append(['hash_file', names, sched_chunks, data, hint, avail, table])
            req_idx.append(i)
    model = run_model(reqs, jobs=16)
    for i, mi in zip(req_idx, model):
        res = results[i]
        ii = ['ok', [[k, v] for k, v in res[1].items()]] if res[0] == 'ok' else res
        if mi != ii:
            ctx.violation('correspondence', 'hash_file differs between model and implementation',
                          {'where': 'hash_file', 'length': len(cases[i][0]), 'hint': cases[i][2], 'names': cases[i][3],
                           'model': str(mi)[:300], 'impl': str(ii)[:300]})
    ctx.count('hash:hash_file', len(cases), len({(len(c[0]), tuple(c[1]), c[2]) for c in cases}),
              samples=[{'length': len(cases[5][0]), 'cuts': cases[5][1], 'hint': cases[5][2], 'names': cases[5][3]}],
              dist={'lengths': len(lengths), 'model_runs': len(reqs), 'hashlib_names': len(avail),
                    'buffered_reader_cases': sum(1 for c in cases if c[4])})

    # unsupported / unknown names
    k = 0
    for name in ['foo', 'whirlpool', 'SHA1', 'sha3_987', '', 'md5 ', '__size__x']:
        if name in hashlib.algorithms_available:
            continue
        k += 1
        try:
            gh.hash_file(io.BytesIO(b'x'), [name])
            ctx.violation('spec', f'unsupported hash name {name!r} was not reported', {'name': name})
        except Exception as e:
            x = impl.exc_sx(e)
            if x != ['err', ['UnsupportedHash', name]]:
                ctx.violation('spec', f'unsupported hash name {name!r} raised {x}', {'name': name})
        mi = run_model([['hash_file', [name], [b'x'], b'x', 0, avail, []]], jobs=1)[0]
        if mi != ['err', ['UnsupportedHash', name]]:
            ctx.violation('correspondence', 'model disagrees on unsupported name', {'where': 'hash_file', 'name': name, 'model': mi})
    # the Manifest-name layer: get_file_metadata with all ten names, unknown names, mixed
    td = tempfile.mkdtemp(prefix='gv-c17-')
    try:
        for ln in [0, 1, 300, 65536, 65537, 1048576, 1048577][:(5 if quick else 7)]:
            data = big[:ln]
            p = os.path.join(td, 'f')
            open(p, 'wb').write(data)
            for hs in ([n for n in MANIFEST_NAMES if n != 'WHIRLPOOL' or 'whirlpool' in hashlib.algorithms_available],
                       ['SHA1', 'MD5'], ['BLAKE2B', 'SHA512'], [], ['SHA1', 'FOO'], ['sha1'], ['WHIRLPOOL'], ['__size__']):
                k += 1
                g = gv.get_file_metadata(p, hs)
                try:
                    out = list(g)
                    meta = out[-1]
                    res = ['ok', meta]
                except Exception as e:
                    res = impl.exc_sx(e)
                finally:
                    g.close()
                mm = run_model([['manifest_hashes_to_hashlib', sorted(hs)]], jobs=1)[0]
                if mm[0] == 'ok':
                    lib = mm[1]
                    unsup = [n for n in lib if n not in hashlib.algorithms_available]
                    if unsup:
                        want = ['err', ['UnsupportedHash', unsup[0]]]
                    else:
                        want = ['ok', dict([(e, ref_digest(l, data)) for e, l in zip(sorted(hs), lib)] + [('__size__', ln)])]
                else:
                    want = mm
                if res != want:
                    kind = 'spec'
                    ctx.violation(kind, f'get_file_metadata({hs}) returned {str(res)[:200]}, expected {str(want)[:200]}',
                                  {'hashes': hs, 'length': ln})
        # ... and through the consumers of that layer: verify_path on an entry that lists an unknown / unavailable name beside right digests
        #     (the file has the recorded size), update_entry_for_path asked for such a name: reported, never skipped
        import gemato.manifest as gmf
        import gemato.exceptions as gex
        data = big[:300]
        p = os.path.join(td, 'v')
        open(p, 'wb').write(data)
        unavailable = [n for n, l in (('WHIRLPOOL', 'whirlpool'), ('RMD160', 'ripemd160'), ('STREEBOG256', 'streebog256'), ('STREEBOG512', 'streebog512'))
                       if l not in hashlib.algorithms_available]
        for odd in ['FOOHASH', 'SHA9000', 'sha1', 'SHA-512'] + unavailable[:2]:
            for good in ([], ['SHA1'], ['SHA512', 'MD5']):
                cks = {g: ref_digest({'SHA1': 'sha1', 'SHA512': 'sha512', 'MD5': 'md5'}[g], data) for g in good}
                cks[odd] = '00'
                k += 1
                ent = gmf.ManifestEntryDATA('v', len(data), dict(cks))
                try:
                    vres = ['returned', gv.verify_path(p, ent)]
                except gex.UnsupportedHash as e:
                    vres = ['UnsupportedHash']
                except Exception as e:
                    vres = ['raised', type(e).__name__]
                if vres != ['UnsupportedHash']:
                    ctx.violation('spec', f'verify_path on an entry listing the unsupported hash name {odd!r} (beside {good}) {str(vres)[:120]}: the name was not reported',
                                  {'entry_checksums': cks, 'result': str(vres)})
                ent2 = gmf.ManifestEntryDATA('v', 0, {})
                try:
                    ures = ['returned', gv.update_entry_for_path(p, ent2, hashes=good + [odd])]
                except gex.UnsupportedHash:
                    ures = ['UnsupportedHash']
                except Exception as e:
                    ures = ['raised', type(e).__name__]
                if ures != ['UnsupportedHash']:
                    ctx.violation('spec', f'update_entry_for_path asked for the unsupported hash name {odd!r} (beside {good}) {str(ures)[:120]}: the name was not reported',
                                  {'hashes': good + [odd], 'result': str(ures)})
        # a refresh asked for a subset / the same set / a superset of the names an entry carries, on a file whose content changed while its
        # size did not: what the entry holds afterwards are digests of the content as it is now, for exactly the requested names
        olddata, newdata = big[:300], bytes([big[0] ^ 1]) + big[1:300]
        p = os.path.join(td, 'r')
        LIBN = {'SHA1': 'sha1', 'SHA512': 'sha512', 'MD5': 'md5', 'SHA256': 'sha256'}
        for have in (['SHA1', 'SHA512'], ['MD5', 'SHA1', 'SHA256'], ['SHA512']):
            for ask in (['SHA512'], ['SHA1'], [], ['SHA1', 'SHA512'], ['MD5', 'SHA1', 'SHA256', 'SHA512'], ['MD5']):
                for content in (newdata, olddata):
                    open(p, 'wb').write(content)
                    k += 1
                    ent = gmf.ManifestEntryDATA('r', len(olddata), {h: ref_digest(LIBN[h], olddata) for h in have})
                    try:
                        gv.update_entry_for_path(p, ent, hashes=list(ask))
                        got = ['ok', ent.size, dict(ent.checksums)]
                    except Exception as e:
                        got = ['raised', type(e).__name__]
                    want = ['ok', len(content), {h: ref_digest(LIBN[h], content) for h in ask}]
                    if got != want:
                        ctx.violation('spec', f'update_entry_for_path(hashes={ask}) on an entry carrying {have}, file {"changed (same size)" if content is newdata else "unchanged"}: '
                                      f'the entry holds {str(got)[:160]}, the digests of the present content are {str(want)[:160]}', {'have': have, 'ask': ask})
        # the size reported by fstat is only a hint (sysfs, network filesystems, a file that grows while it is read):
        # digests and __size__ describe the bytes read, for any hash set - the empty one included
        import stat as _stat
        real_fstat = os.fstat
        wrong = 0
        for ln in [1, 300, 70000]:
            data = big[:ln]
            p = os.path.join(td, 'h')
            open(p, 'wb').write(data)
            for hint in [0, ln - 1, ln + 5, 4096, 2 * ln]:
                if hint == ln:
                    continue
                for hs in ([], ['SHA1', 'MD5'], ['SHA512']):
                    def fake(fd, hint=hint):
                        st = real_fstat(fd)
                        if _stat.S_ISREG(st.st_mode) and st.st_size == ln:
                            return os.stat_result((st.st_mode, st.st_ino, st.st_dev, st.st_nlink, st.st_uid, st.st_gid, hint,
                                                   st.st_atime, st.st_mtime, st.st_ctime))
                        return st
                    k += 1
                    wrong += 1
                    os.fstat = fake
                    try:
                        g = gv.get_file_metadata(p, hs)
                        try:
                            res = ['ok', list(g)[-1]]
                        except Exception as e:
                            res = impl.exc_sx(e)
                        finally:
                            g.close()
                        # and through verify_path on an entry claiming the hinted size
                        import gemato.manifest as gm
                        ent = gm.ManifestEntryDATA('h', hint, {})
                        try:
                            vres = gv.verify_path(p, ent)
                        except Exception as e:
                            vres = impl.exc_sx(e)
                    finally:
                        os.fstat = real_fstat
                    lib = {'SHA1': 'sha1', 'MD5': 'md5', 'SHA512': 'sha512'}
                    want = ['ok', dict([(e, ref_digest(lib[e], data)) for e in hs] + [('__size__', ln)])]
                    if res != want:
                        ctx.violation('spec', f'get_file_metadata({hs}) with fstat reporting {hint} for a {ln}-byte file returned {str(res)[:200]}',
                                      {'hashes': hs, 'length': ln, 'st_size': hint})
                    # an entry of size `hint` must not verify against ln bytes (hint != ln): a size mismatch
                    if not (isinstance(vres, tuple) and vres[0] is False):
                        ctx.violation('spec', f'verify_path accepted a size-only entry of size {hint} for a file of {ln} bytes (fstat reports {hint}): {str(vres)[:120]}',
                                      {'length': ln, 'st_size': hint})
        # the command-line front end: `gemato hash -H <names in any order> file...` prints, per file, one DATA line whose
        # name/value pairs are the digests under the algorithms those names denote
        import contextlib
        import gemato.cli
        p = os.path.join(td, 'c')
        data = big[:70001]
        open(p, 'wb').write(data)
        libname = {'MD5': 'md5', 'SHA1': 'sha1', 'SHA256': 'sha256', 'SHA512': 'sha512', 'BLAKE2B': 'blake2b', 'BLAKE2S': 'blake2s',
                   'SHA3_256': 'sha3_256', 'SHA3_512': 'sha3_512', 'RMD160': 'ripemd160'}
        for names in (['SHA512', 'BLAKE2B'], ['SHA256', 'MD5', 'SHA1'], ['SHA1'], ['BLAKE2B', 'SHA512'], ['SHA3_512', 'SHA3_256', 'BLAKE2S', 'BLAKE2B'],
                      ['SHA512', 'SHA256', 'SHA1', 'MD5']):
            names = [n for n in names if libname[n] in hashlib.algorithms_available]
            out = io.StringIO()
            k += 1
            try:
                with contextlib.redirect_stdout(out):
                    rc = gemato.cli.main(['gemato', 'hash', '-H', ' '.join(names), p])
            except BaseException as e:
                rc = 'exception:' + type(e).__name__
            f = out.getvalue().split()
            pairs = dict(zip(f[3::2], f[4::2]))
            want = {n: ref_digest(libname[n], data) for n in names}
            if rc not in (0, None) or f[:1] != ['DATA'] or f[2:3] != [str(len(data))] or pairs != want:
                wrong = sorted(n for n in names if pairs.get(n) != want[n])
                ctx.violation('spec', f'gemato hash -H "{" ".join(names)}" (exit {rc}): size field {f[2:3]}, wrong or missing digests for {wrong}',
                              {'hashes': names, 'output': out.getvalue()[:600]})
        # ... several operands in one invocation: one line per operand, each with all the digests of its own content
        ops = []
        for j, ln in enumerate([0, 1, 70001, 300]):
            q = os.path.join(td, 'op%d' % j)
            open(q, 'wb').write(big[j:j + ln])
            ops.append((q, big[j:j + ln]))
        for names in (['SHA512', 'BLAKE2B'], ['SHA1'], ['SHA256', 'MD5', 'SHA1']):
            for sel in ([0, 1], [2, 3, 1], [3, 2, 1, 0], [1, 1]):
                out = io.StringIO()
                k += 1
                try:
                    with contextlib.redirect_stdout(out):
                        rc = gemato.cli.main(['gemato', 'hash', '-H', ' '.join(names)] + [ops[x][0] for x in sel])
                except BaseException as e:
                    rc = 'exception:' + type(e).__name__
                lines = out.getvalue().splitlines()
                bad = None
                if rc not in (0, None) or len(lines) != len(sel):
                    bad = f'exit {rc}, {len(lines)} lines for {len(sel)} operands'
                else:
                    for x, line in zip(sel, lines):
                        f = line.split()
                        want = {n: ref_digest(libname[n], ops[x][1]) for n in names}
                        if f[:1] != ['DATA'] or f[2:3] != [str(len(ops[x][1]))] or dict(zip(f[3::2], f[4::2])) != want:
                            bad = f'operand no. {sel.index(x) + 1} ({len(ops[x][1])} bytes): {line[:120]!r}'
                            break
                if bad:
                    ctx.violation('spec', f'gemato hash -H "{" ".join(names)}" with {len(sel)} operands: {bad}', {'hashes': names, 'operand_sizes': [len(ops[x][1]) for x in sel],
                                                                                                             'output': out.getvalue()[:800]})
        # coreutils as an independent reference
        p = os.path.join(td, 'g')
        open(p, 'wb').write(big[:70001])
        for tool, name in (('md5sum', 'MD5'), ('sha1sum', 'SHA1'), ('sha256sum', 'SHA256'), ('sha512sum', 'SHA512'), ('b2sum', 'BLAKE2B')):
            try:
                ref = subprocess.run([tool, p], stdout=subprocess.PIPE, check=True).stdout.split()[0].decode()
            except (OSError, subprocess.CalledProcessError):
                continue
            k += 1
            g = gv.get_file_metadata(p, [name])
            got = list(g)[-1][name]
            g.close()
            if got != ref:
                ctx.violation('spec', f'{name} of a 70001-byte file differs from {tool}', {'name': name, 'gemato': got, 'coreutils': ref})
        # streaming law of hashlib itself (the premise of C17_digest)
        for name in avail:
            a, b = big[:1000], big[1000:70000]
            h1 = hashlib.new(name)
            h1.update(a)
            h1.update(b)
            h2 = hashlib.new(name)
            h2.update(a + b)
            h3 = hashlib.new(name)
            h3.update(a + b)
            h3.update(b'')
            k += 1
            if not (h1.hexdigest() == h2.hexdigest() == h3.hexdigest()):
                ctx.violation('oracle', f'hashlib {name} is not streaming', {'name': name})
    finally:
        import shutil
        shutil.rmtree(td, ignore_errors=True)
    ctx.count('hash:names', k, k, dist={'available': avail, 'runs_with_a_wrong_st_size': wrong})
    rewritten_in_place(ctx)


def rewritten_question(gv, gh, gm, front, p, ln, hs, want, k, contents):
    bad = None
    if front == 'get_file_metadata':
        g = gv.get_file_metadata(p, hs)
        try:
            got = list(g)[-1]
        finally:
            g.close()
        if any(got.get(h) != want[h] for h in hs) or got.get('__size__') != ln:
            bad = got
    elif front == 'verify_path':
        ent = gm.ManifestEntryDATA('f', ln, dict(want))
        res = gv.verify_path(p, ent)
        if res[0] is not True:
            bad = res
        # ... and an entry with the digests of the PREVIOUS content must not verify
        if k and not bad and hs:
            old = dict([(h, ref_digest(MANIFEST_TO_LIB.get(h, h.lower()), contents[k - 1])) for h in hs])
            res2 = gv.verify_path(p, gm.ManifestEntryDATA('f', ln, old))
            if res2[0] is not False:
                bad = ['stale entry accepted', res2]
    elif front == 'update_entry_for_path':
        # (an entry whose recorded size is stale too: the size is refreshed whatever the hash set)
        ent = gm.ManifestEntryDATA('f', ln + (k % 2) * 3, dict.fromkeys(hs, '00'))
        gv.update_entry_for_path(p, ent, hashes=hs)
        if any(ent.checksums.get(h) != want[h] for h in hs) or ent.size != ln:
            bad = [ent.size, ent.checksums]
    else:
        got = gh.hash_path(p, [MANIFEST_TO_LIB.get(h, h.lower()) for h in hs] + ['__size__'])
        if any(got.get(MANIFEST_TO_LIB.get(h, h.lower())) != want[h] for h in hs) or got.get('__size__') != ln:
            bad = got
    return bad


def rewritten_in_place(ctx):
    """the digest is that of the content the file has NOW: one process asks about one file several times while the file is rewritten in
    place between the questions - same inode, same length, the modification time put back (rsync -t, cp -p, two writes within one clock
    tick) - through every front end that hashes files: get_file_metadata, verify_path, update_entry_for_path, hash_path"""
    import shutil
    import gemato.verify as gv
    import gemato.hash as gh
    import gemato.manifest as gm
    r = ctx.rng('c17rewrite')
    td = tempfile.mkdtemp(prefix='gv-c17r-')
    st = {'questions': 0, 'files': 0}
    try:
        for i in range(40 if ctx.tier == 'quick' else 400):
            p = os.path.join(td, 'f%d' % i)
            ln = r.choice([1, 7, 300, 65536, 65537])
            hs = r.choice([['SHA1'], ['MD5', 'SHA256'], ['BLAKE2B', 'SHA512'], []])      # (the empty hash set: size-only entries)
            contents = [bytes([65 + k]) * ln for k in range(r.randint(2, 3))]
            st['files'] += 1
            for k, data in enumerate(contents):
                with open(p, 'r+b' if k else 'wb') as f:        # in place: the inode stays
                    f.write(data)
                os.utime(p, (1500000000, 1500000000))
                want = dict([(h, ref_digest(MANIFEST_TO_LIB.get(h, h.lower()), data)) for h in hs])
                front = r.choice(['get_file_metadata', 'verify_path', 'update_entry_for_path', 'hash_path'])
                st['questions'] += 1
                bad = None
                try:
                    bad = rewritten_question(gv, gh, gm, front, p, ln, hs, want, k, contents)
                except Exception as e:
                    # an exception for a regular, readable file is no answer either
                    bad = ['raised', repr(e)[:160]]
                if bad is not None:
                    ctx.violation('spec', f'{front} on a file rewritten in place (content no. {k + 1}, {ln} bytes, same inode and modification time) does not report the digests of the present content: {str(bad)[:200]}',
                                  {'front_end': front, 'length': ln, 'hashes': hs, 'contents': [c[:1].decode() + ' x %d' % ln for c in contents[:k + 1]]})
    finally:
        shutil.rmtree(td, ignore_errors=True)
    ctx.count('hash:rewritten-in-place', st['questions'], st['questions'], dist=st)
