"""Checks over the tree engine: C01, C02, C06, C07, C16 (verification side)."""
import json
import os

import engine_tree as ET
import gen_tree as GT
from sx import run_model


def run_cases(ctx, cases, label, scratch):
    """realise + run implementation, run model, compare; returns list of (case, impl, model)"""
    impl_res = []
    reqs = []
    for c in cases:
        b, s = scratch.fresh()
        try:
            key = GT.order_key_for(c.meta.get('order_seed', 0))
            paths = c.tree.realise(b, s)
            c.meta['paths'] = None
            r = ET.run_impl(b, c.top, c.opts, c.allow_create, c.allow_xdev, c.ops, key)
        except Exception as e:
            r = ['harness-error', repr(e)]
        finally:
            scratch.cleanup(b, s)
        impl_res.append(r)
        reqs.append(ET.model_request(c.tree, c.top, c.opts, c.allow_create, c.allow_xdev, c.ops,
                                     GT.order_key_for(c.meta.get('order_seed', 0)), c.hash_names, c.faults))
    model = run_model(reqs, jobs=16)
    out = []
    for c, i, m in zip(cases, impl_res, model):
        if i != m:
            ctx.violation('correspondence', f'{label}: model and implementation differ',
                          {'where': label, 'meta': {k: v for k, v in c.meta.items() if k != 'paths'}, 'ops': c.ops,
                           'impl': i, 'model': m, 'tree': describe(c.tree)})
        out.append((c, i, m))
    return out


def describe(t):
    """compact listing of the abstract tree for replays"""
    out = {}
    for i, n in t.nodes.items():
        if n['k'] == 'd':
            out[i] = {'dir': [(nm, tg) for nm, tg in n['ents']], 'dev': n['dev'], 'parent': n['parent']}
        elif n['k'] == 'f':
            out[i] = {'file': n['data'].decode('latin1')[:300], 'mtime': n['mtime'], 'dev': n['dev']}
        else:
            out[i] = {'special': n['kind']}
    return out


def gen_verify_case(r, n_mut=None):
    c = GT.Case()
    t, files, written = GT.build_consistent(r, c)
    muts = []
    for _ in range(n_mut if n_mut is not None else r.choice([0, 0, 1, 1, 1, 2, 3])):
        muts.append(GT.mutate(r, c, files, written))
    c.meta['mutations'] = muts
    c.meta['order_seed'] = r.randint(0, 5)
    c.allow_xdev = r.random() < 0.7
    paths = [''] + [d for d in c.meta['dirs'] if d]
    ops = []
    for _ in range(r.randint(1, 3)):
        k = r.random()
        if k < 0.6:
            lm = r.choice([None, None, [1400000000], [1500000000], [1700000000]])
            ops.append(['verify', r.choice(paths), r.choice([0, 0, 1, 2, 3, 4]), lm if lm else []])
        elif k < 0.7:
            ops.append(['find_path_entry', r.choice(sorted(files) + paths + ['absent', 'foo'])])
        elif k < 0.8:
            ops.append(['verify_path', r.choice(sorted(files) + ['absent'])])
        elif k < 0.9:
            ops.append(['assert_path_verifies', r.choice(sorted(files) + ['absent'])])
        else:
            ops.append(['find_dist_entry', 'dist-%d.tar.gz' % r.randint(0, 3), r.choice(paths)])
    if r.random() < 0.3:
        ops.append(['loaded'])
    c.ops = ops
    return c


def c01(ctx):
    quick = ctx.tier == 'quick'
    r = ctx.rng('c01')
    n = 1500 if quick else 20000
    with ET.Scratch() as sc:
        cases = [gen_verify_case(r) for _ in range(n)]
        res = run_cases(ctx, cases, 'tree:verify', sc)
    ctx.count('tree:verify', len(cases), len({json.dumps([c.meta['files'], c.meta['manifests'], c.meta['mutations'], c.ops], default=str) for c in cases}),
              samples=[{'files': cases[0].meta['files'], 'manifests': cases[0].meta['manifests'],
                        'mutations': cases[0].meta['mutations'], 'ops': cases[0].ops, 'impl': res[0][1]}])
