"""Checks over the tree engine: C01, C02, C06, C07, C16 (verification side)."""
import json
import os

import common
import engine_tree as ET
import gen_tree as GT
from sx import run_model


class CaseTimeout(BaseException):
    pass


CASE_TIMEOUT = 20          # seconds per implementation run (a normal case takes milliseconds)


def run_cases(ctx, cases, label, scratch):
    """realise + run implementation, run model, compare; returns list of (case, impl, model)"""
    import signal
    impl_res = []
    reqs = []
    timeouts = 0

    def on_alarm(signum, frame):
        raise CaseTimeout()
    old_handler = signal.signal(signal.SIGALRM, on_alarm)
    for c in cases:
        if timeouts >= 3:
            impl_res.append(['skipped-after-timeouts'])
            reqs.append(None)
            continue
        b, s = scratch.fresh()
        try:
            signal.setitimer(signal.ITIMER_REAL, CASE_TIMEOUT, 0.5)      # repeating: a swallowed timeout is raised again
            try:
                key = GT.order_key_for(c.meta.get('order_seed', 0))
                paths = c.tree.realise(b, s)
                c.meta['paths'] = None
                real_faults = []
                for prim, ino, en in c.faults:
                    if ino not in paths:
                        continue          # an object no longer linked anywhere: the fault is unobservable in both
                    st = os.stat(paths[ino])
                    real_faults.append((prim, (st.st_dev, st.st_ino), en))
                r = ET.run_impl(b, c.top, c.opts, c.allow_create, c.allow_xdev, c.ops, key, real_faults,
                                jobs=(None, 1, 3)[c.meta.get('order_seed', 0) % 3])
                if ET.LAST_STAMPS:
                    c.meta['stamps'] = list(ET.LAST_STAMPS)
            finally:
                signal.setitimer(signal.ITIMER_REAL, 0)
        except CaseTimeout:
            timeouts += 1
            r = ['timeout', CASE_TIMEOUT]
            ctx.violation('spec' if ctx.pid == 'C16' else 'correspondence',
                          f'{label}: the implementation did not finish within {CASE_TIMEOUT} s on a small tree (the reference model answers at once'
                          + ('; C16: verification and update terminate' if ctx.pid == 'C16' else '') + ')',
                          {'where': label, 'meta': {k: v for k, v in c.meta.items() if k not in ('paths', 'stamps')}, 'ops': c.ops,
                           'impl': r, 'tree': describe(c.tree)})
        except Exception as e:
            r = ['harness-error', repr(e)]
        finally:
            signal.setitimer(signal.ITIMER_REAL, 0)
            scratch.cleanup(b, s)
        impl_res.append(r)
        if r[0] == 'timeout':
            reqs.append(None)
            continue
        mtree, mops = c.tree, c.ops
        k = c.meta.get('time_scale')
        if k:
            # sub-second file times: the model counts in 1/k seconds (all of its time comparisons are scale-free)
            mtree = c.tree.clone()
            for n in mtree.nodes.values():
                if 'mtime' in n:
                    n['mtime'] = int(round(n['mtime'] * k))
            mops = [([op[0], op[1], op[2], [int(round(x * k)) for x in op[3]]] if op[0] == 'verify' else op) for op in c.ops]
        rq = ET.model_request(mtree, c.top, c.opts, c.allow_create, c.allow_xdev, mops,
                              GT.order_key_for(c.meta.get('order_seed', 0)), c.hash_names, c.faults)
        ET.preseed_oracles(rq, r)
        reqs.append(rq)
    signal.signal(signal.SIGALRM, old_handler)
    live = [k for k, rq in enumerate(reqs) if rq is not None]
    model_live = ET.run_model_completing([reqs[k] for k in live])
    model = [None] * len(reqs)
    for k, m in zip(live, model_live):
        model[k] = m
    out = []
    for c, i, m in zip(cases, impl_res, model):
        if m is None:
            out.append((c, i, i))
            continue
        links = c.tree.link_paths()
        i, m = canon_result(i, links), canon_result(m, links)
        i, m = exhausted(i, m)
        i, m = damaged_stream(c, i, m)
        i, m = sort_logs_after_save(c.ops, i), sort_logs_after_save(c.ops, m)
        if i != m and after_anomalous_save(ctx, c, i, m):
            out.append((c, i, i))
            continue
        if i != m:
            ctx.violation('correspondence', f'{label}: model and implementation differ',
                          {'where': label, 'meta': {k: v for k, v in c.meta.items() if k not in ('paths', 'stamps')}, 'ops': c.ops,
                           'impl': i, 'model': m, 'tree': describe(c.tree)})
        out.append((c, i, m))
    return out


def after_anomalous_save(ctx, c, i, m):
    """findings D21 / D29 (a file that is a Manifest for the loader and data for its parent): the first save may rename such a file;
    a later walk on the same loader then meets a file created by the run that has no entry, and the position of the new entry
    depends on where the directory lists the new name (the model appends new names, the harness orders by a key).  Differences
    that begin after the first save of such a tree are attributed to the listed finding."""
    import known
    import common
    d21, d29 = known.d21_dirs(c), known.d29_dirs(c)
    if not (d21 or d29) or i[0] != 'ok' or m[0] != 'ok':
        return False
    saves = [k for k, op in enumerate(c.ops) if op[0] == 'save']
    if not saves:
        return False
    first = next((k for k, (a, b) in enumerate(zip(i[1], m[1])) if a != b), None)
    if first is None or first <= saves[0] or not any(op[0] == 'update' for op in c.ops[saves[0] + 1:first + 1]):
        return False
    return common.known_finding(ctx, ctx.pid, c, 'idempotence', ['order of entries written by an update that follows the first save'])


def exhausted(i, m):
    """Manifests loaded endlessly through a symlink cycle: the kernel ends it (ELOOP after 40 links, ENAMETOOLONG),
    the model by running out of fuel - both are 'no answer, an error'"""
    if i[0] == 'ok' and m[0] == 'ok' and len(i[1]) == len(m[1]):
        for k, (a, b) in enumerate(zip(i[1], m[1])):
            if a[0] != 'ok' or b[0] != 'ok':
                if b == ['err', ['OutOfFuel']] and a[0] == 'err' and a[1][0] == 'OSError' and a[1][1] in ('ELOOP', 'ENAMETOOLONG'):
                    x = [['err', ['Exhausted']]]
                    return ['ok', i[1][:k] + x + i[1][k + 1:]], ['ok', m[1][:k] + x + m[1][k + 1:]]
                break
    return i, m


DAMAGED = ('ManifestSyntaxError', 'BadCompressedFile', 'CodecInternalError', 'Internal')


def damaged_stream(c, i, m):
    """a compressed Manifest with flipped bytes: the streaming reader of the implementation may deliver part of the
    (garbled) text before the codec notices, the oracle decompresses in one piece - which of syntax error / invalid
    stream / truncated stream is reported first is not compared (all are failures to load that Manifest)"""
    muts = c.meta.get('mutations') or []
    mutated = any(str(x).startswith(('manifest-byte', 'manifest-garbage')) for x in muts)
    if i[0] == 'ok' and m[0] == 'ok' and len(i[1]) == len(m[1]):
        for k, (a, b) in enumerate(zip(i[1], m[1])):
            if a != b:
                def dmg(x):
                    return x[0] == 'err' and (x[1][0] in DAMAGED[:3] or x[1][:2] == ['Internal', 'UnicodeError'])   # garbled text is not UTF-8 either
                # a file that is not UTF-8 text, named by a MANIFEST entry (e.g. a data file listed under that tag): the text reader
                # of the implementation hands out the lines before the bad byte first, so a syntax error in those is met before the
                # decoding error which the oracle (decoding in one piece) reports - both refuse to load it, outside "UTF-8 Manifest text"
                def notutf8_pair(x, y):
                    return x[0] == 'err' and y[0] == 'err' and x[1][:1] == ['ManifestSyntaxError'] and y[1][:2] == ['Internal', 'UnicodeError']
                if (mutated and dmg(a) and dmg(b)) or notutf8_pair(a, b):
                    x = [['err', ['DamagedManifest']]]
                    return ['ok', i[1][:k] + x + i[1][k + 1:]], ['ok', m[1][:k] + x + m[1][k + 1:]]
                break
    return i, m


def sort_logs_after_save(ops, x):
    """files created by a save are enumerated last by the model and by name-key by the harness: the keep-going
    call log of a verification that follows a save is compared as a set"""
    if not (isinstance(x, list) and len(x) == 2 and x[0] == 'ok' and isinstance(x[1], list)):
        return x
    out = []
    saved = False
    for op, y in zip(ops, x[1]):
        if op[0] == 'save':
            saved = True
        if saved and op[0] == 'verify' and y[0] == 'ok' and isinstance(y[1], list) and len(y[1]) == 2 and isinstance(y[1][1], list):
            y = ['ok', [y[1][0], sorted(y[1][1], key=str)]]
        out.append(y)
    return ['ok', out + x[1][len(out):]]


def canon_result(x, links=()):
    """order- and clock-independent form of results that list files"""
    if isinstance(x, list) and len(x) == 2 and x[0] == 'ok' and isinstance(x[1], list):
        out = []
        for y in x[1]:
            if isinstance(y, list) and len(y) == 2 and y[0] == 'ok' and isinstance(y[1], list) and y[1] \
                    and all(isinstance(z, list) and len(z) == 3 and isinstance(z[2], int) for z in y[1]):
                out.append(['ok', ET.canon_files([[p, d.encode('latin1') if isinstance(d, str) else d, m] for p, d, m in y[1]], links)])
            else:
                out.append(y)
        return ['ok', out]
    return x


def describe(t):
    """compact listing of the abstract tree for replays"""
    out = {}
    for i, n in t.nodes.items():
        if n['k'] == 'd':
            out[i] = {'dir': [(nm, tg) for nm, tg in n['ents']], 'dev': n['dev'], 'parent': n['parent']}
        elif n['k'] == 'f':
            out[i] = {'file': n['data'].decode('latin1')[:300], 'mtime': n['mtime'], 'dev': n['dev']}
        else:
            out[i] = {'special': n['kind']}
    return out


def gen_verify_case(r, n_mut=None):
    c = GT.Case()
    t, files, written = GT.build_consistent(r, c)
    muts = []
    for _ in range(n_mut if n_mut is not None else r.choice([0, 0, 1, 1, 1, 2, 3])):
        muts.append(GT.mutate(r, c, files, written))
    c.meta['mutations'] = muts
    c.meta['order_seed'] = r.randint(0, 5)
    c.allow_xdev = r.random() < 0.7
    paths = [''] + [d for d in c.meta['dirs'] if d]
    ops = []
    for _ in range(r.randint(1, 3)):
        k = r.random()
        if k < 0.6:
            lm = r.choice([None, None, [1400000000], [1500000000], [1700000000]])
            ops.append(['verify', r.choice(paths), r.choice([0, 0, 1, 2, 3, 4]), lm if lm else []])
        elif k < 0.7:
            ops.append(['find_path_entry', r.choice(sorted(files) + paths + ['absent', 'foo'])])
        elif k < 0.8:
            ops.append(['verify_path', r.choice(sorted(files) + ['absent'])])
        elif k < 0.9:
            ops.append(['assert_path_verifies', r.choice(sorted(files) + ['absent'])])
        else:
            ops.append(['find_dist_entry', 'dist-%d.tar.gz' % r.randint(0, 3), r.choice(paths)])
    if r.random() < 0.3:
        ops.append(['loaded'])
    if r.random() < 0.12:
        # a listed file changed (same size) a fraction of a second after the moment of the last verification
        cand = [p for p in sorted(files) if files[p] and t.lookup(p) is not None and t.nodes[t.lookup(p)]['k'] == 'f']
        if cand:
            p = r.choice(cand)
            lm = 1500000000 + r.randint(0, 1000)
            node = t.nodes[t.lookup(p)]
            node['data'] = bytes([node['data'][0] ^ 1]) + node['data'][1:]
            node['mtime'] = lm + r.choice([0.5, 0.25, 0.999, 0.0, -0.5, 1.0])
            c.meta['time_scale'] = 1000
            c.meta['mutations'] = muts + ['subsecond-change:' + p]
            ops = [['verify', '', r.choice([0, 1, 1]), [lm]]] + ops[:1]
    if r.random() < 0.06:
        # a sibling (directory or file) whose name merely string-extends the name of the verified directory and whose entry does not match:
        # it lies outside the verified directory
        ds = [d for d in c.meta['dirs'] if d and t.lookup(d) is not None and t.nodes[t.lookup(d)]['k'] == 'd' and not any(x.startswith('.') for x in d.split('/'))]
        top = t.lookup('Manifest')
        if ds and top is not None and t.nodes[top]['k'] == 'f':
            X = r.choice(ds)
            Y = X + r.choice(['2', '-config', '.txt', 'x', '.d'])
            if t.lookup(Y) is None:
                tn = t.nodes[top]
                asdir = r.random() < 0.5
                if asdir:
                    t.add_dir(Y)
                    c.meta['dirs'].append(Y)
                    fp = Y + '/inner'
                else:
                    fp = Y
                state = r.choice(['altered', 'missing', 'fine'])
                if state != 'missing':
                    t.add_file(fp, b'sibling data\n')
                line = ET.entry_line('DATA', fp, b'sibling data\n' if state != 'altered' else b'other content!\n', r.sample(GT.GOOD_HASHES, r.randint(0, 2)))
                tn['data'] = tn['data'] + (b'' if tn['data'].endswith(b'\n') or not tn['data'] else b'\n') + line.encode('utf8') + b'\n'
                tn['size'] = len(tn['data'])
                c.meta['mutations'] = list(c.meta['mutations']) + ['prefix-sibling-%s:%s' % (state, fp)]
                ops = [['verify', X, r.choice([0, 1, 2]), []]] + ops[:1]
    c.ops = ops
    return c


def default_crossing(ctx):
    """crossing filesystem boundaries is allowed unless asked otherwise: `gemato verify` without -x and a loader built without
    allow_xdev judge a tree that spans two filesystems exactly like a loader told allow_xdev=True"""
    import gemato.recursiveloader as rl
    import gemato.exceptions as ge
    r = ctx.rng('c01xdev')
    n = same = 0
    with ET.Scratch() as sc:
        for _ in range(60 if ctx.tier == 'quick' else 600):
            c = gen_verify_case(r, n_mut=r.choice([0, 0, 1]))
            GT.mutate(r, c, {p: b'' for p in c.meta['files']}, {m: b'' for m in c.meta['manifests']}, 'xdev-dir')
            if c.tree.lookup('Manifest') is None:
                continue
            key = GT.order_key_for(c.meta['order_seed'])
            b, s = sc.fresh()
            try:
                c.tree.realise(b, s)
                ref = ET.run_impl(b, 'Manifest', (None, False, None, None, 'default', None, None, False), False, True, [['verify', '', 0, []]], key)
                with ET.ScandirOrder(key):
                    rc, items = run_cli_collect(['gemato', 'verify', '--no-openpgp-verify', b])
                    try:
                        m = rl.ManifestRecursiveLoader(os.path.join(b, 'Manifest'), verify_openpgp=False)
                        lib = ['ok', bool(m.assert_directory_verifies(''))]
                    except Exception as e:
                        lib = ['err', type(e).__name__]
            finally:
                sc.cleanup(b, s)
            n += 1
            refv = ref[0] == 'ok' and ref[1] and ref[1][0][0] == 'ok' and ref[1][0][1][0] == 1
            referr = ref[1][0][1][0] if ref[0] == 'ok' and ref[1] and ref[1][0][0] == 'err' else None
            replay = {'meta': {k: v for k, v in c.meta.items() if k != 'paths'}, 'reference_allow_xdev_true': str(ref)[:300], 'cli': [rc, items[:6]], 'default_loader': lib,
                      'tree': describe(c.tree)}
            if (rc == 0) != refv or (lib == ['ok', True]) != refv:
                ctx.violation('spec', f'a tree spanning two filesystems: with crossing allowed explicitly the verdict is {"success" if refv else referr or "failure"}, '
                              f'gemato verify (no -x) exits {rc}, a loader with default arguments answers {lib}', replay)
            else:
                same += 1
    ctx.count('cli:default-crossing', n, n, dist={'runs_agreeing': same})


def c01(ctx):
    quick = ctx.tier == 'quick'
    r = ctx.rng('c01')
    n = 1500 if quick else 20000
    with ET.Scratch() as sc:
        cases = [gen_verify_case(r) for _ in range(n)]
        res = run_cases(ctx, cases, 'tree:verify', sc)
    ctx.count('tree:verify', len(cases), len({json.dumps([c.meta['files'], c.meta['manifests'], c.meta['mutations'], c.ops], default=str) for c in cases}),
              samples=[{'files': cases[0].meta['files'], 'manifests': cases[0].meta['manifests'],
                        'mutations': cases[0].meta['mutations'], 'ops': cases[0].ops, 'impl': res[0][1]}])


# --------------------------------------------------------------------------- verdict classification
def success_of(x):
    """True/False verdict of one op result, None if not a verdict"""
    if x[0] == 'err':
        return False
    if x[0] == 'ok' and isinstance(x[1], list) and len(x[1]) == 2 and x[1][0] in (0, 1) and isinstance(x[1][1], list):
        return bool(x[1][0])
    return True


def reclassify(ctx, prop_text):
    """disagreements in which implementation and reference model differ in the success/failure verdict of an
    operation are violations of the property itself (the model is the reference: its theorems + this engine)"""
    new = []
    for kind, desc, rp in ctx.violations:
        if kind == 'correspondence' and isinstance(rp.get('impl'), list) and isinstance(rp.get('model'), list) \
                and rp['impl'][0] == 'ok' and rp['model'][0] == 'ok':
            for a, b in zip(rp['impl'][1], rp['model'][1]):
                if a != b:
                    if success_of(a) != success_of(b) or (a[0] == 'ok' and b[0] == 'ok' and a[1] != b[1]) or (a[0] != b[0] and 'ok' in (a[0], b[0])):
                        kind = 'spec'
                        desc = prop_text + f': implementation answered {str(a)[:200]}, the reference answer is {str(b)[:200]}'
                    break
        if kind == 'correspondence' and isinstance(rp.get('impl'), list) and isinstance(rp.get('model'), list) \
                and rp['impl'][0] == 'ok' and rp['model'][0] == 'err' and all(isinstance(x, list) and x and x[0] == 'ok' for x in rp['impl'][1]):
            # the loader could not even be constructed in the reference (an error while reading the top-level Manifest), the
            # implementation went on and reported success throughout
            kind = 'spec'
            desc = prop_text + f': the implementation succeeded throughout, the reference fails with {str(rp["model"][1])[:120]} before the first operation'
        new.append((kind, desc, rp))
    ctx.violations[:] = new


def c01_impl(ctx, n_quick, n_thorough, gen, label, prop_text):
    quick = ctx.tier == 'quick'
    r = ctx.rng(label)
    n = n_quick if quick else n_thorough
    with ET.Scratch() as sc:
        cases = [gen(r) for _ in range(n)]
        res = run_cases(ctx, cases, label, sc)
    reclassify(ctx, prop_text)
    kinds = {}
    for c, i, m in res:
        if i[0] != 'ok':
            kinds[str(i[0])] = kinds.get(str(i[0]), 0) + 1
            continue
        for x in i[1]:
            k = 'ok' if x[0] == 'ok' else x[1][0] + (':' + ','.join(map(str, x[1][-1])) if x[1][0] == 'ManifestMismatch' else '')
            k = k if len(k) < 40 else k[:40]
            kinds[k] = kinds.get(k, 0) + 1
    top = dict(sorted(kinds.items(), key=lambda kv: -kv[1])[:25])
    ctx.count(label, len(cases),
              len({json.dumps([c.meta.get('files'), c.meta.get('manifests'), c.meta.get('mutations'), c.ops, c.faults, c.meta.get('k')], default=str) for c in cases}),
              samples=[{'files': cases[0].meta.get('files'), 'manifests': cases[0].meta.get('manifests'),
                        'mutations': cases[0].meta.get('mutations'), 'ops': cases[0].ops, 'impl': res[0][1]}],
              dist={'outcomes': top})
    return res


def c01(ctx):
    import p_py
    p_py.py_units(ctx, ctx.tier == 'quick')
    c01_impl(ctx, 3000, 25000, gen_verify_case, 'tree:verify',
             'verification verdict differs from the reference (C01: success iff every entry matches and every walked file is covered)')
    default_crossing(ctx)
    # directory symlinks to siblings / other directories are followed and their files treated like any others
    r = ctx.rng('c01graphs')
    specs, _ = graph_cases(r, True)
    specs = [s for s in specs if len(s[0]) >= 3][:400] if ctx.tier == 'quick' else specs[::3]
    it = iter(specs)
    c01_impl(ctx, len(specs), len(specs), lambda rr: graph_case(next(it)), 'tree:verify-symlink-graphs',
             'verification of a tree with directory symlinks differs from the reference (C01)')
    # the exit status of the command-line tool over one or several requested paths
    cli_keep_going(ctx)


# --------------------------------------------------------------------------- C07
def gen_keepgoing_case(r, nmut=None):
    c = GT.Case()
    t, files, written = GT.build_consistent(r, c, nfiles=r.randint(3, 9))
    muts = []
    for _ in range(r.randint(2, 6) if nmut is None else nmut):
        muts.append(GT.mutate(r, c, files, written, r.choice(['content-same-size', 'content-other-size', 'delete', 'stray',
                                                                'file-to-dir', 'stray', 'delete', 'fifo', 'stray-hidden',
                                                                'dir-to-file', 'manifest-delete', 'dangling-link'])))
    if r.random() < 0.2:
        # a second name (directory symlink) for a directory that has a sub-directory, beside it and below a first-level directory:
        # no loop, every file below is seen under both names
        t = c.tree
        firsts = [d for d in c.meta['dirs'] if d and '/' not in d and not d.startswith('.') and t.lookup(d) is not None and t.nodes[t.lookup(d)]['k'] == 'd']
        A = r.choice(firsts) if firsts else None
        if A is not None and t.lookup(A + '/pkg2') is None and t.lookup(A + '/pkg2-alias') is None:
            t.add_dir(A + '/pkg2')
            t.add_dir(A + '/pkg2/inner')
            t.add_file(A + '/pkg2/inner/f', b'seen twice\n')
            t.link(t.lookup(A), r.choice(['pkg2-alias', 'pkg2-alias', 'a-alias']), t.lookup(A + '/pkg2'))
            c.meta['dirs'] += [A + '/pkg2', A + '/pkg2/inner']
            muts.append('sibling-alias:%s/pkg2' % A)
    c.meta['mutations'] = muts
    c.meta['order_seed'] = r.randint(0, 9)
    paths = [''] + [d for d in c.meta['dirs'] if d]
    c.ops = [['verify', r.choice(paths + ['', '']), r.choice([1, 1, 2, 3, 4, 4]), []]]
    if r.random() < 0.3:
        c.ops.append(['verify', '', r.choice([1, 4]), []])
    return c


def gen_wide_case(r):
    """a flat tree with more directories than any batching of the directory scan could hide (65-140), a few of them wrong"""
    c = GT.Case()
    t = GT.Tree()
    n = r.choice([65, 66, 70, 129, 140])
    lines = []
    dirs = ['']
    files = []
    for k in range(n):
        d = 'dir%03d' % k
        t.add_dir(d)
        dirs.append(d)
        data = b'content %d\n' % k
        t.add_file(d + '/file', data)
        files.append(d + '/file')
        lines.append(ET.entry_line('DATA', d + '/file', data, ['SHA1']))
    t.add_file('Manifest', ('\n'.join(lines) + '\n').encode())
    bad = r.sample(range(n), r.choice([n, n, n, n - 1, 5]))
    for k in bad:
        node = t.nodes[t.lookup('dir%03d/file' % k)]
        node['data'] = b'changed %d\n' % k
        node['size'] = len(node['data'])
    c.tree = t
    c.meta.update(dirs=dirs, files=files, manifests=['Manifest'], mutations=['content x%d of %d directories' % (len(bad), n)], order_seed=r.randint(0, 9))
    c.ops = [['verify', '', r.choice([1, 1, 2, 4]), []]]
    return c


def c07(ctx):
    wide = iter([True] * (6 if ctx.tier == 'quick' else 40))
    base_gen = gen_keepgoing_case

    def gen_mixed(r):
        return gen_wide_case(r) if next(wide, False) else base_gen(r)
    res = c01_impl(ctx, 3000, 25000, gen_mixed, 'tree:keep-going',
                   'keep-going verification: handler calls / result differ from the reference (C07: every offending path once, '
                   'result false iff a call answered False)')
    multi = sum(1 for c, i, m in res if i[0] == 'ok' and any(x[0] == 'ok' and isinstance(x[1], list) and len(x[1]) == 2
                                                              and isinstance(x[1][1], list) and len(x[1][1]) >= 2 for x in i[1]))
    ctx.cov['engines']['tree:keep-going']['cases_with_two_or_more_reports'] = multi
    # structural problems are still raised in keep-going mode: one-file-system mode over trees with a directory of another filesystem linked in -
    # empty, with files, hidden files, sub-directories, with a file entry of its own (a listed path that leads to a non-regular foreign object)
    r2 = ctx.rng('c07xdev')

    def gen_xdev_kg(r):
        c = gen_keepgoing_case(r2)
        GT.mutate(r2, c, {p: b'' for p in c.meta['files']}, {m: b'' for m in c.meta['manifests']}, 'xdev-dir')
        c.allow_xdev = False
        c.meta['mutations'] = list(c.meta.get('mutations', [])) + ['xdev-dir']
        return c
    c01_impl(ctx, 300, 3000, gen_xdev_kg, 'tree:keep-going-xdev',
             'keep-going verification in one-file-system mode: result differs from the reference (C07: boundary crossings are still raised)')
    # CLI exit status of `gemato verify --keep-going` on a sample
    cli_keep_going(ctx)


def run_cli_collect(argv):
    """gemato.cli.main(argv) with the error log collected: (exit status, [[path, [diff names]] | ['<error>', class name]])"""
    import logging
    import gemato.cli
    import gemato.exceptions as gx
    items = []

    class Collect(logging.Handler):
        def emit(self, rec):
            m = rec.msg
            if isinstance(m, gx.ManifestMismatch):
                items.append([m.path, [d[0] for d in m.diff]])
            else:
                items.append(['<error>', type(m).__name__])
    h = Collect(level=logging.ERROR)
    root = logging.getLogger()
    old = root.level
    root.addHandler(h)
    root.setLevel(logging.ERROR)
    import common
    try:
        try:
            with common.watchdog(40):
                rc = gemato.cli.main(argv)
            if rc is None:
                rc = 0            # sys.exit(None) is exit status 0
        except SystemExit as e:
            rc = e.code if isinstance(e.code, int) else 2
        except common.CaseTimeout:
            rc = 'exception:DidNotTerminate'
        except Exception as e:
            rc = 'exception:' + type(e).__name__
    finally:
        root.removeHandler(h)
        root.setLevel(old)
    return rc, items


def cli_keep_going(ctx):
    """`gemato verify --keep-going p1 p2 ...`: every requested path is scanned (each with a loader of its own, as the CLI does),
    the reports are those of the library for each path in turn, and the exit status is 1 iff one of them failed"""
    r = ctx.rng('c07cli')
    n = multi = 0
    with ET.Scratch() as sc:
        for _ in range(150 if ctx.tier == 'quick' else 1500):
            # few discrepancies, so that some of the requested paths are clean and others are not
            c = gen_keepgoing_case(r, r.choice([None, 1, 1, 2]))
            dirs = [''] + [d for d in c.meta['dirs'] if d]
            k = r.choice([1, 2, 2, 3])
            paths = [r.choice(dirs) for _ in range(k)]
            b, s = sc.fresh()
            try:
                c.tree.realise(b, s)
                key = GT.order_key_for(c.meta['order_seed'])
                # only start directories that (still) are directories and whose top-level Manifest is the tree's (not IGNOREd)
                from gemato.find_top_level import find_top_level_manifest

                def usable(p):
                    try:
                        return bool(p) and os.path.isdir(os.path.join(b, p)) and not os.path.islink(os.path.join(b, p)) \
                            and os.path.realpath(find_top_level_manifest(os.path.join(b, p)) or '/') == os.path.realpath(os.path.join(b, 'Manifest'))
                    except Exception:
                        return False
                paths = [p if usable(p) else '' for p in paths]
                with ET.ScandirOrder(key):
                    rc, items = run_cli_collect(['gemato', 'verify', '--keep-going', '--no-openpgp-verify'] + [os.path.join(b, p) if p else b for p in paths])
                    # (the command-line tool asks for the TIMESTAMP first, on the same loader: that decides which Manifests are
                    #  loaded when, and so where a broken reference is noticed)
                    libs = [ET.run_impl(b, 'Manifest', c.opts, False, True, [['find_timestamp'], ['verify', p, 1, []]], key) for p in paths]
            finally:
                sc.cleanup(b, s)
            n += 1
            multi += k > 1
            want_items, want_rc, raised = [], 0, False
            for lib in libs:
                if lib[0] == 'ok' and len(lib[1]) == 2 and lib[1][0][0] == 'ok' and lib[1][1][0] == 'ok':
                    ok, calls = lib[1][1][1]
                    want_items += [[x[0], list(x[1])] for x in calls]
                    if not ok:
                        want_rc = 1
                else:
                    raised = True          # the library raised for this path: the CLI stops here with status 1
                    want_rc = 1
                    break
            rp = {'tree': describe(c.tree), 'mutations': c.meta['mutations'], 'paths': paths, 'cli_exit': rc, 'cli_reports': items,
                  'library_reports': want_items, 'library': [x if x[0] != 'ok' else x[1] for x in libs]}
            if raised:
                # the library raised (a library exception: logged, status 1; a genuine OS / decoding error: propagated): anything but success
                if rc == 0:
                    ctx.violation('spec', f'gemato verify --keep-going {paths} exited 0 although the library raised for one of the paths', rp)
            elif rc != want_rc:
                ctx.violation('spec', f'gemato verify --keep-going {paths} exited {rc}; the library verdicts for these paths give {want_rc}', rp)
            got = [x for x in items if x[0] != '<error>']
            if not raised and sorted(map(json.dumps, got)) != sorted(map(json.dumps, want_items)):
                ctx.violation('spec', f'gemato verify --keep-going {paths} reported {len(got)} offending paths, the library reports {len(want_items)} '
                              'for the same paths (C07: each offending path of the whole requested tree exactly once)', rp)
    ctx.count('tree:cli-keep-going', n, n, dist={'runs_with_several_paths': multi})


# --------------------------------------------------------------------------- C02
def chain_case(r):
    c = GT.Case()
    _r2 = __import__('random').Random(r.getrandbits(32) ^ 0x5eed)     # (later additions draw from a stream of their own)
    D = r.randint(1, 5)
    dirs = ['']
    for i in range(1, D + 1):
        dirs.append((dirs[-1] + '/' if dirs[-1] else '') + r.choice(['d', 'sub', 'x y', 'é']) + str(i))
    fmts = [''] + [r.choice(GT.FORMATS) for _ in range(D)]
    mnames = ['Manifest' + ('.' + f if f else '') for f in fmts]
    extra_level = r.choice([None] + list(range(0, D + 1)))     # a level with a second Manifest in the same directory
    contents0 = {dirs[D] + '/f': b'payload data\n'}
    for i in range(0, D + 1):
        contents0[(dirs[i] + '/' if dirs[i] else '') + 'g%d' % i] = b'file at level %d\n' % i
    tamper = r.choice(['change', 'change-same-size', 'add', 'remove', 'remove-with-manifest'])
    contents1 = dict(contents0)
    target = dirs[D] + '/f'
    if tamper == 'change':
        contents1[target] = b'evil payload, longer\n'
    elif tamper == 'change-same-size':
        contents1[target] = b'payload dbta\n'
    elif tamper == 'add':
        contents1[dirs[D] + '/added'] = b'new file\n'
        target = dirs[D] + '/added'
    else:
        del contents1[target]          # ('remove-with-manifest': the Manifest of level k goes as well, see below)
    hs = r.sample(GT.GOOD_HASHES, r.choice([0, 1, 1, 2, 3]))
    if r.random() < 0.15:
        hs = hs + [r.choice(['STREEBOG512', 'FOO', 'WHIRLPOOL', 'sha1'])]
    if hs == [] or r.random() < 0.3:
        fmts = [''] * (D + 1)           # plain Manifests: same-size tampering keeps their size too
        mnames = ['Manifest'] * (D + 1)

    def build(contents, seed, ts_levels=()):
        rr = __import__('random').Random(seed)
        t = GT.Tree()
        for d in dirs[1:]:
            t.add_dir(d)
        for p, data in contents.items():
            t.add_file(p, data)
        mdata = {}
        for i in range(D, -1, -1):
            lines = []
            for p, data in sorted(contents.items()):
                if os.path.dirname(p) == dirs[i]:
                    lines.append(ET.entry_line('DATA', os.path.basename(p), data, hs))
            if i == D:
                lines.append('DIST dist.tar 3 SHA1 ' + __import__('hashlib').sha1(b'abc').hexdigest())
            if i in ts_levels:
                lines.insert(0, 'TIMESTAMP 2020-02-02T02:02:02Z')
            if i < D:
                child = dirs[i + 1] + '/' + mnames[i + 1]
                rel = os.path.relpath(child, dirs[i]) if dirs[i] else child
                lines.append(ET.entry_line('MANIFEST', rel, mdata[i + 1], hs))
            if extra_level == i:
                half = len(lines) // 2
                ename = 'Manifest.files' + ('.' + fmts[i] if fmts[i] else '')
                edata = ('\n'.join(lines[:half]) + '\n' if half else '').encode()
                if fmts[i]:
                    edata = ET.compress(fmts[i], edata)
                t.add_file((dirs[i] + '/' if dirs[i] else '') + ename, edata)
                mdata[('x', i)] = edata
                lines = lines[half:] + [ET.entry_line('MANIFEST', ename, edata, hs)]
            text = ('\n'.join(lines) + '\n').encode()
            if fmts[i]:
                text = ET.compress(fmts[i], text)
            mdata[i] = text
            t.add_file((dirs[i] + '/' if dirs[i] else '') + mnames[i], text)
        return t, mdata
    t0, m0 = build(contents0, 1)
    t1, m1 = build(contents1, 1)
    k = r.randint(1, D)             # Manifests at levels >= k are the attacker's, those above are untouched
    if _r2.random() < 0.35:
        # the attacker's Manifests may say anything - for instance carry a TIMESTAMP line, like a top-level Manifest does
        t1, m1 = build(contents1, 1, [i for i in range(k, D + 1) if _r2.random() < 0.7])
    for i in range(0, k):
        p = (dirs[i] + '/' if dirs[i] else '') + mnames[i]
        d, name = os.path.split(p)
        t1.link(t1.lookup(d), name, t1.mkfile(1, m0[i]))
        if extra_level == i:
            ename = 'Manifest.files' + ('.' + fmts[i] if fmts[i] else '')
            t1.link(t1.lookup(d), ename, t1.mkfile(1, m0[('x', i)]))
    if tamper == 'remove-with-manifest':
        # the attacker removes the file together with the Manifest that listed it (and whatever that one referenced)
        pk = (dirs[k] + '/' if dirs[k] else '') + mnames[k]
        dk, nk = os.path.split(pk)
        t1.unlink(t1.lookup(dk), nk)
    c.tree = t1
    c.meta.update(dirs=dirs, files=sorted(contents1), manifests=[(dirs[i] + '/' if dirs[i] else '') + mnames[i] for i in range(D + 1)],
                  mutations=[tamper], k=k, depth=D, order_seed=r.randint(0, 3), target=target)
    api = r.choice(['verify', 'verify-sub', 'verify_path', 'assert_path_verifies', 'find_path_entry', 'find_dist_entry'])
    if api == 'verify':
        c.ops = [['verify', '', r.choice([0, 0, 1]), []]]
    elif api == 'verify-sub':
        c.ops = [['verify', dirs[r.randint(k, D)], 0, []]]
    elif api == 'find_dist_entry':
        c.ops = [['find_dist_entry', 'dist.tar', dirs[D]]]
    else:
        c.ops = [[api, target if not tamper.startswith('remove') else dirs[D] + '/f']]
    if api in ('verify', 'verify-sub') and _r2.random() < 0.4:
        # a last-verification time later than every mtime of the tree: data files that kept their size may be skipped, Manifests may not
        c.ops[-1][3] = [1700000000]
    c.meta['api'] = api
    # the same loader has answered harmless questions about the untouched top level before (what `gemato verify` does first:
    # find_timestamp; lookups of top-level files): nothing they load may become trusted without its check
    pre = []
    if r.random() < 0.5:
        for _ in range(r.randint(1, 3)):
            pre.append(r.choice([['find_timestamp'], ['find_timestamp'], ['find_path_entry', 'g0'], ['find_dist_entry', 'absent.tar', ''],
                                 ['verify_path', 'g0'], ['loaded'],
                                 # a pending (unsaved) update of a top-level file: the top-level Manifest is queued for rewriting
                                 ['update_path', 'g0', 'DATA', [['MD5', 'SHA1']]], ['update_path', 'g0', 'DATA', [['MD5', 'SHA1']]]]))
    c.ops = pre + c.ops
    c.meta['warm_up'] = len(pre)
    # the link that must be found broken: the Manifest of level k as recorded at level k-1
    c.meta['broken'] = (dirs[k] + '/' if dirs[k] else '') + mnames[k]
    # unless the tampering left the level-k Manifest bytes unchanged (cannot happen: its content lists the file)
    good = [h for h in hs if h in GT.GOOD_HASHES]
    c.meta['changed'] = (len(m0[k]) != len(m1[k])) or (bool(good) and m0[k] != m1[k]) or tamper == 'remove-with-manifest'
    c.meta['unsupported'] = [h for h in hs if h not in GT.GOOD_HASHES]
    return c


def unref_case(r):
    """a Manifest-named file that no accepted Manifest references, dropped into a directory whose files are covered from above: it is
    a stray file for verification and never a source of answers for the lookups (DIST lookups included)"""
    import hashlib
    c = GT.Case()
    t = GT.Tree()
    dirs = ['a'] + (['a/b'] if r.random() < 0.5 else [])
    for d in dirs:
        t.add_dir(d)
    deep = dirs[-1]
    files = {deep + '/f': b'payload\n', 'a/g': b'other\n', 'top.txt': b'top\n'}
    for p, data in files.items():
        t.add_file(p, data)
    hs = r.sample(GT.GOOD_HASHES, r.choice([1, 1, 2]))
    real = 'DIST real.tar 5 SHA1 ' + hashlib.sha1(b'hello').hexdigest()
    lines = {'': [], 'a': []}
    mid = len(dirs) == 2 and r.random() < 0.6          # a referenced Manifest in a/ (the forged one then sits in a/b)
    for p, data in sorted(files.items()):
        if mid and p.startswith('a/'):
            lines['a'].append(ET.entry_line('DATA', p[2:], data, hs))
        else:
            lines[''].append(ET.entry_line('DATA', p, data, hs))
    (lines['a'] if mid and r.random() < 0.5 else lines['']).append(real)
    mans = ['Manifest']
    if mid:
        fmt = r.choice(['', 'gz'])
        name = 'a/Manifest' + ('.' + fmt if fmt else '')
        data = ('\n'.join(lines['a']) + '\n').encode()
        data = ET.compress(fmt, data) if fmt else data
        t.add_file(name, data)
        lines[''].append(ET.entry_line('MANIFEST', name, data, hs))
        mans.append(name)
    t.add_file('Manifest', ('\n'.join(lines['']) + '\n').encode())
    forged = ['DIST evil.tar 3 SHA1 ' + hashlib.sha1(b'abc').hexdigest(), 'DIST real.tar 999 SHA1 ' + hashlib.sha1(b'xyz').hexdigest()]
    if r.random() < 0.5:
        forged.append(ET.entry_line('DATA', 'f', b'forged!\n', hs))
    t.add_file(deep + '/Manifest', ('\n'.join(forged) + '\n').encode())
    c.tree = t
    c.meta.update(dirs=[''] + dirs, files=sorted(files), manifests=mans, mutations=['unreferenced-manifest:' + deep + '/Manifest'], order_seed=r.randint(0, 3),
                  k=1, depth=len(dirs))
    ops = []
    for _ in range(r.randint(1, 3)):
        ops.append(r.choice([['find_dist_entry', 'evil.tar', deep], ['find_dist_entry', 'real.tar', deep], ['find_dist_entry', 'real.tar', 'a'],
                             ['find_path_entry', deep + '/f'], ['verify_path', deep + '/f'], ['find_dist_entry', 'evil.tar', '']]))
    c.ops = ops
    c.hash_names = set(GT.GOOD_HASHES)
    return c


def chain_retry(ctx):
    """a caller that survives the first mismatch (a file-by-file verifier collecting failures) and asks the same loader object again:
    every question whose answer needs the broken link fails again; none is answered from the Manifests above it"""
    import gemato.recursiveloader as rl
    import gemato.exceptions as ge
    import common
    r = ctx.rng('c02retry')
    n = asked = 0
    with ET.Scratch() as sc:
        for _ in range(250 if ctx.tier == 'quick' else 2500):
            c = chain_case(r)
            if not c.meta['changed'] or c.meta['unsupported']:
                continue
            D, dirs = c.meta['depth'], c.meta['dirs']
            inside = [dirs[D] + '/f', dirs[D] + '/g%d' % D, dirs[D] + '/added', dirs[D] + '/absent']
            b, s = sc.fresh()
            log = []
            try:
                c.tree.realise(b, s)
                with ET.ScandirOrder(GT.order_key_for(c.meta['order_seed'])), common.watchdog(30):
                    m = rl.ManifestRecursiveLoader(os.path.join(b, 'Manifest'), verify_openpgp=False, **r.choice([{}, {'max_jobs': 1}]))
                    for _q in range(r.randint(2, 5)):
                        api = r.choice(['find_path_entry', 'verify_path', 'assert_path_verifies', 'find_dist_entry', 'assert_directory_verifies'])
                        p = r.choice(inside)
                        try:
                            if api == 'find_dist_entry':
                                res = m.find_dist_entry('dist.tar', dirs[D])
                            elif api == 'assert_directory_verifies':
                                p = dirs[r.randint(c.meta['k'], D)]
                                res = m.assert_directory_verifies(p)
                            else:
                                res = getattr(m, api)(p)
                            log.append([api, p, 'returned', repr(res)[:80]])
                        except (ge.GematoException, OSError) as e:
                            log.append([api, p, 'raised', type(e).__name__])
            except common.CaseTimeout:
                log.append(['-', '-', 'raised', 'DidNotTerminate'])
            finally:
                sc.cleanup(b, s)
            n += 1
            asked += len(log)
            bad = [x for x in log if x[2] == 'returned']
            if bad:
                ctx.violation('spec', f'after {c.meta["mutations"][0]} below the untouched level {c.meta["k"] - 1}, on one loader object: {bad[0][0]}({bad[0][1]}) '
                              f'returned {bad[0][3]} (call {log.index(bad[0]) + 1} of {len(log)}; the earlier ones raised) although {c.meta["broken"]} does not match its MANIFEST entry',
                              {'meta': {k: v for k, v in c.meta.items() if k != 'paths'}, 'calls': log, 'tree': describe(c.tree)})
    ctx.count('tree:chain-retry', n, n, dist={'questions_asked': asked})


def c02(ctx):
    res = c01_impl(ctx, 2500, 25000, chain_case, 'tree:chain-tamper',
                   'tampering below an untouched Manifest: result differs from the reference (C02)')
    detected = 0
    for c, i, m in res:
        if not c.meta['changed'] or i[0] != 'ok' or not i[1]:
            continue
        if len(i[1]) <= c.meta['warm_up']:
            continue
        x = i[1][c.meta['warm_up']]
        ok = (x[0] == 'err' and x[1][0] == 'ManifestMismatch' and x[1][1] == c.meta['broken']) or \
             (x[0] == 'err' and x[1][0] == 'UnsupportedHash' and c.meta['unsupported']) or \
             (c.meta['api'] == 'verify' and x[0] == 'ok' and x[1][0] == 0 and any(call[0] == c.meta['broken'] for call in x[1][1]))
        # with the extra same-directory Manifest the file entry may live in Manifest.files: the broken link is then
        # either Manifest or Manifest.files of level k
        if not ok and x[0] == 'err' and x[1][0] == 'ManifestMismatch' and os.path.dirname(x[1][1]) == os.path.dirname(c.meta['broken']) \
                and os.path.basename(x[1][1]).startswith('Manifest'):
            ok = True
        if ok:
            detected += 1
        else:
            ctx.violation('spec', f'tampered {c.meta["target"]} below the untouched level {c.meta["k"] - 1} was not detected by '
                          f'{c.meta["api"]}: {str(x)[:200]} (expected a mismatch for {c.meta["broken"]})',
                          {'meta': {k: v for k, v in c.meta.items() if k != 'paths'}, 'ops': c.ops, 'impl': i, 'tree': describe(c.tree)})
    ctx.cov['engines']['tree:chain-tamper']['tamperings_detected_at_the_broken_link'] = detected
    c01_impl(ctx, 200, 2000, unref_case, 'tree:unreferenced-manifest',
             'a Manifest file that no accepted Manifest references influenced a lookup (C02)')
    chain_retry(ctx)
    # the same through the command-line tool: a broken chain never ends with exit status 0, with or without --keep-going
    r = ctx.rng('c02cli')
    n = ok = 0
    with ET.Scratch() as sc:
        for _ in range(150 if ctx.tier == 'quick' else 1500):
            c = chain_case(r)
            if not c.meta['changed']:
                continue
            b, s = sc.fresh()
            try:
                c.tree.realise(b, s)
                sub = r.choice(['', c.meta['dirs'][r.randint(c.meta['k'], c.meta['depth'])]])
                flags = r.choice([[], ['--keep-going']]) + r.choice([[], ['-j', '1'], ['--jobs', '2']])
                with ET.ScandirOrder(GT.order_key_for(c.meta['order_seed'])):
                    rc, items = run_cli_collect(['gemato', 'verify', '--no-openpgp-verify'] + flags + [os.path.join(b, sub) if sub else b])
            finally:
                sc.cleanup(b, s)
            n += 1
            if rc == 0:
                ctx.violation('spec', f'gemato verify {" ".join(flags)} {sub or "<top>"} exited 0 although {c.meta["target"]} and every Manifest up to level '
                              f'{c.meta["k"]} were replaced below the untouched level {c.meta["k"] - 1}',
                              {'meta': {k: v for k, v in c.meta.items() if k != 'paths'}, 'flags': flags, 'path': sub, 'log': items, 'tree': describe(c.tree)})
            else:
                ok += 1
    ctx.count('cli:chain-tamper', n, n, dist={'runs_not_exiting_0': ok})


# --------------------------------------------------------------------------- C06
ERRNOS = ['EACCES', 'EPERM', 'EIO', 'ENOMEM', 'ELOOP', 'ENOTDIR', 'EMFILE', 'ESTALE']


def fault_case(r):
    c = GT.Case()
    t, files, written = GT.build_consistent(r, c, nfiles=r.randint(2, 7), allow_multi=False)
    muts = []
    if r.random() < 0.3:
        muts.append(GT.mutate(r, c, files, written, r.choice(['stray', 'stray-hidden', 'file-symlink'])))
    c.meta['mutations'] = muts
    c.meta['order_seed'] = r.randint(0, 3)
    # pick an object and a primitive
    inos = [(i, n) for i, n in t.nodes.items()]
    i, n = r.choice(inos)
    if n['k'] == 'd':
        prim = r.choice(['scandir', 'stat', 'open'])
    else:
        prim = r.choice(['open', 'fstat', 'read', 'open', 'read', 'all', 'all'])
    en = r.choice(ERRNOS)
    if prim == 'all':
        # an object that cannot be accessed at all (e.g. behind an unsearchable directory)
        c.faults = [[q, i, en] for q in ('open', 'stat', 'fstat', 'read', 'scandir')]
    else:
        c.faults = [[prim, i, en]]
    c.meta['fault'] = [prim, i, en, n['k']]
    paths = [''] + [d for d in c.meta['dirs'] if d]
    c.ops = [['verify', r.choice(paths + ['', '']), r.choice([0, 0, 1]), r.choice([[], [], [1700000000]])]]
    return c


def c06(ctx):
    res = c01_impl(ctx, 3000, 25000, fault_case, 'tree:faults',
                   'with an injected I/O error the result differs from the reference (C06: the error or a mismatch, never success)')
    hit = 0
    for c, i, m in res:
        if i[0] == 'ok' and i[1] and i[1][0][0] == 'err' and i[1][0][1][0] == 'OSError' and i[1][0][1][1] == c.faults[0][2]:
            hit += 1
    ctx.cov['engines']['tree:faults']['runs_ending_with_the_injected_error'] = hit
    # the update side: scan of unregistered Manifests, refresh, save - with a fault on one object
    import p_update as PU
    res2 = c01_impl(ctx, 1500, 12000, lambda r: PU.gen_c10_case(r, 'fault'), 'tree:faults-update',
                    'with an injected I/O error during update the result differs from the reference (C06: the error, never success)')
    hit2 = wrote = 0
    for c, i, m in res2:
        if i[0] != 'ok':
            continue
        out = i[1]
        k = next((n for n, x in enumerate(out) if x[0] != 'ok'), None)
        if k is not None and out[k][1][0] == 'OSError':
            hit2 += 1
        probs = []
        PU.c10_check_case(ctx, c, out, lambda kind, what: probs.append((kind, what)))
        for kind, what in probs:
            if kind in ('written-before-save', 'written-by-failed-op'):
                wrote += 1
                ctx.violation('spec', f'a failed or unsaved update has written to the tree: {what}',
                              {'meta': {k2: v for k2, v in c.meta.items() if k2 != 'paths'}, 'ops': c.ops, 'faults': c.faults, 'tree': describe(c.tree)})
    ctx.cov['engines']['tree:faults-update'].update(runs_ending_with_the_injected_error=hit2, runs_that_wrote_without_save=wrote)
    cli_unreadable_outer(ctx)
    transient_faults(ctx)
    open_refused(ctx)


def open_refused(ctx):
    """open() of a listed regular file is refused with an errno that usually means "not a thing one opens" (ENXIO, EOPNOTSUPP - a file
    on an odd filesystem, a device node that stat() takes for regular) or with any other errno: whatever gemato makes of it, the
    verification of a directory that contains the file never reports success (judged on the implementation alone; the model treats these
    two errnos as "exists, not opened" only for sockets)"""
    r = ctx.rng('c06refused')
    st = {'runs': 0, 'fault_fired': 0, 'not_success': 0, 'by_errno': {}}
    with ET.Scratch() as sc:
        for _ in range(150 if ctx.tier == 'quick' else 1500):
            c = GT.Case()
            t, files, written = GT.build_consistent(r, c, nfiles=r.randint(2, 7), allow_multi=False)
            c.meta['order_seed'] = r.randint(0, 3)
            listed = [p for p in sorted(files) if not any(x.startswith('.') for x in p.split('/')) and p not in c.meta.get('ignored', [])
                      and not any(p == g or p.startswith(g + '/') for g in c.meta.get('ignored', []))]
            if not listed or t.link_paths():
                continue
            p = r.choice(listed)
            i = t.lookup(p)
            en = r.choice(['ENXIO', 'EOPNOTSUPP', 'ENXIO', 'EOPNOTSUPP', 'ENODEV', 'EBUSY', 'ETXTBSY'])
            d = os.path.dirname(p)
            start = r.choice(['', d, d.split('/')[0]])
            # (no last_mtime: a file that is not newer and has its recorded size is legitimately skipped without being opened for reading)
            op = ['verify', start, r.choice([0, 0, 1]), []]
            b, s = sc.fresh()
            try:
                paths = t.realise(b, s)
                if i not in paths:
                    continue
                stt = os.stat(paths[i])
                try:
                    with common.watchdog(30):
                        out = ET.run_impl(b, 'Manifest', (None, False, None, None, 'default', None, None, False), False, True, [op],
                                          GT.order_key_for(c.meta['order_seed']), [('open', (stt.st_dev, stt.st_ino), en)])
                except common.CaseTimeout:
                    out = ['err', ['DidNotTerminate']]
                fired = ET.FaultInjector.fired
            finally:
                sc.cleanup(b, s)
            st['runs'] += 1
            if not fired:
                continue
            st['fault_fired'] += 1
            st['by_errno'][en] = st['by_errno'].get(en, 0) + 1
            success = out[0] == 'ok' and out[1] and out[1][0][0] == 'ok' and out[1][0][1][0] == 1 and not out[1][0][1][1]
            if success:
                ctx.violation('spec', f'open() of the listed file {p} fails with {en}, yet the verification of {start or "<top>"} reported success',
                              {'meta': {k: v for k, v in c.meta.items() if k != 'paths'}, 'op': op, 'fault': ['open', p, en], 'impl': out, 'tree': describe(t)})
            else:
                st['not_success'] += 1
    ctx.count('tree:open-refused', st['runs'], st['runs'], dist=st)


def transient_faults(ctx):
    """an I/O error that hits only the n-th access to one object (the first accesses succeed): an update whose run meets the
    error fails, and the tree is as before - the error is never taken for 'the object has vanished'"""
    import p_update as PU
    r = ctx.rng('c06transient')
    st = {'runs': 0, 'fault_fired': 0, 'update_failed_as_required': 0}
    with ET.Scratch() as sc:
        for _ in range(400 if ctx.tier == 'quick' else 4000):
            c = PU.gen_c10_case(r, 'plain')
            t = c.tree
            upd = [op for op in c.ops if op[0] == 'update'][0]
            reach = dict((ino, p) for p, ino in t.files())
            dirs_ = [(i, n) for i, n in t.nodes.items() if n['k'] == 'd']
            files_ = [(i, t.nodes[i]) for i in reach]
            i, n = r.choice(dirs_ * 2 + files_) if files_ else r.choice(dirs_)
            prim = r.choice(['stat', 'stat', 'scandir']) if n['k'] == 'd' else r.choice(['open', 'fstat', 'stat'])
            en = r.choice(['EACCES', 'EIO', 'ENOMEM', 'ESTALE', 'EPERM'])
            # (the first access too: a listing that fails once, in the scan for unregistered Manifests, and works in the walk that follows)
            nth = r.choice([2, 2, 3]) if r.random() < 0.7 else 1
            b, s = sc.fresh()
            try:
                paths = t.realise(b, s)
                if i not in paths:
                    continue
                stt = os.stat(paths[i])
                before = ET.canon_files(ET.list_real_files(b))
                out = ET.run_impl(b, c.top, c.opts, c.allow_create, c.allow_xdev, [upd], GT.order_key_for(c.meta['order_seed']),
                                  [(prim, (stt.st_dev, stt.st_ino), (en, nth))])
                fired = ET.FaultInjector.fired
                after = ET.canon_files(ET.list_real_files(b))
            finally:
                sc.cleanup(b, s)
            st['runs'] += 1
            if not fired:
                continue
            st['fault_fired'] += 1
            failed = out[0] != 'ok' or any(x[0] != 'ok' for x in out[1])
            rp = {'meta': {k: v for k, v in c.meta.items() if k != 'paths'}, 'op': upd, 'fault': [prim, i, en, 'call %d' % nth],
                  'object': reach.get(i, 'directory inode %d' % i), 'impl': out, 'tree': describe(t)}
            if not failed:
                ctx.violation('spec', f'{prim}() of {rp["object"]} failed with {en} on its call no. {nth} during the update, yet the update reported success', rp)
            elif before != after:
                ctx.violation('spec', f'an update that met {en} has written to the tree', rp)
            else:
                st['update_failed_as_required'] += 1
    ctx.count('tree:transient-faults', st['runs'], st['runs'], dist=st)


def cli_unreadable_outer(ctx):
    """the command-line tool started on a sub-directory that has a Manifest of its own, while the Manifest of an outer directory
    cannot be opened (it is a directory / a symlink loop): the run must not succeed against the inner Manifest alone"""
    r = ctx.rng('c06cli')
    n = done = 0
    with ET.Scratch() as sc:
        for _ in range(120 if ctx.tier == 'quick' else 1200):
            c = GT.Case()
            t, files, written = GT.build_consistent(r, c, nfiles=r.randint(2, 6), allow_multi=False)
            subs = sorted({os.path.dirname(m) for m in written if os.path.dirname(m)})
            if not subs:
                continue
            d = r.choice(subs)
            how = r.choice(['directory', 'symlink-loop'])
            root = t.lookup('')
            t.unlink(root, 'Manifest')
            if how == 'directory':
                t.add_dir('Manifest')
            else:
                t.link(root, 'Manifest', ('e', 'ELOOP'))
            b, s2 = sc.fresh()
            try:
                t.realise(b, s2)
                if not os.path.isdir(os.path.join(b, d)):
                    continue
                with ET.ScandirOrder(GT.order_key_for(0)):
                    rc, items = run_cli_collect(['gemato', 'verify', '--no-openpgp-verify', os.path.join(b, d)])
                    rc2, items2 = run_cli_collect(['gemato', 'verify', '--keep-going', '--no-openpgp-verify', os.path.join(b, d)])
            finally:
                sc.cleanup(b, s2)
            n += 1
            for label, code, it in (('verify', rc, items), ('verify --keep-going', rc2, items2)):
                if code == 0:
                    ctx.violation('spec', f'gemato {label} {d} exited 0 although the Manifest of the top directory cannot be opened ({how}): '
                                  'an unreadable Manifest was treated as non-existent',
                                  {'tree': describe(t), 'path': d, 'outer_manifest': how, 'exit': code, 'log': it})
                else:
                    done += 1
    ctx.count('cli:unreadable-outer-manifest', n, n, dist={'runs_not_succeeding': done})
    # ... or the outer directory itself cannot be inspected while the discovery climbs (stat fails: EACCES, EIO, ESTALE): an error, not
    # "nothing above"
    n3 = ok3 = 0
    with ET.Scratch() as sc:
        for _ in range(60 if ctx.tier == 'quick' else 600):
            c = GT.Case()
            t, files, written = GT.build_consistent(r, c, nfiles=r.randint(2, 6), allow_multi=False)
            subs = sorted({os.path.dirname(m) for m in written if os.path.dirname(m) and not any(x.startswith('.') for x in m.split('/'))})
            if not subs:
                continue
            d = r.choice(subs)
            ups = [''] + [a for a in subs if d.startswith(a + '/')]
            victim = r.choice(ups)
            en = r.choice(['EACCES', 'EIO', 'ESTALE', 'ENOMEM'])
            nth = r.choice([None, None, 2, 3])
            b, s2 = sc.fresh()
            try:
                t.realise(b, s2)
                if not os.path.isdir(os.path.join(b, d)):
                    continue
                st = os.stat(os.path.join(b, victim) if victim else b)
                fault = ('stat', (st.st_dev, st.st_ino), en if nth is None else (en, nth))
                with ET.FaultInjector([fault]), ET.ScandirOrder(GT.order_key_for(0)):
                    cmd = r.choice(['verify', 'verify', 'update'])
                    rc, items = run_cli_collect(['gemato', cmd] + (['--no-openpgp-verify'] if cmd == 'verify' else ['-H', 'SHA1']) + [os.path.join(b, d)])
                    fired = ET.FaultInjector.fired
            finally:
                sc.cleanup(b, s2)
            n3 += 1
            if fired and rc == 0:
                ctx.violation('spec', f'gemato {cmd} {d} exited 0 although stat() of the directory {victim or "<top>"} above it failed with {en}'
                              + (f' (call {nth})' if nth else '') + ': a directory that cannot be inspected was taken to hold no Manifest',
                              {'tree': describe(t), 'path': d, 'unreadable_directory': victim, 'errno': en, 'nth_call': nth, 'exit': rc, 'log': items[:6]})
            elif fired:
                ok3 += 1
    ctx.count('cli:unreadable-outer-directory', n3, n3, dist={'runs_with_the_fault_hit_and_not_succeeding': ok3})
    # a compressed sub-Manifest whose stream is damaged (the parent's entry matches the damaged file): reading it fails
    # with an error that carries no errno; neither verify nor update may end with exit status 0
    import gzip as _gzip
    import bz2 as _bz2
    n2 = ok2 = 0
    with ET.Scratch() as sc:
        for _ in range(60 if ctx.tier == 'quick' else 600):
            fmt = r.choice(['gz', 'bz2'])
            good = (_gzip.compress if fmt == 'gz' else _bz2.compress)(b'DATA f 2\n' * 40)
            k = r.randrange(len(good) // 2, len(good) - 4)
            bad = good[:k] + bytes([good[k] ^ 0x55]) + good[k + 1:]
            t = GT.Tree()
            t.add_dir('sub')
            t.add_file('sub/f', b'x\n')
            t.add_file('sub/Manifest.' + fmt, bad)
            t.add_file('Manifest', (ET.entry_line('MANIFEST', 'sub/Manifest.' + fmt, bad, ['SHA1']) + '\n').encode())
            b, s2 = sc.fresh()
            try:
                t.realise(b, s2)
                cmd = r.choice([['verify', '--no-openpgp-verify'], ['verify', '--keep-going', '--no-openpgp-verify'], ['update', '--hashes', 'SHA1']])
                rc, items = run_cli_collect(['gemato'] + cmd + [b])
            finally:
                sc.cleanup(b, s2)
            n2 += 1
            if rc == 0:
                ctx.violation('spec', f'gemato {" ".join(cmd)} exited 0 although sub/Manifest.{fmt} cannot be read (damaged {fmt} stream)',
                              {'format': fmt, 'damaged_byte': k, 'command': cmd, 'exit': rc, 'log': items})
            else:
                ok2 += 1
    ctx.count('cli:damaged-compressed-manifest', n2, n2, dist={'runs_not_exiting_0': ok2})


# --------------------------------------------------------------------------- C16
def graph_cases(r, quick):
    """directory graphs: every rooted tree shape with <= 4 directories below the root x every set of <= 3 extra
    directory edges (symlinks: self, parent, ancestor, sibling, mutual, chains) x IGNORE placement x mode"""
    import itertools
    shapes = []
    for n in range(1, 5):
        for parents in itertools.product(*[range(0, i) for i in range(1, n + 1)]):
            shapes.append(parents)          # parents[i-1] = parent of dir i (0 = root)
    all_cases = []
    for parents in shapes:
        n = len(parents)
        pairs = [(s, t) for s in range(0, n + 1) for t in range(0, n + 1)]
        for k in range(0, 4):
            for edges in itertools.combinations(pairs, k):
                all_cases.append((parents, edges))
    if quick:
        picked = [all_cases[i] for i in sorted(r.sample(range(len(all_cases)), 700))]
        # always include the deeper shapes with sibling links (shared-list aliasing shows there)
        picked += [c for c in all_cases if len(c[0]) == 4 and len(c[1]) == 1][:200]
    else:
        small = [c for c in all_cases if len(c[0]) <= 3]
        big = [c for c in all_cases if len(c[0]) == 4]
        picked = small + [big[i] for i in sorted(r.sample(range(len(big)), 12000))]
    out = []
    for parents, edges in picked:
        for ign in ((0, 1, 2) if not quick else (r.choice([0, 0, 1, 2]),)):
            for pol in (0, 1):
                out.append((parents, edges, ign, pol))
    # every small graph with one extra edge, with an IGNORE entry for what lies BEHIND the link (the link itself is not ignored: a link
    # back to an ancestor - the top directory included - still raises the loop error; finding D34)
    for parents, edges in all_cases:
        if len(parents) <= 2 and len(edges) == 1:
            for pol in (0, 1):
                out.append((parents, edges, 3, pol))
    return out, len(all_cases)


def graph_case(spec, xdev_at=None):
    parents, edges, ign, pol = spec
    c = GT.Case()
    t = GT.Tree()
    n = len(parents)
    paths = {0: ''}
    for i in range(1, n + 1):
        p = paths[parents[i - 1]]
        paths[i] = (p + '/' if p else '') + 'd%d' % i
        t.add_dir(paths[i])
    lines = []
    for i in range(0, n + 1):
        fp = (paths[i] + '/' if paths[i] else '') + 'f%d' % i
        t.add_file(fp, b'data %d\n' % i)
        lines.append(ET.entry_line('DATA', fp, b'data %d\n' % i, ['SHA1']))
    loop_edges = []
    for j, (s, tg) in enumerate(edges):
        name = 'l%d' % j
        t.link(t.lookup(paths[s]), name, t.lookup(paths[tg]))
        lp = (paths[s] + '/' if paths[s] else '') + name
        # ancestor-or-self of s ?
        a = s
        anc = {s}
        while a != 0:
            a = parents[a - 1]
            anc.add(a)
        loop_edges.append((lp, tg in anc))
    if ign and edges:
        lp = loop_edges[0][0]
        if ign == 1:
            lines.append('IGNORE ' + lp)
        elif ign == 3:
            # the first step of the way from the link's target back down to the link
            back = os.path.relpath(lp, paths[edges[0][1]] or '.') if loop_edges[0][1] else os.path.basename(lp)
            lines.append('IGNORE ' + lp + '/' + back.split('/')[0])
        else:
            d = os.path.dirname(lp)
            lines.append('IGNORE ' + (d if d else lp))
    # independent oracle: is a cycle of directory edges reachable from the root?
    succ = {i: set() for i in range(n + 1)}
    for i in range(1, n + 1):
        succ[parents[i - 1]].add(i)
    for s_, t_ in edges:
        succ[s_].add(t_)
    state = {}

    def cyc(v):
        state[v] = 1
        for x in succ[v]:
            if state.get(x) == 1 or (state.get(x) is None and cyc(x)):
                return True
        state[v] = 2
        return False
    has_cycle = cyc(0)
    if not has_cycle and edges:
        # acyclic: list every file under every path it is reachable by, so that the tree is consistent
        # (directory symlinks are followed and their files treated like any others)
        names = {i: {} for i in range(n + 1)}
        for i in range(1, n + 1):
            names[parents[i - 1]]['d%d' % i] = i
        for j, (s_, t_) in enumerate(edges):
            names[s_]['l%d' % j] = t_

        def walk(v, prefix):
            fp = prefix + 'f%d' % v
            line = ET.entry_line('DATA', fp, b'data %d\n' % v, ['SHA1'])
            if line not in lines:
                lines.append(line)
            for nm, x in names[v].items():
                walk(x, prefix + nm + '/')
        walk(0, '')
    t.add_file('Manifest', ('\n'.join(lines) + '\n').encode())
    c.tree = t
    c.meta.update(dirs=[paths[i] for i in range(n + 1)], files=[], manifests=['Manifest'], mutations=[str(spec)],
                  order_seed=len(edges), loop_edges=loop_edges, ign=ign, has_cycle=has_cycle)
    c.ops = [['verify', '', pol, []]]
    return c


def c16(ctx):
    import signal
    quick = ctx.tier == 'quick'
    r = ctx.rng('c16')
    specs, total = graph_cases(r, quick)
    cases = [graph_case(s) for s in specs]
    # a second filesystem mounted in via symlink at any position (directory on device 2)
    for _ in range(220 if quick else 2500):
        c = gen_verify_case(r, n_mut=0)
        GT.mutate(r, c, {p: b'' for p in c.meta['files']}, {m: b'' for m in c.meta['manifests']}, 'xdev-dir')
        if r.random() < 0.5:
            GT.mutate(r, c, {p: b'' for p in c.meta['files']}, {m: b'' for m in c.meta['manifests']}, 'dir-symlink')
        c.allow_xdev = r.random() < 0.3
        c.meta['mutations'] = ['xdev-dir']
        c.ops = [['verify', r.choice([''] + [d for d in c.meta['dirs'] if d]), r.choice([0, 1]), []]]
        if r.random() < 0.5:
            # the single-path entry points on an object of the other filesystem
            xds = [(d + '/' if d else '') + 'xd' for d in [''] + [d for d in c.meta['dirs'] if d] if c.tree.lookup((d + '/' if d else '') + 'xd') is not None]
            if xds:
                xd = r.choice(xds)
                c.ops = [[r.choice(['assert_path_verifies', 'assert_path_verifies', 'verify_path']), r.choice([xd + '/inner', xd + '/inner', xd + '/inner', xd + '/.hidden', xd])]]
        cases.append(c)
    # the update / create walks (incl. the scan for unregistered Manifests) over the same hazards
    import p_update as PU
    for _ in range(800 if quick else 4000):
        cases.append(PU.gen_c10_case(r, r.choice(['xdev', 'loop'])))
    # ... and over the enumerated symlink graphs
    for s in (specs[::6] if quick else specs[::3]):
        c = graph_case(s)
        c.meta.pop('loop_edges', None)
        c.ops = [['update', '', [], []], ['files']]
        c.opts = (['SHA1'], False, None, None, 'default', None, None, False)
        cases.append(c)

    # sibling directories whose names are string prefixes of one another, the first with a sub-directory, the second with a link to the first:
    # a link to a sibling is no loop, for the update / create walk as little as for verification, in every listing order
    sib = []
    for a_name, b_name in (('lib', 'lib64'), ('a', 'ab'), ('x1', 'x10')):
        for order in range(4):
            for op in ('update', 'verify'):
                c = GT.Case()
                t = GT.Tree()
                lines = []
                for d in (a_name, a_name + '/sub', b_name):
                    t.add_dir(d)
                for fp, data in ((a_name + '/sub/f', b'in the sub-directory\n'), (a_name + '/g', b'g\n'), (b_name + '/h', b'h\n')):
                    t.add_file(fp, data)
                    lines.append(ET.entry_line('DATA', fp, data, ['SHA1']))
                    if fp.startswith(a_name + '/'):
                        lines.append(ET.entry_line('DATA', b_name + '/x/' + fp[len(a_name) + 1:], data, ['SHA1']))
                t.link(t.lookup(b_name), 'x', t.lookup(a_name))
                t.add_file('Manifest', ('\n'.join(lines) + '\n').encode())
                c.tree = t
                c.meta.update(dirs=['', a_name, a_name + '/sub', b_name], files=[], manifests=['Manifest'], mutations=['prefix-siblings-with-link:' + a_name + ':' + b_name],
                              order_seed=order)
                c.opts = (['SHA1'], False, None, None, 'default', None, None, False)
                c.ops = [['update', '', [], []], ['files']] if op == 'update' else [['verify', '', 0, []]]
                sib.append(c)
    cases += sib

    def on_alarm(signum, frame):
        raise TimeoutError('watchdog: the walk did not terminate within 20 s')
    old = signal.signal(signal.SIGALRM, on_alarm)
    signal.alarm(0)
    try:
        with ET.Scratch() as sc:
            # the watchdog covers each implementation run
            orig = ET.run_impl

            def guarded(*a, **k):
                # run_cases holds the (repeating) watchdog: a walk that does not come back is reported there
                return orig(*a, **k)
            ET.run_impl = guarded
            try:
                res = run_cases(ctx, cases, 'tree:symlink-graphs', sc)
            finally:
                ET.run_impl = orig
    finally:
        signal.signal(signal.SIGALRM, old)
    reclassify(ctx, 'directory symlinks / filesystem boundary: result differs from the reference (C16)')
    loops = raised = xdev = 0
    for c, i, m in res:
        if str((c.meta.get('mutations') or [''])[0]).startswith('prefix-siblings-with-link') and i[0] == 'ok' and i[1] and i[1][0][0] == 'err' \
                and i[1][0][1][0] == 'ManifestSymlinkLoop':
            ctx.violation('spec', f'ManifestSymlinkLoop raised for a link to a SIBLING directory ({c.meta["mutations"][0]}, {c.ops[0][0]})',
                          {'tree': describe(c.tree), 'ops': c.ops, 'impl': i})
            continue
        if i[0] == 'timeout':
            ctx.violation('spec', 'the tree walk did not terminate', {'tree': describe(c.tree), 'ops': c.ops})
            continue
        if 'loop_edges' not in c.meta or i[0] != 'ok' or not i[1]:
            if i[0] == 'ok' and i[1] and i[1][0][0] == 'err' and i[1][0][1][0] == 'ManifestCrossDevice':
                xdev += 1
            continue
        x = i[1][0]
        has_loop = c.meta['has_cycle']
        # independent oracle (keep-going mode, no IGNORE): a link to an ancestor-or-self raises the loop error,
        # and without such a link the loop error is never raised
        is_loop_err = x[0] == 'err' and x[1][0] == 'ManifestSymlinkLoop'
        if c.meta['ign'] in (0, 3) and c.ops[0][2] == 1:
            if has_loop:
                loops += 1
                if not is_loop_err:
                    ctx.violation('spec', f'a directory symlink leads back to an ancestor but the result is {str(x)[:150]}',
                                  {'tree': describe(c.tree), 'loop_edges': c.meta['loop_edges']})
                else:
                    raised += 1
        if not has_loop and is_loop_err and c.meta['ign'] == 0:
            ctx.violation('spec', 'ManifestSymlinkLoop raised although no directory symlink leads back to an ancestor',
                          {'tree': describe(c.tree), 'edges': c.meta['loop_edges'], 'impl': x})
    ctx.count('tree:symlink-graphs', len(cases), len(cases),
              samples=[{'shape_parents': specs[5][0], 'extra_edges': specs[5][1], 'ignore': specs[5][2], 'policy': specs[5][3], 'impl': res[5][1]}],
              dist={'graph_space_total': total, 'loop_graphs_keep_going': loops, 'loop_error_raised': raised,
                    'cross_device_errors': xdev}, exhaustive=(not quick))
    cli_xdev_several(ctx)
    # the device check of the upward search for the top-level Manifest (find_top_level.py, one of the anchors of this property): in
    # one-file-system mode a Manifest on another device - the directory, or the file behind a link - is not what the search returns
    import p_top
    p_top.c15(ctx, device_only=True)


def cli_xdev_several(ctx):
    """one-file-system mode for every path of one command: `gemato verify -x p1 p2 ...` (and update) fails iff one of the single-path
    runs with -x fails; without -x the foreign objects are verified like any others"""
    r = ctx.rng('c16cli')
    n = agree = 0
    with ET.Scratch() as sc:
        for _ in range(40 if ctx.tier == 'quick' else 400):
            t = GT.Tree()
            lines = []
            foreign_in = r.choice(['a', 'b', 'c', 'b'])
            for d in ('a', 'b', 'c'):
                t.add_dir(d)
                t.add_file(d + '/f', b'file in ' + d.encode() + b'\n')
                lines.append(ET.entry_line('DATA', d + '/f', b'file in ' + d.encode() + b'\n', ['SHA1']))
            di = t.lookup(foreign_in)
            shape = r.choice(['dir-with-listed-file', 'listed-file', 'manifest-file'])
            if shape == 'dir-with-listed-file':
                container = t.new({'k': 'd', 'dev': 2, 'parent': 0, 'ents': []})
                t.nodes[container]['parent'] = container
                x = t.mkdir(container, 2)
                t.link(container, 'xd', x)
                t.link(x, 'inner', t.mkfile(2, b'on other device'))
                t.link(di, 'xd', x)
                lines.append(ET.entry_line('DATA', foreign_in + '/xd/inner', b'on other device', ['SHA1']))
            elif shape == 'listed-file':
                t.link(di, 'xf', t.mkfile(2, b'foreign file'))
                lines.append(ET.entry_line('DATA', foreign_in + '/xf', b'foreign file', ['SHA1']))
            else:
                t.link(di, 'xm', t.mkfile(2, b''))
                lines.append(ET.entry_line('MANIFEST', foreign_in + '/xm', b'', ['SHA1']))
            t.add_file('Manifest', ('\n'.join(lines) + '\n').encode())
            order = r.sample(['a', 'b', 'c'], r.choice([2, 3, 3]))
            cmd = r.choice(['verify', 'verify', 'update'])
            extra = ['--no-openpgp-verify'] if cmd == 'verify' else ['-H', 'SHA1']
            b, s = sc.fresh()
            try:
                t.realise(b, s)
                singles = {p: run_cli_collect(['gemato', cmd, '-x'] + extra + [os.path.join(b, p)])[0] for p in order}
                multi_x, items = run_cli_collect(['gemato', cmd, '-x'] + extra + [os.path.join(b, p) for p in order])
                multi, _ = run_cli_collect(['gemato', cmd] + extra + [os.path.join(b, p) for p in order])
            finally:
                sc.cleanup(b, s)
            n += 1
            expect_fail = any(v != 0 for v in singles.values())
            replay = {'paths': order, 'foreign_object_in': foreign_in, 'shape': shape, 'command': cmd, 'single_runs_with_x': singles, 'several_with_x': multi_x,
                      'several_without_x': multi, 'log': items}
            if foreign_in in order and not expect_fail:
                ctx.violation('spec', f'gemato {cmd} -x {foreign_in} exits 0 although {foreign_in} holds an object on another filesystem ({shape})', replay)
            elif (multi_x != 0) != expect_fail:
                ctx.violation('spec', f'gemato {cmd} -x {" ".join(order)} exits {multi_x} but the single-path runs with -x exit {singles}: one-file-system mode '
                              f'does not hold for every path', replay)
            elif multi != 0:
                ctx.violation('spec', f'gemato {cmd} {" ".join(order)} (crossing allowed) exits {multi} on a consistent tree', replay)
            else:
                agree += 1
    ctx.count('cli:xdev-several-paths', n, n, dist={'runs_agreeing': agree})


# --------------------------------------------------------------------------- update / save
HASHSETS = [['SHA1'], ['SHA256', 'SHA512'], ['BLAKE2B', 'SHA512'], ['MD5', 'SHA1', 'SHA3_256']]


def gen_update_case(r, profile='default', rounds=None):
    c = GT.Case()
    t, files, written = GT.build_consistent(r, c)
    muts = []
    prior = r.choice(['consistent', 'stale', 'stale', 'absent', 'unregistered', 'stale+unregistered', 'size-only'])
    if prior == 'absent':
        for p in list(written):
            d, name = os.path.split(p)
            di = t.lookup(d)
            if di is not None and t.nodes[di]['k'] == 'd':
                t.unlink(di, name)
        c.allow_create = True
        c.meta['manifests'] = []
    if 'stale' in prior:
        for _ in range(r.randint(1, 3)):
            muts.append(GT.mutate(r, c, files, written, r.choice(['content-same-size', 'content-other-size', 'delete', 'stray',
                                                                  'stray-hidden', 'mtime', 'stray', 'delete', 'file-symlink',
                                                                  'dangling-link', 'dir-symlink'])))
    if 'unregistered' in prior:
        dirs = [d for d in c.meta['dirs'] if t.lookup(d) is not None and t.nodes[t.lookup(d)]['k'] == 'd']
        for _ in range(r.randint(1, 2)):
            d = r.choice(dirs)
            name = r.choice(['Manifest', 'Manifest.gz', 'Manifest.bz2'])
            p = (d + '/' + name) if d else name
            if t.lookup(p) is None and p != 'Manifest':
                kind = r.choice(['valid-empty', 'valid', 'garbage', 'syntax'])
                text = {'valid-empty': '', 'valid': 'DATA nonexist 0\nIGNORE zz\n', 'garbage': None, 'syntax': 'FOO bar\n'}[kind]
                if text is None:
                    data = b'\x00\x01garbage'
                else:
                    data = text.encode()
                    fmt = ET.suffix_of(name)
                    if fmt:
                        data = ET.compress(fmt, data)
                t.add_file(p, data)
                muts.append('unregistered:' + kind + ':' + p)
    if prior != 'absent' and r.random() < 0.12:
        # a sibling whose name merely string-extends the name of a directory with a Manifest of its own, holding a new file
        mdirs = sorted({os.path.dirname(m) for m in written if os.path.dirname(m) and t.lookup(os.path.dirname(m)) is not None})
        if mdirs:
            X = r.choice(mdirs)
            Y = X + r.choice(['2', 'x', '-extra', '.d', 'way'])
            if t.lookup(Y) is None and t.lookup(os.path.dirname(Y)) is not None and t.nodes[t.lookup(os.path.dirname(Y))]['k'] == 'd':
                t.add_dir(Y)
                t.add_file(Y + '/newfile', b'new file in the sibling\n')
                c.meta['dirs'].append(Y)
                muts.append('prefix-sibling:' + Y)
    force_compress = None
    if prior != 'absent' and r.random() < 0.05:
        # the name a sub-Manifest would get by (de)compression is taken by a file that is not a Manifest; a new file makes the Manifest change
        subs = sorted(m for m in written if os.path.dirname(m) and t.lookup(m) is not None and not any(x.startswith('.') for x in m.split('/')))
        if subs:
            m = r.choice(subs)
            d = os.path.dirname(m)
            sfx = ET.suffix_of(os.path.basename(m))
            if sfx is None:
                fmt2 = r.choice(['gz', 'bz2'])
                other, force_compress = m + '.' + fmt2, (0, fmt2)
            else:
                other, force_compress = m[:-len(sfx) - 1], (100000, sfx)
            if t.lookup(other) is None:
                t.add_file(other, r.choice([b'\x00\x01garbage', b'free text, not a Manifest\n<<<<<<<\n']))
                if t.lookup(d + '/newfile') is None:
                    t.add_file(d + '/newfile', b'makes the Manifest change\n')
                muts.append('name-taken:' + other)
            else:
                force_compress = None
    if prior != 'absent' and r.random() < 0.06:
        # a valid Manifest file that the top-level Manifest lists as plain data (DATA / MISC), not as MANIFEST
        cand = sorted({os.path.dirname(p) for p in files if os.path.dirname(p) and not any(x.startswith('.') for x in p.split('/'))
                       and t.lookup(p) is not None})
        cand = [d for d in cand if not any(os.path.dirname(m) == d for m in written)
                and all(t.lookup(d + '/' + n) is None for n in ('Manifest', 'Manifest.gz', 'Manifest.bz2', 'Manifest.xz', 'Manifest.lzma'))]
        top = t.lookup('Manifest')
        if cand and top is not None:
            d = r.choice(cand)
            inner = [ET.entry_line('DATA', os.path.basename(p), data if r.random() < 0.7 else data + b'?', r.sample(GT.GOOD_HASHES, r.randint(0, 2)))
                     for p, data in sorted(files.items()) if os.path.dirname(p) == d and t.lookup(p) is not None and r.random() < 0.8]
            fmt = r.choice([None, None, 'gz'])
            mdata = ('\n'.join(inner) + '\n').encode('utf8') if inner else b''
            name = d + '/Manifest' + ('.' + fmt if fmt else '')
            stored = ET.compress(fmt, mdata) if fmt else mdata
            t.add_file(name, stored)
            tn = t.nodes[top]
            line = ET.entry_line(r.choice(['DATA', 'DATA', 'MISC']), name, stored if r.random() < 0.7 else stored + b'!', r.sample(GT.GOOD_HASHES, r.randint(0, 2)))
            tn['data'] = tn['data'] + (b'' if tn['data'].endswith(b'\n') or not tn['data'] else b'\n') + line.encode('utf8') + b'\n'
            tn['size'] = len(tn['data'])
            muts.append('data-typed-manifest:' + name)
    c.meta['mutations'] = muts
    c.meta['prior'] = prior
    t.hardlinks = True
    c.meta['order_seed'] = r.randint(0, 5)
    hashes = r.choice(HASHSETS)
    sort = r.random() < 0.5
    wm = r.choice([None, None, 0, 60, 200, 100000])
    fmt = r.choice([None, None, 'gz', 'bz2', 'xz', 'lzma'])
    if force_compress:
        wm, fmt = force_compress
    if t.link_paths():
        # a Manifest reachable under two names (finding D20): recompression through one of them is not compared
        wm = None
    if prior == 'size-only':
        # an otherwise consistent tree in which one entry of the top-level Manifest records a wrong size beside the right
        # digests - and the update asks for exactly the hash set that entry carries
        top = t.nodes[t.lookup('Manifest')]
        lines = top['data'].decode('utf8').split('\n')
        ks = [k for k, x in enumerate(lines) if x.split()[:1] and x.split()[0] in ('DATA', 'MISC', 'EBUILD') and len(x.split()) >= 5
              and all(h in GT.GOOD_HASHES for h in x.split()[3::2])]
        if ks:
            k = r.choice(ks)
            f = lines[k].split()
            f[2] = str(int(f[2]) + r.choice([1, 7, 4242]))
            lines[k] = ' '.join(f)
            top['data'] = '\n'.join(lines).encode('utf8')
            top['size'] = len(top['data'])
            hashes = sorted(f[3::2])
            muts.append('size-only:' + f[1])
    c.opts = (hashes, sort, wm, fmt, profile, None, None, False)
    upath = r.choice([''] * 3 + [d for d in c.meta['dirs'] if d and not d.startswith('.') and '/.' not in d])
    if prior == 'size-only':
        upath = ''
    ops = [['update', upath, [], []],
           ['save', [], 1 if r.random() < 0.15 else 0, [], [], []],
           ['files'], ['reload'], ['verify', upath, 1, []]]
    for _ in range(rounds if rounds is not None else r.choice([0, 0, 1])):
        ops += [['update', upath, [], []], ['save', [], 0, [], [], []], ['files']]
    c.ops = ops
    c.hash_names = set(GT.GOOD_HASHES)
    return c


def c03(ctx):
    res = c01_impl(ctx, 1200, 20000, gen_update_case, 'tree:update-save',
                   'update + save: written Manifests / verification afterwards differ from the reference (C03)')
    fresh_ok = fresh_bad = 0
    for c, i, m in res:
        if i[0] != 'ok':
            continue
        out = i[1]
        # update and save both completed: the fresh verification (op 5) must succeed
        if len(out) >= 5 and out[0][0] == 'ok' and out[1][0] == 'ok':
            v = out[4]
            if v[0] == 'ok' and v[1][0] == 1:
                fresh_ok += 1
            else:
                fresh_bad += 1
                if not known_c03(ctx, c, v):
                    ctx.violation('spec', f'after a successful update + save a fresh verification fails: {str(v)[:200]}',
                                  {'meta': {k: v2 for k, v2 in c.meta.items() if k != 'paths'}, 'ops': c.ops,
                                   'impl': [x if x[0] != 'ok' or not isinstance(x[1], list) or len(str(x)) < 400 else ['ok', '...'] for x in out],
                                   'tree': describe(c.tree)})
    ctx.cov['engines']['tree:update-save']['fresh_verification_ok'] = fresh_ok
    ctx.cov['engines']['tree:update-save']['fresh_verification_failed'] = fresh_bad


def known_c03(ctx, c, v):
    return False
