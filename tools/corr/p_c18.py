"""C18: bad input produces a diagnosed failure, not an internal error (CLI in-process over the C01/C03/C09 generators)."""
import json
import os

import engine_text as TX
import engine_tree as ET
import gen_tree as GT
import oracle_exact as OX
import p_tree as PT
import p_update as PU
from common import known_finding

LIB_EXC = None


def lib_exc_names():
    global LIB_EXC
    if LIB_EXC is None:
        import gemato.exceptions as gx
        LIB_EXC = {n for n in dir(gx) if isinstance(getattr(gx, n), type) and issubclass(getattr(gx, n), gx.GematoException)}
    return LIB_EXC


ODD_LINES = [
    'IGNORE {p}', 'IGNORE {p}',                                        # duplicate IGNORE
    'TIMESTAMP 2019-01-01T00:00:00Z', 'TIMESTAMP 2017-10-22T18:06:41Z', 'TIMESTAMP 2030-12-31T23:59:59Z',   # a second TIMESTAMP
    'DIST {p} {s} SHA1 00', 'DIST d.tar {s}', 'MISC absent-file 0', 'OPTIONAL x',
    'DATA {p} {s} FOO abc', 'DATA {p} {s} SHA1 00 WHIRLPOOL 00', 'DATA {p} {s} STREEBOG256 00',
    'DATA \\U00110000 0', 'DATA \\UFFFFFFFF 0', 'DATA \\x2Ffoo 0', 'AUX \\x2Ffoo 0', 'DATA \\uD800 0', 'IGNORE \\uDFFF',
    'DATA {d} 0', 'MISC {d} 5 SHA1 00', 'DATA {p}/below 0', 'MANIFEST {p}/Manifest 0', 'IGNORE {p}/x',
    'DATA {p} -1', 'DATA {p} 99999999999999999999999999', 'DATA {p}', 'DATA', 'FOO {p} 1', 'DIST a/b 1', 'TIMESTAMP 2017-13-01T00:00:00Z',
    'DATA {p} {s} SHA1', 'MANIFEST {d}/Manifest 3', 'MANIFEST {p} {s}', 'OPTIONAL {p}', 'DATA ../{p} {s}', 'DATA {p}/ 0',
    'DATA {p} {s} SHA1 zz', 'EBUILD {p} {s} __size__ 5', 'DATA {p} {s} MD5 00 MD5 11', 'AUX {p} {s}', 'DIST {p} 1 SHA1 00',
    'IGNORE {d}\nIGNORE {d}', 'IGNORE dup-ignore\nIGNORE dup-ignore', 'IGNORE {p}\nIGNORE {p}',     # the same IGNORE twice (one of them is removed by de-duplication)
    'IGNORE {h}', 'IGNORE {h}', 'DATA {h}/x 0',                               # a hidden directory that is IGNOREd as well / has entries
    # hash names that hashlib knows but GLEP 74 does not (also ones whose hexdigest() needs an argument), for a file of the recorded size
    'DATA {p} {z} SHAKE_128 00', 'DATA {p} {z} shake_256 00', 'MISC {p} {z} SHA384 00 MD5 00', 'DATA {p} {z} sha1 00', 'DATA {p} {z} SM3 00', 'DATA {p} {z} BLAKE2b 00',
    # checksum values that are not hexadecimal / not ASCII, for a file of the recorded size (they are compared, never interpreted)
    'DATA {p} {z} MD5 fad2\u00e9', 'DATA {p} {z} SHA1 \u0130\u1e9e SHA512 zz', 'MISC {p} {z} SHA256 \U0001f600', 'DATA {p} {z} SHA1 \u00e9', 'DATA {p} {z} SHA512 d41d8cd98f00b204e9800998ecf8427\u00e9',
    '@IGNORE-MANIFEST', '@IGNORE-MANIFEST', '@IGNORE-MANIFEST-TOO',       # a sub-Manifest file that is IGNOREd (instead of / besides being registered)
]


def add_odd_lines(r, c):
    """put 1-3 odd lines into one of the Manifests of the tree (the parents then no longer match: that is part of the test)"""
    t = c.tree
    mans = [p for p in (c.meta.get('manifests') or []) if t.lookup(p) is not None]
    files = sorted(c.meta.get('files') or ['absent'])
    dirs = [d for d in c.meta['dirs'] if d] or ['nodir']
    if not mans:
        return []
    used = []
    m = r.choice(['Manifest'] * 2 + mans)
    ino = t.lookup(m)
    if ino is None:
        return []
    node = t.nodes[ino]
    raw = OX.plain_bytes(m, node['data'])
    if raw is None:
        return []
    md = os.path.dirname(m)
    lines = raw.decode('utf8', 'replace').split('\n')
    for _ in range(r.randint(1, 3)):
        if r.random() < 0.25:
            line = TX.grammar_line(r)
        else:
            f = r.choice(files)
            d = r.choice(dirs)
            rel = lambda x: os.path.relpath(x, md) if md else x
            hidden = [x for x in c.meta['dirs'] if x and os.path.basename(x).startswith('.') and (not md or x.startswith(md + '/'))] or ['.nohidden']
            fi = t.lookup(f)
            z = str(len(t.nodes[fi]['data'])) if fi is not None and t.nodes[fi]['k'] == 'f' else '0'
            line = r.choice(ODD_LINES).format(p=ET.impl.encode_path(rel(f)), d=ET.impl.encode_path(rel(d)), s=r.choice(['0', '1', '6']), z=z,
                                              h=ET.impl.encode_path(rel(r.choice(hidden))))
        if line.startswith('@IGNORE-MANIFEST'):
            ks = [k for k, x in enumerate(lines) if x.startswith('MANIFEST ') and len(x.split()) >= 2]
            if not ks:
                continue
            k = r.choice(ks)
            ign = 'IGNORE ' + lines[k].split()[1]
            if line.endswith('-TOO'):
                lines.insert(r.randint(0, len(lines)), ign)
            else:
                lines[k] = ign
            used.append(ign + (' (besides the MANIFEST entry)' if line.endswith('-TOO') else ' (replacing the MANIFEST entry)'))
            continue
        lines.insert(r.randint(0, len(lines)), line)
        used.append(line)
    data = '\n'.join(lines).encode('utf8', 'surrogatepass' if False else 'replace')
    fmt = ET.suffix_of(os.path.basename(m))
    node['data'] = ET.compress(fmt, data) if fmt else data
    node['size'] = len(node['data'])
    return [m, used]


def run_cli(argv, key):
    import logging
    import gemato.cli
    logging.disable(logging.CRITICAL)
    try:
        with ET.ScandirOrder(key):
            try:
                import common
                with common.watchdog(40):
                    rc = gemato.cli.main(['gemato'] + argv)
                return ['exit', rc]
            except common.CaseTimeout:
                return ['exc', 'Internal', 'DidNotTerminate']
            except SystemExit as e:
                return ['exit', e.code if isinstance(e.code, int) else 2]
            except UnicodeDecodeError:
                return ['exc', 'NotUTF8']         # a Manifest file that is not UTF-8 text: outside the quantifier
            except Exception as e:
                x = ET.impl.exc_sx(e)
                return ['exc'] + x[1][:2]
    finally:
        logging.disable(logging.NOTSET)


def run_library_verify(base, target, key):
    import logging
    import gemato.recursiveloader as rl
    import gemato.find_top_level as ft
    import common
    logging.disable(logging.CRITICAL)
    try:
        with ET.ScandirOrder(key):
            try:
                with common.watchdog(40):
                    top = ft.find_top_level_manifest(target)
                    if top is None:
                        return ['exit', 1]
                    m = rl.ManifestRecursiveLoader(top, verify_openpgp=False)
                    calls = []
                    r = m.assert_directory_verifies(os.path.relpath(target, os.path.dirname(top)) if os.path.relpath(target, os.path.dirname(top)) != '.' else '',
                                                    fail_handler=calls.append)
                return ['exit', 0 if (r and not calls) else 1]
            except common.CaseTimeout:
                return ['exc', 'Internal', 'DidNotTerminate']
            except UnicodeDecodeError:
                return ['exc', 'NotUTF8']
            except Exception as e:
                x = ET.impl.exc_sx(e)
                return ['exc'] + x[1][:2]
    finally:
        logging.disable(logging.NOTSET)


def model_class(m, cmd):
    """outcome class predicted by the model run of the library operations behind the command"""
    if m[0] != 'ok':
        x = m
        if m[0] == 'err':
            x = ['err', m[1]]
        else:
            return ['model-error', str(m)[:80]]
        res = [x]
    else:
        res = m[1]
    for y in res:
        if y[0] == 'err':
            name = y[1][0]
            if name in lib_exc_names() or name in ('BadCompressedFile',) and False:
                return ['exit', 1]
            if name == 'OSError':
                return ['exc', 'OSError', y[1][1]]
            if name == 'BadCompressedFile':
                return ['exc', 'BadCompressedFile']
            if name == 'CodecInternalError':
                return ['exc', 'CodecInternalError']
            if name == 'Internal':
                return ['exc', 'Internal', y[1][1]]
            return ['exc', name]
    if cmd == 'verify':
        v = res[-1]         # (the find_timestamp before it has succeeded)
        return ['exit', 0 if v[1][0] == 1 else 1]
    return ['exit', 0]


def gen_case(r):
    kind = r.choice(['verify', 'verify', 'update', 'update', 'update-sub', 'create'])
    profile = r.choice(['default', 'default', 'ebuild', 'old-ebuild'])
    if kind == 'verify':
        c = PT.gen_verify_case(r)
        c.opts = (None, False, None, None, 'default', None, None, True)
    else:
        c = PT.gen_update_case(r, profile=profile, rounds=0)
    if kind != 'verify' and c.tree.lookup('Manifest') is None:
        kind = 'create'          # `gemato update` without a top-level Manifest is "not found", exit 1 (discovery: C15)
    odd = add_odd_lines(r, c) if r.random() < 0.6 else []
    c.meta['odd'] = odd
    c.meta['cmd'] = kind
    dirs = [d for d in c.meta['dirs'] if c.tree.lookup(d) is not None and c.tree.nodes[c.tree.lookup(d)]['k'] == 'd' and d]
    links = c.tree.link_paths()
    # a start directory reached through a directory symlink is resolved physically by the discovery ('..'): not a sub-directory of the tree
    dirs = [d for d in dirs if not any(OX.under(d, l) for l in links)]
    sub = r.choice(dirs) if dirs else ''
    keep = r.random() < 0.4
    hashes, sort, wm, fmt, prof, sign, keyid, vpgp = c.opts
    if kind != 'verify' and r.random() < 0.1:
        # requested hash names that are not Manifest hash names (some of them known to hashlib): UnsupportedHash, exit 1
        hashes = r.choice([['SHA1', 'SHAKE_128'], ['shake_256'], ['SHA384'], ['sha1'], ['FOO'], ['SHA512', 'SM3'], ['MD5', 'md5']])
    def ignored_by_root(target):
        ino = c.tree.lookup('Manifest')
        ents = OX.parse('Manifest', c.tree.nodes[ino]['data']) if ino is not None and c.tree.nodes[ino]['k'] == 'f' else None
        return ents is None or any(e[0] == 'IGNORE' and OX.under(target, e[1].rstrip('/')) for e in ents)

    def discoverable(target):
        # a file named Manifest on the way up, or an IGNORE of the target in the root Manifest, changes which
        # Manifest the CLI takes for the top-level one (discovery is C15's subject)
        parts = target.split('/') if target else []
        if any(c.tree.lookup('/'.join(parts[:k] + ['Manifest'])) is not None for k in range(1, len(parts) + 1)):
            return False
        return not (target and ignored_by_root(target))
    if kind == 'verify':
        target = r.choice(['', sub])
        if not discoverable(target):
            target = ''
        c.argv = ['verify'] + (['-k'] if keep else []) + ['@' + target]
        # (the command asks for the timestamp first: that loads the Manifests beside the top-level one)
        c.ops = [['find_timestamp'], ['verify', target, 1 if keep else 0, []]]
        c.allow_create = False
    elif kind in ('update', 'update-sub'):
        target = sub if kind == 'update-sub' else ''
        # a file named Manifest on the way up would be taken for the top-level Manifest (discovery is C15's subject)
        if not discoverable(target):
            target = ''
        nohash = r.random() < 0.06
        c.argv = ['update'] + ([] if nohash else ['-H', ' '.join(hashes)]) + r.choice([['-p', profile], ['--profile=' + profile]] if (nohash or profile != 'default' or r.random() < 0.7) else [[]]) + ['@' + target]
        c.opts = (None if nohash else hashes, None, None, None, profile, None, None, True)
        c.meta['no_hashes_option'] = nohash
        c.ops = [['update', target, [], []], ['touch_timestamp', 0, [2020, 1, 1, 0, 0, 0]], ['save', [], 0, [], [], []]]
        # the options of the command that have preconditions of their own: --timestamp and --incremental are for whole-tree
        # updates, --incremental needs a TIMESTAMP to compare with; a precondition that does not hold is a logged message, exit 1
        x = r.random()
        if x < 0.12:
            c.argv.insert(1, r.choice(['-t', '--timestamp']))
            c.meta['ts_flag'] = True
            if target == '':
                c.ops[1] = ['touch_timestamp', 1, [2020, 1, 1, 0, 0, 0]]
            else:
                c.meta['precondition'] = 'timestamp-needs-whole-tree'
        elif x < 0.3:
            c.argv.insert(1, r.choice(['-i', '--incremental']))
            c.meta['inc'] = True
            c.ops = [['find_timestamp']]
            ino = c.tree.lookup('Manifest')
            if r.random() < 0.5 and ino is not None and c.tree.nodes[ino]['k'] == 'f':
                # a TIMESTAMP at the ends of what the format can say (first / last day of the calendar), a leap day, the epoch
                stamp = r.choice(['0001-01-01T00:00:00Z', '0001-01-01T23:59:59Z', '9999-12-31T23:59:59Z', '1970-01-01T00:00:00Z', '2024-02-29T12:00:00Z', '0999-06-01T00:00:00Z'])
                c.tree.nodes[ino]['data'] = ('TIMESTAMP %s\n' % stamp).encode() + c.tree.nodes[ino]['data']
                c.meta['timestamp_prepended'] = stamp
            if target != '':
                c.meta['precondition'] = 'incremental-needs-whole-tree'
    else:
        nohash = r.random() < 0.06
        c.argv = ['create'] + ([] if nohash else ['-H', ' '.join(hashes)]) + ['-p', profile, '@']
        c.opts = (None if nohash else hashes, None, None, None, profile, None, None, True)
        c.meta['no_hashes_option'] = nohash
        c.allow_create = True
        c.ops = [['update', '', [], []], ['save', [], 0, [], [], []]]
    return c


def pinned_cases():
    """the minimal inputs of the findings D25 and D30, run first on every seed"""
    out = []
    # D30: covered under the default profile, then updated under the ebuild profile
    c = GT.Case()
    t = GT.Tree()
    t.add_dir('metadata')
    t.add_file('metadata/timestamp.chk', b'now\n')
    t.add_file('metadata/layout.conf', b'masters =\n')
    t.add_file('Manifest', (ET.entry_line('DATA', 'metadata/layout.conf', b'masters =\n', ['SHA1']) + '\n'
                            + ET.entry_line('DATA', 'metadata/timestamp.chk', b'now\n', ['SHA1']) + '\n').encode())
    t.hardlinks = True
    c.tree = t
    c.meta.update(dirs=['', 'metadata'], files=['metadata/layout.conf', 'metadata/timestamp.chk'], manifests=['Manifest'], ignored=[], mutations=['pinned:D30'],
                  order_seed=0, odd=[], cmd='update')
    c.argv = ['update', '-H', 'SHA1', '-p', 'ebuild', '@']
    c.opts = (['SHA1'], None, None, None, 'ebuild', None, None, True)
    c.ops = [['update', '', [], []], ['touch_timestamp', 0, [2020, 1, 1, 0, 0, 0]], ['save', [], 0, [], [], []]]
    c.hash_names = set(GT.GOOD_HASHES)
    out.append(c)
    # D25: a MANIFEST entry that leaves its directory through '..'
    c = GT.Case()
    t = GT.Tree()
    t.add_dir('sub')
    t.add_dir('sub2')
    t.add_file('sub/f', b'x')
    subm = (ET.entry_line('DATA', 'f', b'y', ['SHA1']) + '\n').encode()
    t.add_file('sub/Manifest', subm)
    sub2m = (ET.entry_line('MANIFEST', '../sub/Manifest', subm, ['SHA1']) + '\n').encode()
    t.add_file('sub2/Manifest', sub2m)
    t.add_file('Manifest', (ET.entry_line('MANIFEST', 'sub/Manifest', subm, ['SHA1']) + '\n' + ET.entry_line('MANIFEST', 'sub2/Manifest', sub2m, ['SHA1']) + '\n').encode())
    t.hardlinks = True
    c.tree = t
    c.meta.update(dirs=['', 'sub', 'sub2'], files=['sub/f'], manifests=['Manifest', 'sub/Manifest', 'sub2/Manifest'], ignored=[], mutations=['pinned:D25'],
                  order_seed=0, odd=[], cmd='update')
    c.argv = ['update', '-H', 'SHA1', '-p', 'default', '@']
    c.opts = (['SHA1'], None, None, None, 'default', None, None, True)
    c.ops = [['update', '', [], []], ['touch_timestamp', 0, [2020, 1, 1, 0, 0, 0]], ['save', [], 0, [], [], []]]
    c.hash_names = set(GT.GOOD_HASHES)
    out.append(c)
    return out


def c18(ctx):
    quick = ctx.tier == 'quick'
    r = ctx.rng('c18')
    n = 2500 if quick else 14000
    cases = pinned_cases() + [gen_case(r) for _ in range(n - 2)]
    impl_res = []
    reqs = []
    with ET.Scratch() as sc:
        for c in cases:
            b, s = sc.fresh()
            key = GT.order_key_for(c.meta.get('order_seed', 0))
            try:
                c.tree.realise(b, s)
                argv = [(os.path.join(b, a[1:]) if a[1:] else b) if a.startswith('@') else a for a in c.argv]
                if not c.allow_xdev and c.meta['cmd'] != 'verify':
                    argv.insert(1, '-x')
                fd0 = ET.fd_count()
                out = run_cli(argv, key)
                if ET.fd_count() > fd0 and out[0] == 'exit':
                    out = ['exc', 'DescriptorLeak', ET.fd_count() - fd0]
                if c.meta['cmd'] == 'verify' and out[0] == 'exit':
                    # the library behind it, with a caller's handler that only records (returns None): the same tree gives a Boolean
                    # or a diagnosed failure, never an internal error
                    lib = run_library_verify(b, argv[-1], key)
                    if lib[0] == 'exc' and lib[1] == 'Internal':
                        out = lib
                        c.meta['front_end'] = 'library: assert_directory_verifies(path, fail_handler=calls.append)'
            except Exception as e:
                out = ['harness-error', repr(e)]
            finally:
                sc.cleanup(b, s)
            impl_res.append(out)
            rq = ET.model_request(c.tree, c.top, c.opts, c.allow_create, c.allow_xdev if c.meta['cmd'] != 'verify' else True,
                                  c.ops, key, c.hash_names, c.faults)
            reqs.append(rq)
    model = ET.run_model_completing(reqs)
    classes = {}
    pcs = {}
    internal = 0
    for c, i, m in zip(cases, impl_res, model):
        mc = model_class(m, c.meta['cmd'])
        ic = list(i)
        if c.meta.get('no_hashes_option') and c.opts[4] == 'default':
            # no hash set from the command line nor from the profile: the command-line tool says so and exits 1 (2 for a usage error)
            if not (ic[0] == 'exit' and ic[1] in (1, 2)) and not (ic[0] == 'exc' and ic[1] == 'OSError'):
                internal += 1
                ctx.violation('spec', f'gemato {" ".join(c.argv[:-1])} (no hash set given or implied): {ic[:3]} instead of a diagnosed failure',
                              {'meta': PU.meta_of(c), 'argv': c.argv, 'impl': ic, 'tree': PT.describe(c.tree)})
            continue
        k = ':'.join(map(str, ic[:3]))
        classes[k] = classes.get(k, 0) + 1
        if c.meta.get('precondition') or c.meta.get('inc'):
            # which files an incremental run skips is C11's subject; here: the command ends with an exit status, and with 1 when
            # its precondition does not hold (sub-directory, or no TIMESTAMP in the top-level Manifests)
            pre = c.meta.get('precondition')
            if not pre and m[0] == 'ok' and m[1] and m[1][0][0] == 'ok' and not m[1][0][1]:
                pre = 'incremental-needs-a-timestamp'
            pcs['none' if not pre else pre] = pcs.get('none' if not pre else pre, 0) + 1
            ok = (ic[0] == 'exit' or (ic[0] == 'exc' and ic[1] in ('OSError', 'NotUTF8', 'BadCompressedFile', 'CodecInternalError')))
            if pre and ic[0] == 'exit' and ic[1] != 1:
                ok = False
            if not ok and not known_finding(ctx, 'C18', c, 'internal', ic):
                internal += ic[0] == 'exc'
                ctx.violation('spec', f'gemato {" ".join(c.argv[:-1])} ({pre or "whole tree, TIMESTAMP present"}): {ic[:3]} instead of '
                              + ('a logged message and exit status 1' if pre else 'an exit status'),
                              {'meta': PU.meta_of(c), 'argv': c.argv, 'impl': ic, 'tree': PT.describe(c.tree), 'precondition': pre})
            continue
        replay = {'meta': PU.meta_of(c), 'argv': c.argv, 'opts': list(c.opts), 'impl': ic, 'model': mc, 'tree': PT.describe(c.tree)}
        acceptable = ic[0] == 'exit' or (ic[0] == 'exc' and ic[1] == 'OSError')
        if ic[0] == 'exc' and ic[1] == 'NotUTF8':
            if mc[:3] == ['exc', 'Internal', 'UnicodeError']:
                continue
            acceptable = True
        if ic[0] == 'exc' and ic[1] in ('BadCompressedFile', 'CodecInternalError'):
            # a damaged compressed Manifest is not "UTF-8 Manifest text": outside the quantifier (see DESIGN.md)
            acceptable = True
        if not acceptable:
            internal += 1
            if not known_finding(ctx, 'C18', c, 'internal', ic):
                ctx.violation('spec', f'gemato {" ".join(c.argv[:1])}: an internal error escaped: {ic[1:]}', replay)
        import known
        if known.has_surrogate_escape(c) or known.match_d23(c, 'internal', ['exc', 'Internal', 'ValueError']):
            continue        # findings D13 / D23: where exactly the unencodable path blows up is not compared
        def diagnosed_failure(x):
            return x[:2] == ['exit', 1] or (x[0] == 'exc' and x[1] in ('OSError', 'NotUTF8', 'BadCompressedFile', 'CodecInternalError'))
        # the model has one UnicodeError for "not UTF-8" and "not encodable": as a prediction it counts as a diagnosed failure
        mc_cmp = ['exc', 'NotUTF8'] if mc[:3] == ['exc', 'Internal', 'UnicodeError'] else mc
        if diagnosed_failure(ic) and diagnosed_failure(mc_cmp):
            continue        # several things are wrong with the tree: which one is met first depends on the loading order
        if ic[:2] != mc[:2] and not (ic[0] == 'exc' and mc[0] == 'exc' and ic[1] == mc[1]):
            if mc == ['exc', 'OutOfFuel'] and ic[0] == 'exc' and ic[1] == 'OSError':
                continue
            if c.opts[4] != 'default' and (known.d29_dirs(c) or known.d21_dirs(c)) and known_finding(ctx, 'C18', c, 'idempotence', ['reload of a Manifest that its parent lists as data']):
                # findings D29 / D21 under an ebuild profile: the profile (re)creates the Manifest of such a directory, the entry objects
                # of the first load live on detached - the model drops them.  Attributed to the listed finding, not compared.
                continue
            if acceptable and ic[0] == 'exit' and mc[0] == 'exit':
                ctx.violation('spec', f'gemato {c.argv[0]}: exit status {ic[1]}, the reference says {mc[1]}', replay)
            else:
                ctx.violation('correspondence', f'cli:{c.argv[0]}: outcome class differs from the model: {ic[:3]} vs {mc[:3]}', dict(replay, where='cli:' + c.argv[0]))
    ctx.count('cli:robustness', len(cases), len({json.dumps([c.meta.get('files'), c.meta.get('manifests'), c.meta.get('mutations'), c.meta.get('odd'), c.argv], default=str) for c in cases}),
              samples=[{'argv': cases[0].argv, 'odd': cases[0].meta.get('odd'), 'outcome': impl_res[0]}],
              dist={'outcomes': dict(sorted(classes.items(), key=lambda kv: -kv[1])[:40]), 'internal_errors_seen': internal,
                    'option_preconditions': pcs})
