"""Checks over the tree engine, update/save side: C03, C10, C12, C13."""
import json
import os

import engine_tree as ET
import gen_tree as GT
import oracle_exact as OX
import p_tree as PT
from common import known_finding


def files_of(listing):
    return {p: (d if isinstance(d, (bytes, bytearray)) else d.encode('latin1')) for p, d, m in listing}


def slim(out):
    return [x if x[0] != 'ok' or not isinstance(x[1], list) or len(str(x)) < 400 else ['ok', '...'] for x in out]


def c03(ctx):
    res = PT.c01_impl(ctx, 1200, 20000, PT.gen_update_case, 'tree:update-save',
                      'update + save: written Manifests / verification afterwards differ from the reference (C03)')
    cov = ctx.cov['engines']['tree:update-save']
    fresh_ok = fresh_bad = exact_ok = exact_bad = exact_skipped = 0
    pk = {}
    for c, i, m in res:
        if i[0] != 'ok':
            continue
        out = i[1]
        if not (len(out) >= 5 and out[0][0] == 'ok' and out[1][0] == 'ok'):
            continue
        replay = {'meta': {k: v2 for k, v2 in c.meta.items() if k != 'paths'}, 'ops': c.ops, 'opts': list(c.opts),
                  'impl': slim(out), 'tree': PT.describe(c.tree)}
        # update and save both completed: the fresh verification (op 5) must succeed
        v = out[4]
        if v[0] == 'ok' and v[1][0] == 1:
            fresh_ok += 1
        else:
            fresh_bad += 1
            if not known_finding(ctx, 'C03', c, 'fresh-verify', v):
                ctx.violation('spec', f'after a successful update + save a fresh verification fails: {str(v)[:200]}', replay)
        # ... and the Manifests on disk describe the directory exactly
        if c.tree.link_paths() or out[2][0] != 'ok':
            exact_skipped += 1
            continue
        problems = OX.exactness(files_of(out[2][1]), c.opts[0], c.ops[0][1])
        for p in problems:
            k = p.split(':')[0]
            pk[k] = pk.get(k, 0) + 1
        if problems:
            exact_bad += 1
            if not known_finding(ctx, 'C03', c, 'exactness', problems):
                replay['problems'] = problems
                ctx.violation('spec', f'after a successful update + save the Manifests do not describe the tree exactly: {problems[:3]}', replay)
        else:
            exact_ok += 1
    cov.update(fresh_verification_ok=fresh_ok, fresh_verification_failed=fresh_bad, exactness_ok=exact_ok,
               exactness_failed=exact_bad, exactness_skipped_symlinked_dirs=exact_skipped, exactness_problem_kinds=pk)
