"""Checks over the tree engine, update/save side: C03, C10, C12, C13."""
import json
import os

import engine_tree as ET
import gen_tree as GT
import oracle_exact as OX
import p_tree as PT
from common import known_finding


def files_of(listing):
    return {p: (d if isinstance(d, (bytes, bytearray)) else d.encode('latin1')) for p, d, m in listing}


def slim(out):
    return [x if x[0] != 'ok' or not isinstance(x[1], list) or len(str(x)) < 400 else ['ok', '...'] for x in out]


def c03(ctx):
    res = PT.c01_impl(ctx, 1200, 20000, PT.gen_update_case, 'tree:update-save',
                      'update + save: written Manifests / verification afterwards differ from the reference (C03)')
    cov = ctx.cov['engines']['tree:update-save']
    fresh_ok = fresh_bad = exact_ok = exact_bad = exact_skipped = 0
    pk = {}
    for c, i, m in res:
        if i[0] != 'ok':
            continue
        out = i[1]
        if not (len(out) >= 5 and out[0][0] == 'ok' and out[1][0] == 'ok'):
            continue
        replay = {'meta': {k: v2 for k, v2 in c.meta.items() if k != 'paths'}, 'ops': c.ops, 'opts': list(c.opts),
                  'impl': slim(out), 'tree': PT.describe(c.tree)}
        # update and save both completed: the fresh verification (op 5) must succeed
        v = out[4]
        if v[0] == 'ok' and v[1][0] == 1:
            fresh_ok += 1
        else:
            fresh_bad += 1
            if not known_finding(ctx, 'C03', c, 'fresh-verify', v):
                ctx.violation('spec', f'after a successful update + save a fresh verification fails: {str(v)[:200]}', replay)
        # ... and the Manifests on disk describe the directory exactly
        if c.tree.link_paths() or out[2][0] != 'ok':
            exact_skipped += 1
            continue
        problems = OX.exactness(files_of(out[2][1]), c.opts[0], c.ops[0][1])
        for p in problems:
            k = p.split(':')[0]
            pk[k] = pk.get(k, 0) + 1
        if problems:
            exact_bad += 1
            if not known_finding(ctx, 'C03', c, 'exactness', problems):
                replay['problems'] = problems
                ctx.violation('spec', f'after a successful update + save the Manifests do not describe the tree exactly: {problems[:3]}', replay)
        else:
            exact_ok += 1
    cov.update(fresh_verification_ok=fresh_ok, fresh_verification_failed=fresh_bad, exactness_ok=exact_ok,
               exactness_failed=exact_bad, exactness_skipped_symlinked_dirs=exact_skipped, exactness_problem_kinds=pk)


# --------------------------------------------------------------------------- C10
def gen_c10_case(r, kind=None):
    c = PT.gen_update_case(r, rounds=0)
    t = c.tree
    upd, save = c.ops[0], c.ops[1]
    files = sorted(c.meta.get('files') or [])
    paths = [''] + [d for d in c.meta['dirs'] if d]
    kind = kind or r.choice(['plain', 'plain', 'fault', 'badpath', 'xdev', 'loop', 'discard'])
    c.meta['c10'] = kind
    pre = []
    for _ in range(r.randint(0, 3)):
        k = r.random()
        if k < 0.4:
            pre.append(['verify', r.choice(paths), r.choice([1, 2, 3, 4]), r.choice([[], [1500000000]])])
        elif k < 0.6:
            pre.append(['find_path_entry', r.choice(files + paths + ['absent'])])
        elif k < 0.8:
            pre.append(['entry_dict', r.choice(paths)])
        else:
            pre.append(['find_dist_entry', 'dist-%d.tar.gz' % r.randint(0, 3), r.choice(paths)])
    if kind == 'fault':
        reach = dict((ino, p) for p, ino in t.files())
        inos = [(i, n) for i, n in t.nodes.items() if n['k'] == 'd' or i in reach]
        mfiles = [(i, t.nodes[i]) for i, p in reach.items() if os.path.basename(p).startswith('Manifest')]
        i, n = r.choice(mfiles) if mfiles and r.random() < 0.5 else r.choice(inos)
        prim = r.choice(['scandir', 'stat', 'open']) if n['k'] == 'd' else r.choice(['open', 'fstat', 'read', 'all', 'mopen', 'mopen'])
        en = r.choice(PT.ERRNOS)
        c.faults = [[q, i, en] for q in ('open', 'stat', 'fstat', 'read', 'scandir')] if prim == 'all' else [[prim, i, en]]
        c.meta['fault'] = [prim, i, en, n['k']]
        pre = [p for p in pre if p[0] != 'verify' or p[2] in (1, 2, 3, 4)]
    elif kind == 'badpath':
        upd = ['update', r.choice(['absent', 'absent/deeper'] + files[:2]), [], []]
    elif kind == 'xdev':
        GT.mutate(r, c, dict.fromkeys(files, b''), set(), 'xdev-dir') if 'xdev-dir' in GT.MUTATIONS else None
        c.allow_xdev = False
    elif kind == 'loop':
        c.meta['mutations'].append(GT.mutate(r, c, dict.fromkeys(files, b''), set(), 'loop-link'))
    ops = [['files']] + pre + [['files'], upd, ['files'], ['loaded']]
    if kind != 'discard':
        ops += [save, ['files'], ['loaded']]
        if r.random() < 0.3:
            ops += [['verify', upd[1], 0, []], ['files']]
    c.ops = ops
    return c


def lines_of(files, m):
    ents = OX.parse(m, files[m]) if m in files else None
    return ents


def logical(m):
    """name of a Manifest file without its compression suffix"""
    fmt = ET.suffix_of(os.path.basename(m))
    return m[:-len(fmt) - 1] if fmt else m


def c10_check_case(ctx, c, out, report):
    """the C10 clauses on one implementation result"""
    ops = c.ops
    first = None
    saved = False
    loaded_before = loaded_after = None
    upath = None
    state = {}
    kfail = next((i for i, x in enumerate(out) if x[0] != 'ok'), len(out))
    for op, res in zip(ops[:kfail], out[:kfail]):
        if op[0] == 'update':
            upath = op[1]
        if op[0] == 'loaded':
            if saved:
                loaded_after = set(res[1])
            else:
                loaded_before = set(res[1])
        if op[0] == 'save':
            saved = True
        if op[0] == 'files':
            cur = {p: (d, m) for p, d, m in res[1]}
            if first is None:
                first = cur
            elif not saved:
                if cur != first:
                    diff = sorted(p for p in set(cur) | set(first) if cur.get(p) != first.get(p))
                    report('written-before-save', f'files changed without a save: {diff[:5]}')
            else:
                state['post'] = cur
    # observer listings after a failed op (appended after the failing result)
    if len(out) < len(ops) or any(x[0] != 'ok' for x in out):
        k = next((i for i, x in enumerate(out) if x[0] != 'ok'), None)
        if k is not None and ops[k][0] != 'save':
            for res in out[k + 1:]:
                cur = {p: (d, m) for p, d, m in res[1]}
                if first is not None and cur != first:
                    diff = sorted(p for p in set(cur) | set(first) if cur.get(p) != first.get(p))
                    report('written-by-failed-op', f'files changed by a failed {ops[k][0]}: {diff[:5]}')
    if 'post' not in state or first is None or loaded_before is None:
        return None
    post = state['post']
    if c.tree.link_paths():
        return None       # directory symlinks: a Manifest file has several names (see finding D20)
    mans = set(loaded_before) | set(loaded_after or ())
    # a forced save loads (and may recompress) further Manifests: the earlier names of loaded Manifests
    logic = {logical(x) for x in mans}
    mans |= {p for p in first if logical(p) in logic and os.path.basename(p).startswith('Manifest')}
    # (a) no file other than Manifest files is modified, created or deleted
    for p in sorted(set(first) | set(post)):
        if p in mans:
            continue
        if first.get(p) != post.get(p):
            report('foreign-file', f'{p}: {"created" if p not in first else "deleted" if p not in post else "modified"} by update+save')
    # (c) preservation inside Manifest files
    pre_files = {p: d for p, (d, m) in first.items()}
    post_files = {p: d for p, (d, m) in post.items()}
    pre_by = {}
    post_by = {}
    la = loaded_after or set()
    for m in loaded_before:
        if m not in pre_files:
            continue
        if m in la:
            n = m
        else:
            cand = [x for x in la - loaded_before if logical(x) == logical(m)]
            if len(cand) != 1:
                continue
            n = cand[0]
        if n in post_files:
            pre_by[m] = OX.parse(m, pre_files[m])
            post_by[m] = OX.parse(n, post_files[n])
    all_post_ignores = {OX.norm(os.path.dirname(lm2), e[1]) for lm2, ents in post_by.items() for e in (ents or ()) if e[0] == 'IGNORE'}
    for lm, pre_ents in pre_by.items():
        post_ents = post_by.get(lm)
        if pre_ents is None or post_ents is None:
            continue
        d = os.path.dirname(lm)
        keep = lambda ents: sorted(e[4] for e in ents if e[0] in ('DIST', 'TIMESTAMP'))
        if keep(pre_ents) != keep(post_ents):
            report('dist-timestamp', f'{lm}: DIST/TIMESTAMP lines changed: {keep(pre_ents)} -> {keep(post_ents)}')
        # IGNORE: none added; one may go only as the duplicate of an IGNORE of the same path that stays (de-duplication)
        ign = lambda ents: sorted(OX.norm(d, e[1]) for e in ents if e[0] == 'IGNORE')
        ipre, ipost = ign(pre_ents), ign(post_ents)
        if any(ipost.count(x) > ipre.count(x) for x in set(ipost)):
            report('ignore-added', f'{lm}: IGNORE lines added: {ipre} -> {ipost}')
        for x in set(ipre):
            if ipost.count(x) < ipre.count(x) and x not in all_post_ignores:
                report('ignore-lost', f'{lm}: IGNORE {x} lost: {ipre} -> {ipost}')
        # entries for paths outside the updated directory (MANIFEST entries of the chain above it may be refreshed)
        def outside(ents):
            return sorted(e[4] for e in ents if e[0] in OX.FILE_TAGS and not OX.under(OX.norm(d, e[1]), upath or '')
                          and e[0] != 'MANIFEST')
        if outside(pre_ents) != outside(post_ents):
            report('out-of-scope-entry', f'{lm}: entries outside {upath!r} changed')
        man_out = lambda ents: sorted((e[1]) for e in ents if e[0] == 'MANIFEST' and not OX.under(OX.norm(d, e[1]), upath or '')
                                      and not OX.under(upath or '', os.path.dirname(OX.norm(d, e[1]))))
        if c.ops[[o[0] for o in c.ops].index('save')][2] == 0 and c.opts[2] is None and man_out(pre_ents) != man_out(post_ents):
            report('out-of-scope-manifest-entry', f'{lm}: MANIFEST entries off the chain changed')
        # entry type of existing file entries
        pre_tags = {}
        for e in pre_ents:
            if e[0] in OX.FILE_TAGS:
                pre_tags.setdefault(OX.norm(d, e[1]), set()).add(e[0])
        for e in post_ents:
            if e[0] in OX.FILE_TAGS:
                full = OX.norm(d, e[1])
                if full in pre_tags and e[0] not in pre_tags[full]:
                    report('entry-type', f'{lm}: type of the entry for {full} changed from {sorted(pre_tags[full])} to {e[0]}')
    return True


def c10(ctx):
    quick = ctx.tier == 'quick'
    label = 'tree:ownership'
    r = ctx.rng(label)
    n = 1000 if quick else 15000
    with ET.Scratch() as sc:
        cases = [gen_c10_case(r) for _ in range(n)]
        res = PT.run_cases(ctx, cases, label, sc)
    PT.reclassify(ctx, 'ownership: the filesystem after verify/lookup/update/save differs from the reference (C10)')
    kinds = {}
    checked = 0
    for c, i, m in res:
        kinds[c.meta['c10']] = kinds.get(c.meta['c10'], 0) + 1
        if i[0] != 'ok':
            kinds['loader-error'] = kinds.get('loader-error', 0) + 1
            continue
        out = i[1]
        probs = []

        def report(k, what):
            probs.append((k, what))
        done = c10_check_case(ctx, c, out, report)
        checked += 1 if done else 0
        for k, what in probs:
            kinds['problem:' + k] = kinds.get('problem:' + k, 0) + 1
            if not known_finding(ctx, 'C10', c, k, what):
                ctx.violation('spec', f'update touched what it does not own: {what}',
                              {'meta': {k2: v for k2, v in c.meta.items() if k2 != 'paths'}, 'ops': c.ops, 'opts': list(c.opts),
                               'faults': c.faults, 'impl': slim(out), 'tree': PT.describe(c.tree)})
        for x in out:
            if x[0] != 'ok':
                kinds['err:' + str(x[1][0])] = kinds.get('err:' + str(x[1][0]), 0) + 1
    ctx.count(label, len(cases), len({json.dumps([c.meta.get('files'), c.meta.get('manifests'), c.meta.get('mutations'), c.ops, c.faults], default=str) for c in cases}),
              samples=[{'files': cases[0].meta.get('files'), 'ops': cases[0].ops, 'impl': slim(res[0][1][1]) if res[0][1][0] == 'ok' else res[0][1]}],
              dist={'kinds': kinds, 'cases_with_full_clause_check': checked})
