"""Checks over the tree engine, update/save side: C03, C10, C12, C13."""
import json
import os

import engine_tree as ET
import gen_tree as GT
import oracle_exact as OX
import p_tree as PT
from common import known_finding


def files_of(listing):
    return {p: (d if isinstance(d, (bytes, bytearray)) else d.encode('latin1')) for p, d, m in listing}


def slim(out):
    return [x if x[0] != 'ok' or not isinstance(x[1], list) or len(str(x)) < 400 else ['ok', '...'] for x in out]


def pinned_d28(r):
    """the minimal input of finding D28, run first on every seed"""
    c = GT.Case()
    t = GT.Tree()
    t.add_dir('sub')
    t.add_dir('sub/deep')
    t.add_file('sub/deep/f', b'x')
    t.add_file('sub/Manifest', (ET.entry_line('DATA', 'deep/f', b'x', ['SHA1']) + '\n').encode())
    t.add_file('Manifest', b'MANIFEST sub/Manifest 3 MD5 00\n')
    t.hardlinks = True
    c.tree = t
    c.meta.update(dirs=['', 'sub', 'sub/deep'], files=['sub/deep/f'], manifests=['Manifest', 'sub/Manifest'], ignored=[], mutations=['pinned:D28'],
                  order_seed=0, prior='stale')
    c.opts = (['SHA1'], False, None, None, 'default', None, None, False)
    c.ops = [['update', 'sub/deep', [], []], ['save', [], 0, [], [], []], ['files'], ['reload'], ['verify', 'sub/deep', 1, []]]
    c.hash_names = set(GT.GOOD_HASHES)
    return c


def c03(ctx):
    pins = [pinned_d28]

    def gen(r):
        return pins.pop(0)(r) if pins else PT.gen_update_case(r)
    res = PT.c01_impl(ctx, 3000, 20000, gen, 'tree:update-save',
                      'update + save: written Manifests / verification afterwards differ from the reference (C03)')
    cov = ctx.cov['engines']['tree:update-save']
    fresh_ok = fresh_bad = exact_ok = exact_bad = exact_skipped = 0
    pk = {}
    for c, i, m in res:
        if i[0] != 'ok':
            continue
        out = i[1]
        if not (len(out) >= 5 and out[0][0] == 'ok' and out[1][0] == 'ok'):
            continue
        replay = {'meta': {k: v2 for k, v2 in c.meta.items() if k != 'paths'}, 'ops': c.ops, 'opts': list(c.opts),
                  'impl': slim(out), 'tree': PT.describe(c.tree)}
        # update and save both completed: the fresh verification (op 5) must succeed
        c.post_files = files_of(out[2][1]) if out[2][0] == 'ok' else None
        v = out[4]
        if v[0] == 'ok' and v[1][0] == 1:
            fresh_ok += 1
        else:
            fresh_bad += 1
            if not known_finding(ctx, 'C03', c, 'fresh-verify', v):
                ctx.violation('spec', f'after a successful update + save a fresh verification fails: {str(v)[:200]}', replay)
        # ... and the Manifests on disk describe the directory exactly
        if c.tree.link_paths() or out[2][0] != 'ok':
            exact_skipped += 1
            continue
        problems = OX.exactness(files_of(out[2][1]), c.opts[0], c.ops[0][1])
        for p in problems:
            k = p.split(':')[0]
            pk[k] = pk.get(k, 0) + 1
        if problems:
            exact_bad += 1
            if not known_finding(ctx, 'C03', c, 'exactness', problems):
                replay['problems'] = problems
                ctx.violation('spec', f'after a successful update + save the Manifests do not describe the tree exactly: {problems[:3]}', replay)
        else:
            exact_ok += 1
    cov.update(fresh_verification_ok=fresh_ok, fresh_verification_failed=fresh_bad, exactness_ok=exact_ok,
               exactness_failed=exact_bad, exactness_skipped_symlinked_dirs=exact_skipped, exactness_problem_kinds=pk)
    cli_update_several(ctx)
    cli_profile_exact(ctx)
    two_saves_one_loader(ctx, 'C03')


def cli_profile_exact(ctx):
    """update completeness under the ebuild profiles: `gemato create / update -p <profile> -H <hashes>` on a repository-shaped tree
    (files/ with sub-directories, categories, metadata, eclasses), then the independent exactness oracle and a fresh `gemato verify`"""
    import p_repo
    import p_c18
    r = ctx.rng('c03profile')
    n = done = exact = 0
    profs = {}
    with ET.Scratch() as sc:
        for _ in range(160 if ctx.tier == 'quick' else 1600):
            c = p_repo.gen_repo(r, gz_dist=True)
            if 'junk_manifest' in c.meta:
                continue
            prof = r.choice(['ebuild', 'old-ebuild', 'old-ebuild'])
            hashes = r.choice(PT.HASHSETS)
            c.opts = (hashes, None, None, None, prof, None, None, True)
            key = GT.order_key_for(c.meta['order_seed'])
            b, s = sc.fresh()
            steps = []
            try:
                c.tree.realise(b, s)
                argv0 = ['-p', prof, '-H', ' '.join(hashes)]
                if r.random() < 0.25:
                    # the tree was first covered under the default profile (one top-level Manifest), then switched to the ebuild profile
                    c.meta['switched_profile'] = True
                    rc0 = p_c18.run_cli(['create', '-H', ' '.join(hashes), b], key)
                    steps.append(['create (default profile)', rc0])
                    rc = p_c18.run_cli(['update'] + argv0 + [b], key) if rc0 == ['exit', 0] else rc0
                    steps.append(['update', rc])
                else:
                    rc = p_c18.run_cli(['create'] + argv0 + [b], key)
                    steps.append(['create', rc])
                files = files_of(ET.canon_files(ET.list_real_files(b))) if rc == ['exit', 0] else None
                rounds = [('', files)] if files is not None else []
                if files is not None and r.random() < 0.6:
                    # new files (also below files/<sub>/) and an update of the whole tree or of one package
                    pk = sorted(d for d, ro in c.meta['roles'].items() if ro == 'package' and os.path.isdir(os.path.join(b, d)))
                    for _ in range(r.randint(1, 3)):
                        d = r.choice(pk) if pk and r.random() < 0.8 else r.choice([x for x in c.meta['dirs'] if os.path.isdir(os.path.join(b, x)) and not OX.hidden(x)])
                        sub = r.choice(['', '', 'files', 'files/extra', 'files/extra/deep']) if d in pk else ''
                        os.makedirs(os.path.join(b, d, sub), exist_ok=True)
                        an = 'added-%d' % r.randint(0, 9)
                        ad = b'new content %d' % r.randint(0, 99)
                        with open(os.path.join(b, d, sub, an), 'wb') as f:
                            f.write(ad)
                        # the description of the case follows (replay, structural matching of listed findings)
                        acc = d
                        for comp in [x for x in sub.split('/') if x]:
                            acc = acc + '/' + comp
                            if c.tree.lookup(acc) is None:
                                c.tree.add_dir(acc)
                        if c.tree.lookup(acc + '/' + an) is None:
                            c.tree.add_file(acc + '/' + an, ad)
                        steps.append(['added', acc + '/' + an])
                    up = r.choice(['', r.choice(pk) if pk else ''])
                    rc2 = p_c18.run_cli(['update'] + argv0 + [os.path.join(b, up) if up else b], key)
                    steps.append(['update ' + (up or '<top>'), rc2])
                    if rc2 == ['exit', 0]:
                        rounds.append((up, files_of(ET.canon_files(ET.list_real_files(b)))))
                vup = rounds[-1][0] if rounds else ''
                vr = p_c18.run_cli(['verify', os.path.join(b, vup) if vup else b], key) if [st for st in steps if st[0] != 'added'][-1][1] == ['exit', 0] else None
            finally:
                sc.cleanup(b, s)
            n += 1
            profs[prof] = profs.get(prof, 0) + 1
            replay = {'meta': meta_of(c), 'profile': prof, 'hashes': hashes, 'steps': steps, 'tree': PT.describe(c.tree)}
            bad = [st for st in steps if st[0] != 'added' and st[1] != ['exit', 0]]
            if bad:
                st = bad[0]
                if st[1][0] == 'exc' and st[1][1] != 'OSError':
                    if not known_finding(ctx, 'C03', c, 'internal', st[1]):
                        ctx.violation('spec', f'gemato {st[0]} -p {prof}: an internal error escaped: {st[1][1:]}', replay)
                elif st[1][0] == 'exit':
                    ctx.violation('spec', f'gemato {st[0]} -p {prof} on a readable tree exited {st[1][1]}', replay)
                continue
            done += 1
            ok = True
            for up, fl in rounds[-1:]:
                problems = [p for p in OX.exactness(fl, hashes, up) if not p.startswith('hashset:') or up == '' and len(rounds) == 1]
                if problems:
                    ok = False
                    replay['problems'] = problems
                    if not known_finding(ctx, 'C03', c, 'exactness', problems):
                        ctx.violation('spec', f'after gemato {steps[-1][0]} -p {prof} the Manifests do not describe the tree exactly: {problems[:3]}', replay)
            if vr != ['exit', 0]:
                ok = False
                ctx.violation('spec', f'after gemato {steps[-1][0]} -p {prof} (exit 0) a fresh gemato verify gives {vr}', replay)
            exact += ok
    ctx.count('cli:profile-exact', n, n, dist={'profiles': profs, 'runs_completed': done, 'exact_and_verifying': exact})


def cli_update_several(ctx):
    """`gemato update p1 p2 ...` in one run is `gemato update p1; gemato update p2; ...`: afterwards every requested directory
    verifies whenever it does after the separate runs, and the Manifests on disk are the same"""
    quick = ctx.tier == 'quick'
    r = ctx.rng('c03cli')
    st = {'runs': 0, 'all_exit0': 0, 'paths_verified': 0, 'same_manifests': 0}
    with ET.Scratch() as sc:
        for _ in range(260 if quick else 2600):
            c = PT.gen_update_case(r, rounds=0)
            t = c.tree
            if t.lookup('Manifest') is None or t.link_paths():
                continue
            dirs = [d for d in c.meta['dirs'] if d and not d.startswith('.') and '/.' not in d]
            k = r.choice([2, 2, 3])
            if len(dirs) < 2:
                continue
            paths = r.sample(dirs, min(k, len(dirs)))
            if r.random() < 0.2:
                paths[r.randrange(len(paths))] = ''
            argv = ['gemato', 'update', '--hashes', ' '.join(c.opts[0])]
            a, s1 = sc.fresh()
            b, s2 = sc.fresh()
            try:
                t.realise(a, s1)
                t.realise(b, s2)
                key = GT.order_key_for(c.meta['order_seed'])
                paths = [p for p in paths if os.path.isdir(os.path.join(a, p))]
                if len(paths) < 2:
                    continue
                full = lambda base, p: os.path.join(base, p) if p else base
                with ET.ScandirOrder(key):
                    rc_multi, log_multi = PT.run_cli_collect(argv + [full(a, p) for p in paths])
                    rc_single = [PT.run_cli_collect(argv + [full(b, p)])[0] for p in paths]
                    ver_a = [PT.run_cli_collect(['gemato', 'verify', '--keep-going', '--no-openpgp-verify', full(a, p)]) for p in paths]
                    ver_b = [PT.run_cli_collect(['gemato', 'verify', '--keep-going', '--no-openpgp-verify', full(b, p)]) for p in paths]
                man = lambda base: {p: d for p, d, mt in ET.list_real_files(base) if os.path.basename(p).startswith('Manifest')}
                ma, mb = man(a), man(b)
            finally:
                sc.cleanup(a, s1)
                sc.cleanup(b, s2)
            st['runs'] += 1
            if rc_multi != 0 or any(x != 0 for x in rc_single):
                continue
            st['all_exit0'] += 1
            replay = {'argv': argv, 'paths': paths, 'meta': meta_of(c), 'tree': PT.describe(t)}
            for p, (va, ia), (vb, ib) in zip(paths, ver_a, ver_b):
                if vb == 0 and va != 0:
                    replay.update(path=p, verify_exit=va, reports=ia)
                    ctx.violation('spec', f'after `gemato update {" ".join(repr(x) for x in paths)}` (exit 0) the directory {p!r} does not verify '
                                  f'({len(ia)} reports); after separate updates of the same paths it does', replay)
                elif va == 0:
                    st['paths_verified'] += 1
            if ma == mb:
                st['same_manifests'] += 1
            elif all(v[0] == 0 for v in ver_b):
                diff = sorted(p for p in set(ma) | set(mb) if ma.get(p) != mb.get(p))
                replay['differing'] = diff[:6]
                ctx.violation('spec', f'`gemato update` over several paths in one run leaves other Manifests than separate runs: {diff[:4]}', replay)
    ctx.count('cli:update-several-paths', st['runs'], st['runs'], dist=st)


# --------------------------------------------------------------------------- C10
def gen_c10_case(r, kind=None):
    c = PT.gen_update_case(r, rounds=0)
    t = c.tree
    upd, save = c.ops[0], c.ops[1]
    files = sorted(c.meta.get('files') or [])
    paths = [''] + [d for d in c.meta['dirs'] if d]
    kind = kind or r.choice(['plain', 'plain', 'fault', 'badpath', 'xdev', 'loop', 'discard', 'onepath', 'onepath'])
    c.meta['c10'] = kind
    if kind == 'onepath':
        # the single-path API: update_entry_for_path(path, new_entry_type, hashes); now and then a local file carries the
        # name of a DIST entry
        cand = list(files) + ['absent', 'newfile']
        for d in r.sample(paths, min(len(paths), 2)):
            q = (d + '/' if d else '') + 'dist-%d.tar.gz' % r.randint(0, 3)
            if r.random() < 0.6 and t.lookup(d) is not None and t.nodes[t.lookup(d)]['k'] == 'd' and t.lookup(q) is None:
                t.add_file(q, b'local copy of a distfile')
                c.meta.setdefault('local_distfiles', []).append(q)
            cand += [q, q]
        d = r.choice(paths)
        if t.lookup(d) is not None and t.nodes[t.lookup(d)]['k'] == 'd' and t.lookup((d + '/' if d else '') + 'newfile') is None and r.random() < 0.5:
            t.add_file((d + '/' if d else '') + 'newfile', b'new')
            cand += [(d + '/' if d else '') + 'newfile'] * 2
        upd = ['update_path', r.choice(cand), r.choice(['DATA', 'DATA', 'MISC', 'EBUILD', 'MANIFEST', 'AUX']), r.choice([[], [c.opts[0]]])]
    if kind in ('plain', 'discard') and r.random() < 0.35:
        # a file entry for a local copy of a distfile that has been deleted since, beside the DIST entry of the same name in the
        # same Manifest: the update drops the entry of the vanished file - and only that one
        import hashlib
        mans = [(p2, ino) for p2, ino in t.files() if os.path.basename(p2) == 'Manifest' and isinstance(t.nodes[ino].get('data'), (bytes, bytearray))]
        if mans:
            mp, ino = r.choice(mans)
            name = 'dist-%d.tar.gz' % r.randint(0, 3)
            dd = os.path.dirname(mp)
            if t.lookup((dd + '/' if dd else '') + name) is None:
                text = bytes(t.nodes[ino]['data'])
                if text and not text.endswith(b'\n'):
                    text += b'\n'
                h = hashlib.sha1(b'hello').hexdigest()
                if ('DIST ' + name + ' ').encode() not in text:
                    text += ('DIST %s 5 SHA1 %s\n' % (name, h)).encode()
                text += ('%s %s 5 SHA1 %s\n' % (r.choice(['DATA', 'DATA', 'MISC']), name, h)).encode()
                t.nodes[ino]['data'] = text
                t.nodes[ino]['size'] = len(text)
                c.meta.setdefault('vanished_local_distfiles', []).append((dd + '/' if dd else '') + name)
    pre = []
    for _ in range(r.randint(0, 3)):
        k = r.random()
        if k < 0.4:
            pre.append(['verify', r.choice(paths), r.choice([1, 2, 3, 4]), r.choice([[], [1500000000]])])
        elif k < 0.6:
            pre.append(['find_path_entry', r.choice(files + paths + ['absent'])])
        elif k < 0.8:
            pre.append(['entry_dict', r.choice(paths)])
        else:
            pre.append(['find_dist_entry', 'dist-%d.tar.gz' % r.randint(0, 3), r.choice(paths)])
    if kind == 'fault':
        reach = dict((ino, p) for p, ino in t.files())
        inos = [(i, n) for i, n in t.nodes.items() if n['k'] == 'd' or i in reach]
        mfiles = [(i, t.nodes[i]) for i, p in reach.items() if os.path.basename(p).startswith('Manifest')]
        i, n = r.choice(mfiles) if mfiles and r.random() < 0.5 else r.choice(inos)
        prim = r.choice(['scandir', 'stat', 'open']) if n['k'] == 'd' else r.choice(['open', 'fstat', 'read', 'all', 'mopen', 'mopen'])
        en = r.choice(PT.ERRNOS)
        c.faults = [[q, i, en] for q in ('open', 'stat', 'fstat', 'read', 'scandir')] if prim == 'all' else [[prim, i, en]]
        c.meta['fault'] = [prim, i, en, n['k']]
        pre = [p for p in pre if p[0] != 'verify' or p[2] in (1, 2, 3, 4)]
        if r.random() < 0.35:
            # the creating front end (`gemato create`) on a tree that has Manifests already: an unreadable one is not "none yet"
            c.allow_create = True
            c.meta['create_mode'] = True
            if r.random() < 0.6 and t.lookup('Manifest') is not None:
                c.faults = [[r.choice(['open', 'mopen', 'read', 'fstat']), t.lookup('Manifest'), en]]
                c.meta['fault'] = [c.faults[0][0], c.faults[0][1], en, 'f']
    elif kind == 'badpath':
        upd = ['update', r.choice(['absent', 'absent/deeper'] + files[:2]), [], []]
    elif kind == 'xdev':
        GT.mutate(r, c, dict.fromkeys(files, b''), set(), 'xdev-dir') if 'xdev-dir' in GT.MUTATIONS else None
        c.allow_xdev = False
        if r.random() < 0.35:
            # the single-path API on an object of the other filesystem (with and without an entry of its own)
            xds = [(d + '/' if d else '') + 'xd' for d in paths if t.lookup((d + '/' if d else '') + 'xd') is not None]
            if xds:
                xd = r.choice(xds)
                upd = ['update_path', r.choice([xd + '/inner', xd + '/inner', xd + '/.hidden', xd + '/absent', xd]), 'DATA', [c.opts[0]]]
    elif kind == 'loop':
        c.meta['mutations'].append(GT.mutate(r, c, dict.fromkeys(files, b''), set(), 'loop-link'))
    ops = [['files']] + pre + [['files'], upd, ['files'], ['loaded']]
    if kind != 'discard':
        ops += [save, ['files'], ['loaded']]
        if r.random() < 0.3:
            ops += [['verify', upd[1], 1, []], ['files']]
    c.ops = ops
    return c


def lines_of(files, m):
    ents = OX.parse(m, files[m]) if m in files else None
    return ents


def logical(m):
    """name of a Manifest file without its compression suffix"""
    fmt = ET.suffix_of(os.path.basename(m))
    return m[:-len(fmt) - 1] if fmt else m


def c10_check_case(ctx, c, out, report):
    """the C10 clauses on one implementation result"""
    ops = c.ops
    first = None
    saved = False
    loaded_before = loaded_after = None
    upath = None
    state = {}
    kfail = next((i for i, x in enumerate(out) if x[0] != 'ok'), len(out))
    for op, res in zip(ops[:kfail], out[:kfail]):
        if op[0] in ('update', 'update_path'):
            upath = op[1]
        if op[0] == 'loaded':
            if saved:
                loaded_after = set(res[1])
            else:
                loaded_before = set(res[1])
        if op[0] == 'save':
            saved = True
        if op[0] == 'files':
            cur = {p: (d, m) for p, d, m in res[1]}
            state['last'] = cur
            if first is None:
                first = cur
            elif not saved:
                if cur != first:
                    diff = sorted(p for p in set(cur) | set(first) if cur.get(p) != first.get(p))
                    report('written-before-save', f'files changed without a save: {diff[:5]}')
            else:
                state['post'] = cur
    # observer listings after a failed op (appended after the failing result)
    if len(out) < len(ops) or any(x[0] != 'ok' for x in out):
        k = next((i for i, x in enumerate(out) if x[0] != 'ok'), None)
        if k is not None and ops[k][0] != 'save':
            ref = state.get('last', first)
            for res in out[k + 1:]:
                cur = {p: (d, m) for p, d, m in res[1]}
                if ref is not None and cur != ref:
                    diff = sorted(p for p in set(cur) | set(ref) if cur.get(p) != ref.get(p))
                    report('written-by-failed-op', f'files changed by a failed {ops[k][0]}: {diff[:5]}')
    if 'post' not in state or first is None or loaded_before is None:
        return None
    post = state['post']
    if c.tree.link_paths():
        return None       # directory symlinks: a Manifest file has several names (see finding D20)
    mans = set(loaded_before) | set(loaded_after or ())
    # a forced save loads (and may recompress) further Manifests: the earlier names of loaded Manifests
    logic = {logical(x) for x in mans}
    mans |= {p for p in first if logical(p) in logic and os.path.basename(p).startswith('Manifest')}
    # a file that the caller has just declared a Manifest (update_entry_for_path(path, new_entry_type='MANIFEST')) is one
    mans |= {op[1] for op in ops if op[0] == 'update_path' and op[2] == 'MANIFEST'}
    # (a) no file other than Manifest files is modified, created or deleted
    for p in sorted(set(first) | set(post)):
        if p in mans:
            continue
        if first.get(p) != post.get(p):
            report('foreign-file', f'{p}: {"created" if p not in first else "deleted" if p not in post else "modified"} by update+save')
    # (c) preservation inside Manifest files
    pre_files = {p: d for p, (d, m) in first.items()}
    post_files = {p: d for p, (d, m) in post.items()}
    pre_by = {}
    post_by = {}
    la = loaded_after or set()
    for m in loaded_before:
        if m not in pre_files:
            continue
        if m in la:
            n = m
        else:
            cand = [x for x in la - loaded_before if logical(x) == logical(m)]
            if len(cand) != 1:
                continue
            n = cand[0]
        if n in post_files:
            pre_by[m] = OX.parse(m, pre_files[m])
            post_by[m] = OX.parse(n, post_files[n])
    all_post_ignores = {OX.norm(os.path.dirname(lm2), e[1]) for lm2, ents in post_by.items() for e in (ents or ()) if e[0] == 'IGNORE'}
    for lm, pre_ents in pre_by.items():
        post_ents = post_by.get(lm)
        if pre_ents is None or post_ents is None:
            continue
        d = os.path.dirname(lm)
        keep = lambda ents: sorted(e[4] for e in ents if e[0] in ('DIST', 'TIMESTAMP'))
        if keep(pre_ents) != keep(post_ents):
            report('dist-timestamp', f'{lm}: DIST/TIMESTAMP lines changed: {keep(pre_ents)} -> {keep(post_ents)}')
        # IGNORE: none added; one may go only as the duplicate of an IGNORE of the same path that stays (de-duplication)
        ign = lambda ents: sorted(OX.norm(d, e[1]) for e in ents if e[0] == 'IGNORE')
        ipre, ipost = ign(pre_ents), ign(post_ents)
        if any(ipost.count(x) > ipre.count(x) for x in set(ipost)):
            report('ignore-added', f'{lm}: IGNORE lines added: {ipre} -> {ipost}')
        for x in set(ipre):
            if ipost.count(x) < ipre.count(x) and x not in all_post_ignores:
                report('ignore-lost', f'{lm}: IGNORE {x} lost: {ipre} -> {ipost}')
        # entries for paths outside the updated directory (MANIFEST entries of the chain above it may be refreshed)
        def outside(ents):
            return sorted(e[4] for e in ents if e[0] in OX.FILE_TAGS and not OX.under(OX.norm(d, e[1]), upath or '')
                          and e[0] != 'MANIFEST')
        if outside(pre_ents) != outside(post_ents):
            report('out-of-scope-entry', f'{lm}: entries outside {upath!r} changed')
        man_out = lambda ents: sorted((e[1]) for e in ents if e[0] == 'MANIFEST' and not OX.under(OX.norm(d, e[1]), upath or '')
                                      and not OX.under(upath or '', os.path.dirname(OX.norm(d, e[1]))))
        if c.ops[[o[0] for o in c.ops].index('save')][2] == 0 and c.opts[2] is None and man_out(pre_ents) != man_out(post_ents):
            report('out-of-scope-manifest-entry', f'{lm}: MANIFEST entries off the chain changed')
        # entry type of existing file entries
        pre_tags = {}
        for e in pre_ents:
            if e[0] in OX.FILE_TAGS:
                pre_tags.setdefault(OX.norm(d, e[1]), set()).add(e[0])
        for e in post_ents:
            if e[0] in OX.FILE_TAGS:
                full = OX.norm(d, e[1])
                if full in pre_tags and e[0] not in pre_tags[full]:
                    report('entry-type', f'{lm}: type of the entry for {full} changed from {sorted(pre_tags[full])} to {e[0]}')
    return True


def c10(ctx):
    quick = ctx.tier == 'quick'
    label = 'tree:ownership'
    r = ctx.rng(label)
    n = 2500 if quick else 15000
    with ET.Scratch() as sc:
        cases = [gen_c10_case(r) for _ in range(n)]
        res = PT.run_cases(ctx, cases, label, sc)
    PT.reclassify(ctx, 'ownership: the filesystem after verify/lookup/update/save differs from the reference (C10)')
    kinds = {}
    checked = 0
    for c, i, m in res:
        kinds[c.meta['c10']] = kinds.get(c.meta['c10'], 0) + 1
        if i[0] != 'ok':
            kinds['loader-error'] = kinds.get('loader-error', 0) + 1
            continue
        out = i[1]
        probs = []

        def report(k, what):
            probs.append((k, what))
        done = c10_check_case(ctx, c, out, report)
        checked += 1 if done else 0
        for k, what in probs:
            kinds['problem:' + k] = kinds.get('problem:' + k, 0) + 1
            if not known_finding(ctx, 'C10', c, k, what):
                ctx.violation('spec', f'update touched what it does not own: {what}',
                              {'meta': {k2: v for k2, v in c.meta.items() if k2 != 'paths'}, 'ops': c.ops, 'opts': list(c.opts),
                               'faults': c.faults, 'impl': slim(out), 'tree': PT.describe(c.tree)})
        for x in out:
            if x[0] != 'ok':
                kinds['err:' + str(x[1][0])] = kinds.get('err:' + str(x[1][0]), 0) + 1
    ctx.count(label, len(cases), len({json.dumps([c.meta.get('files'), c.meta.get('manifests'), c.meta.get('mutations'), c.ops, c.faults], default=str) for c in cases}),
              samples=[{'files': cases[0].meta.get('files'), 'ops': cases[0].ops, 'impl': slim(res[0][1][1]) if res[0][1][0] == 'ok' else res[0][1]}],
              dist={'kinds': kinds, 'cases_with_full_clause_check': checked})
    cli_update_preserves(ctx)


def cli_update_preserves(ctx):
    """the command-line front end: `gemato update [--force-rewrite] <top>/<dir>` leaves every file that is not a Manifest alone,
    keeps every DIST entry, and - for a sub-directory update - the TIMESTAMP of the top-level Manifest (the CLI refreshes an
    existing TIMESTAMP only on whole-tree updates)"""
    quick = ctx.tier == 'quick'
    r = ctx.rng('c10cli')
    n = 150 if quick else 1500
    st = {'runs': 0, 'sub_directory': 0, 'exit0': 0, 'timestamp_kept': 0, 'timestamp_refreshed_whole_tree': 0, 'dist_entries_kept': 0}

    def manifests_of(files):
        return {p: OX.parse(p, d) for p, d in files.items() if os.path.basename(p).startswith('Manifest')}

    def tagged(ms, tag):
        return sorted(json.dumps([e[0], e[1], e[2], sorted((e[3] or {}).items())] if tag != 'TIMESTAMP' else [e[0], e[4] if len(e) > 4 else e[1]], default=str)
                      for m, ents in ms.items() for e in (ents or ()) if e[0] == tag)
    with ET.Scratch() as sc:
        for _ in range(n):
            c = PT.gen_update_case(r, rounds=0)
            t = c.tree
            ino = t.lookup('Manifest')
            if ino is None or t.link_paths():
                continue
            top = t.nodes[ino]
            if b'TIMESTAMP' not in top['data']:
                top['data'] = b'TIMESTAMP 2017-10-22T18:06:41Z\n' + top['data']
                top['size'] = len(top['data'])
            dirs = [d for d in c.meta['dirs'] if d and not d.startswith('.') and '/.' not in d]
            upath = r.choice(dirs) if dirs and r.random() < 0.75 else ''
            cmd = 'create' if r.random() < 0.25 else 'update'
            if cmd == 'create':
                upath = ''          # gemato create <top>: the TIMESTAMP is written only when --timestamp is given
            argv = ['gemato', cmd, '--hashes', ' '.join(c.opts[0])] + (['--force-rewrite'] if r.random() < 0.3 else [])
            b, s = sc.fresh()
            try:
                t.realise(b, s)
                if upath and not os.path.isdir(os.path.join(b, upath)):
                    upath = ''
                pre = {p: d for p, d, mt in ET.list_real_files(b)}
                import common
                tz = r.choice(['UTC', 'UTC', 'XYZ-3', 'EST5', 'JST-9'])
                with ET.ScandirOrder(GT.order_key_for(c.meta['order_seed'])), common.local_tz(tz):
                    rc, items = PT.run_cli_collect(argv + [os.path.join(b, upath) if upath else b])
                post = {p: d for p, d, mt in ET.list_real_files(b)}
            finally:
                sc.cleanup(b, s)
            st['runs'] += 1
            st['sub_directory'] += 1 if upath else 0
            replay = {'argv': argv, 'path': upath, 'exit': rc, 'log': items, 'meta': meta_of(c), 'tree': PT.describe(t)}
            # (a file that carries the name but does not parse as a Manifest is a data file like any other)
            isman = lambda p: os.path.basename(p).startswith('Manifest') and (p not in pre or OX.parse(p, pre[p]) is not None)
            for p in sorted(set(pre) | set(post)):
                if not isman(p) and pre.get(p) != post.get(p):
                    if not known_finding(ctx, 'C10', c, 'foreign-file', p + ':cli'):
                        ctx.violation('spec', f'gemato update {upath or "."} {"created" if p not in pre else "deleted" if p not in post else "modified"} {p}, which is not a Manifest', replay)
            if rc != 0:
                continue
            st['exit0'] += 1
            pm, qm = manifests_of(pre), manifests_of(post)
            if any(v is None for v in pm.values()) or any(v is None for v in qm.values()):
                continue                    # a Manifest-named file that is not a Manifest
            if tagged(pm, 'DIST') != tagged(qm, 'DIST'):
                replay['dist_before'], replay['dist_after'] = tagged(pm, 'DIST'), tagged(qm, 'DIST')
                ctx.violation('spec', f'gemato update {upath or "."} changed the DIST entries', replay)
            else:
                st['dist_entries_kept'] += 1
            ts0 = [e for e in (pm.get('Manifest') or ()) if e[0] == 'TIMESTAMP']
            ts1 = [e for e in (qm.get('Manifest') or ()) if e[0] == 'TIMESTAMP']
            if upath or cmd == 'create':
                if [tuple(map(str, e)) for e in ts0] != [tuple(map(str, e)) for e in ts1]:
                    replay['timestamp_before'], replay['timestamp_after'] = str(ts0), str(ts1)
                    ctx.violation('spec', f'gemato {cmd} {upath or "<top>"} ({"a sub-directory update" if upath else "create"} without --timestamp) changed the TIMESTAMP of the top-level Manifest', replay)
                else:
                    st['timestamp_kept'] += 1
            elif str(ts0) != str(ts1):
                st['timestamp_refreshed_whole_tree'] += 1
    ctx.count('cli:update-preserves', st['runs'], st['runs'], dist=st)
    # the ebuild profiles create Manifests of their own accord: never on top of a file that is not a Manifest
    import p_repo as PR
    n2 = kept = 0
    with ET.Scratch() as sc:
        for _ in range(50 if quick else 500):
            c = PR.gen_repo(r)
            t = c.tree
            cand = sorted(d for d, ro in c.meta['roles'].items() if ro in ('package', 'category', 'eclass', 'profiles', 'licenses'))
            cand = [d for d in cand if t.lookup(d + '/Manifest') is None and t.lookup(d + '/Manifest.gz') is None]
            if not cand:
                continue
            jd = r.choice(cand)
            junk = r.choice([b'this is not a Manifest\n', b'<<<<<<< HEAD\nDATA x 1\n=======\n', b'\x00\x01\x02binary'])
            t.add_file(jd + '/Manifest', junk)
            prof = r.choice(['ebuild', 'old-ebuild'])
            b, s = sc.fresh()
            try:
                t.realise(b, s)
                pre = {p: d for p, d, mt in ET.list_real_files(b)}
                with ET.ScandirOrder(GT.order_key_for(c.meta['order_seed'])):
                    rc, items = PT.run_cli_collect(['gemato', r.choice(['create', 'create', 'update']), '-p', prof, b])
                post = {p: d for p, d, mt in ET.list_real_files(b)}
            finally:
                sc.cleanup(b, s)
            n2 += 1
            bad = [p for p in sorted(pre) if not (os.path.basename(p).startswith('Manifest') and OX.parse(p, pre[p]) is not None) and pre[p] != post.get(p)]
            if bad:
                ctx.violation('spec', f'gemato -p {prof} (exit {rc}) changed {bad[:3]}: not Manifest files (one only carries the name)',
                              {'profile': prof, 'junk_file': jd + '/Manifest', 'exit': rc, 'log': items, 'changed': bad[:6], 'dirs': c.meta['dirs'][:20]})
            else:
                kept += 1
    ctx.count('cli:profile-preserves', n2, n2, dist={'runs_leaving_every_data_file_alone': kept})


# --------------------------------------------------------------------------- C12
def meta_of(c):
    return {k: v for k, v in c.meta.items() if k not in ('paths', 'stamps')}


def gen_c12_idem(r):
    c = PT.gen_update_case(r, rounds=0)
    upd, save = c.ops[0], c.ops[1]
    fresh = r.random() < 0.7
    save2 = ['save', [], 0, [], [], []]
    c.ops = [upd, save, ['files'], ['stamp']] + ([['reload']] if fresh else []) + [upd, ['updated'], save2, ['stamp']]
    c.meta['fresh_loader'] = fresh
    return c


def permute_manifests(r, t, which):
    """shuffle the lines of every Manifest file of the tree (parents' MANIFEST entries go stale, which update repairs)"""
    n = 0
    for p, ino in t.files():
        if p not in which:
            continue
        node = t.nodes[ino]
        raw = OX.plain_bytes(p, node['data'])
        if raw is None:
            continue
        lines = raw.decode('utf8', 'replace').split('\n')
        body = [x for x in lines if x.strip()]
        # the name/value pairs of an entry are a dict as well: their order in the old Manifest is arbitrary
        for k, x in enumerate(body):
            f = x.split(' ')
            if f[0] in ('DATA', 'MISC', 'EBUILD', 'AUX', 'MANIFEST', 'DIST') and len(f) >= 7 and len(f) % 2 == 1 and '' not in f and r.random() < 0.5:
                pairs = list(zip(f[3::2], f[4::2]))
                r.shuffle(pairs)
                body[k] = ' '.join(f[:3] + [y for pr in pairs for y in pr])
        if len(body) < 2:
            continue
        r.shuffle(body)
        data = ('\n'.join(body) + '\n').encode('utf8')
        fmt = ET.suffix_of(os.path.basename(p))
        node['data'] = ET.compress(fmt, data) if fmt else data
        node['size'] = len(node['data'])
        n += 1
    return n


def gen_c12_pair(r):
    """two variants of one tree that differ only in enumeration order and in the order of the lines of the old Manifests"""
    a = GT.Case()
    t, files, written = GT.build_consistent(r, a, allow_multi=False, dups=False)
    prior = r.choice(['consistent', 'stale', 'stale', 'absent'])
    muts = []
    if prior == 'absent':
        for p in list(written):
            d, name = os.path.split(p)
            di = t.lookup(d)
            if di is not None:
                t.unlink(di, name)
        a.allow_create = True
        a.meta['manifests'] = []
    elif prior == 'stale':
        for _ in range(r.randint(1, 3)):
            muts.append(GT.mutate(r, a, files, written, r.choice(['content-same-size', 'content-other-size', 'delete', 'stray', 'stray-hidden', 'mtime'])))
    if r.random() < 0.35:
        # several directories that the walk has to prune side by side (hidden ones, with ordinary files inside)
        dd = r.choice([d for d in a.meta['dirs'] if t.lookup(d) is not None and t.nodes[t.lookup(d)]['k'] == 'd'])
        for hn in r.sample(['.git', '.github', '.cache', '.hg', '.svn'], r.randint(2, 4)):
            q = (dd + '/' if dd else '') + hn
            if t.lookup(q) is None:
                t.add_dir(q)
                t.add_file(q + '/' + r.choice(['HEAD', 'config', 'x']), b'inside a hidden directory\n')
        muts.append('hidden-directories-in:' + dd)
    a.meta['mutations'] = muts
    a.meta['prior'] = prior
    a.hash_names = set(GT.GOOD_HASHES)
    hashes = r.choice(PT.HASHSETS)
    wm = r.choice([None, None, 0, 60, 200, 100000])
    fmt = r.choice([None, 'gz', 'bz2', 'xz', 'lzma'])
    # a third of the pairs are written signed (stand-in signer): the signed text is sorted like the plain one
    sign = True if (len(files) + len(written)) % 3 == 0 else None
    a.opts = (hashes, True, wm, fmt, 'default', sign, None, False)
    a.ops = [['update', '', [], []], ['save', [], 1, [], [], []], ['files']]
    a.meta['order_seed'] = 0
    a.tree.hardlinks = True
    import copy
    b = copy.copy(a)
    b.meta = dict(a.meta)
    b.tree = a.tree.clone()
    b.tree.hardlinks = True
    b.meta['order_seed'] = r.randint(1, 5)
    b.meta['permuted'] = permute_manifests(r, b.tree, set(a.meta.get('manifests') or ()))
    return a, b


def c12(ctx):
    quick = ctx.tier == 'quick'
    r = ctx.rng('c12')
    # (1) idempotence
    n1 = 1500 if quick else 10000
    with ET.Scratch() as sc:
        cases = [gen_c12_idem(r) for _ in range(n1)]
        res = PT.run_cases(ctx, cases, 'tree:update-twice', sc)
    PT.reclassify(ctx, 'second update of an unchanged tree differs from the reference (C12)')
    idem_ok = idem_bad = 0
    for c, i, m in res:
        if i[0] != 'ok' or any(x[0] != 'ok' for x in i[1]) or len(i[1]) != len(c.ops):
            continue
        out = i[1]
        upd_idx = [k for k, o in enumerate(c.ops) if o[0] == 'updated'][0]
        queued = out[upd_idx][1]
        stamps = c.meta.get('stamps') or []
        probs = []
        if queued:
            probs.append(f'the second update queued {queued} for rewriting')
        if len(stamps) == 2:
            s1, s2 = stamps
            for p in sorted(set(s1) | set(s2)):
                if p not in s1 or p not in s2:
                    probs.append(f'{p} {"created" if p not in s1 else "deleted"} by the second run')
                elif s1[p][0] != s2[p][0]:
                    probs.append(f'{p}: bytes changed by the second run')
                elif s2[p][1] != ET.STAMP_NS:
                    probs.append(f'{p}: rewritten by the second run (st_mtime_ns changed)')
        if probs:
            idem_bad += 1
            if not known_finding(ctx, 'C12', c, 'idempotence', probs):
                ctx.violation('spec', f'update on an unchanged tree is not a no-op: {probs[:3]}',
                              {'meta': meta_of(c), 'ops': c.ops, 'opts': list(c.opts), 'impl': slim(out), 'tree': PT.describe(c.tree)})
        else:
            idem_ok += 1
    ctx.count('tree:update-twice', len(cases), len({json.dumps([c.meta.get('files'), c.meta.get('manifests'), c.meta.get('mutations'), c.ops], default=str) for c in cases}),
              samples=[{'files': cases[0].meta.get('files'), 'ops': cases[0].ops, 'opts': list(cases[0].opts)}],
              dist={'second_run_no_op': idem_ok, 'second_run_wrote': idem_bad,
                    'runs_not_completing_both_rounds': len(cases) - idem_ok - idem_bad})
    # (2) canonical bytes under sorting
    n2 = 800 if quick else 6000
    pairs = [gen_c12_pair(r) for _ in range(n2)]
    flat = [x for ab in pairs for x in ab]
    with ET.Scratch() as sc:
        res = PT.run_cases(ctx, flat, 'tree:canonical', sc)
    PT.reclassify(ctx, 'sorted update: written Manifests differ from the reference (C12)')
    same = differ = 0
    for k in range(0, len(res), 2):
        (ca, ia, ma), (cb, ib, mb) = res[k], res[k + 1]
        for which, xa, xb in (('implementation', ia, ib), ('model', ma, mb)):
            if xa[0] != 'ok' or xb[0] != 'ok' or len(xa[1]) != 3 or len(xb[1]) != 3 or xa[1][2][0] != 'ok' or xb[1][2][0] != 'ok':
                continue
            fa = {p: d for p, d, mt in xa[1][2][1]}
            fb = {p: d for p, d, mt in xb[1][2][1]}
            if fa != fb:
                differ += 1
                diff = sorted(p for p in set(fa) | set(fb) if fa.get(p) != fb.get(p))
                if which == 'implementation':
                    ctx.violation('spec', f'with sorting the written Manifests depend on enumeration order / order of the old entries: {diff[:4]}',
                                  {'meta_a': meta_of(ca), 'meta_b': meta_of(cb), 'ops': ca.ops, 'opts': list(ca.opts),
                                   'tree_a': PT.describe(ca.tree), 'tree_b': PT.describe(cb.tree), 'differing': diff})
                else:
                    ctx.violation('correspondence', 'tree:canonical: the model itself is order-dependent', {'where': 'tree:canonical', 'differing': diff, 'meta_a': meta_of(ca)})
            elif which == 'implementation':
                same += 1
    ctx.count('tree:canonical', len(flat), len(pairs), samples=[{'files': pairs[0][0].meta.get('files'), 'order_seeds': [0, pairs[0][1].meta['order_seed']],
                                                               'permuted_manifests': pairs[0][1].meta['permuted']}],
              dist={'pairs_identical': same, 'pairs_differing': differ,
                    'pairs_with_permuted_manifests': sum(1 for a, b in pairs if b.meta['permuted'])})
    cli_profile_twice(ctx)


def manifest_stamps(b):
    out = {}
    for dp, dn, fn in os.walk(b):
        for f in fn:
            if f.startswith('Manifest'):
                p = os.path.join(dp, f)
                with open(p, 'rb') as fh:
                    out[os.path.relpath(p, b)] = (fh.read(), os.stat(p).st_mtime_ns)
    return out


def cli_profile_twice(ctx):
    """idempotence and canonical bytes under the ebuild profiles (sorted, compressed per-directory Manifests): `gemato create -p <profile>`,
    then `gemato update -p <profile>` on the whole tree or one package changes no Manifest file (bytes, st_mtime_ns, set of files);
    a second tree realised with another enumeration order gives the same bytes"""
    import p_repo
    import p_c18
    r = ctx.rng('c12profile')
    n = ok = canon = 0
    with ET.Scratch() as sc:
        for _ in range(90 if ctx.tier == 'quick' else 900):
            c = p_repo.gen_repo(r, portable=True, gz_dist=True)
            prof = r.choice(['ebuild', 'ebuild', 'old-ebuild'])
            argv0 = ['-p', prof] + (['-c', str(r.choice([0, 64, 300]))] if r.random() < 0.3 else []) + (['-C', r.choice(['xz', 'bz2'])] if r.random() < 0.2 else [])
            c.opts = (None, None, None, None, prof, None, None, True)
            snaps = []
            steps = []
            for rnd, oseed in enumerate((c.meta['order_seed'], c.meta['order_seed'] + 1 + r.randint(0, 3))):
                key = GT.order_key_for(oseed)
                b, s = sc.fresh()
                try:
                    c.tree.realise(b, s)
                    rc = p_c18.run_cli(['create'] + argv0 + [b], key)
                    steps.append(['create', rc])
                    if rc != ['exit', 0]:
                        break
                    s1 = manifest_stamps(b)
                    snaps.append({p: d for p, (d, mt) in s1.items()})
                    if rnd == 0:
                        pk = sorted(d for d, ro in c.meta['roles'].items() if ro in ('package', 'category'))
                        for up in ['', r.choice(pk) if pk else '']:
                            rc2 = p_c18.run_cli(['update'] + argv0 + [os.path.join(b, up) if up else b], GT.order_key_for(oseed + rnd + 1))
                            steps.append(['update ' + (up or '<top>'), rc2])
                            s2 = manifest_stamps(b)
                            probs = [f'{p}: {"created" if p not in s1 else "deleted" if p not in s2 else "bytes changed" if s1[p][0] != s2[p][0] else "rewritten (st_mtime_ns changed)"} by gemato update {up or "<top>"}'
                                     for p in sorted(set(s1) | set(s2)) if s1.get(p) != s2.get(p)]
                            if rc2 != ['exit', 0]:
                                probs.append(f'gemato update {up or "<top>"} gives {rc2}')
                            if probs:
                                break
                        else:
                            probs = []
                finally:
                    sc.cleanup(b, s)
            if steps[0][1] != ['exit', 0]:
                continue
            n += 1
            replay = {'meta': meta_of(c), 'profile': prof, 'argv': argv0, 'steps': steps, 'tree': PT.describe(c.tree)}
            if probs:
                replay['problems'] = probs
                if not known_finding(ctx, 'C12', c, 'idempotence', probs):
                    ctx.violation('spec', f'gemato update -p {prof} right after gemato create -p {prof} is not a no-op: {probs[:3]}', replay)
            else:
                ok += 1
            if len(snaps) == 2:
                if snaps[0] != snaps[1]:
                    diff = sorted(p for p in set(snaps[0]) | set(snaps[1]) if snaps[0].get(p) != snaps[1].get(p))
                    replay['differing'] = diff
                    ctx.violation('spec', f'gemato create -p {prof} (sorted): the written Manifests depend on the enumeration order: {diff[:4]}', replay)
                else:
                    canon += 1
    ctx.count('cli:profile-twice', n, n, dist={'update_after_create_no_op': ok, 'identical_under_another_enumeration_order': canon})


# --------------------------------------------------------------------------- C13
FORMATS5 = [None, 'gz', 'bz2', 'lzma', 'xz']


def recompress_tree(t, manifests, assign, transform=None):
    """store every sub-Manifest of the tree in the format assign[logical name] (None = plain), bottom-up, and
    rewrite the MANIFEST entries that refer to it (new name, true size, same hash names, true digests)"""
    import re
    names = {}                 # old path -> new path
    # references that do not match their target before anything is touched (deliberately wrong second references): they stay wrong
    wrong = set()
    for pm in manifests:
        pino = t.lookup(pm)
        praw = OX.plain_bytes(pm, t.nodes[pino]['data']) if pino is not None else None
        if praw is None:
            continue
        pd0 = os.path.dirname(pm)
        for line in praw.decode('utf8', 'replace').split('\n'):
            f = line.split()
            if len(f) >= 3 and f[0] == 'MANIFEST':
                try:
                    tgt = OX.norm(pd0, OX.unescape(f[1]))
                except Exception:
                    continue
                tino = t.lookup(tgt)
                if tino is None or t.nodes[tino]['k'] != 'f':
                    continue
                td = t.nodes[tino]['data']
                if f[2] != str(len(td)) or any(h in OX.HASHLIB_OF and OX.digest(h, td) != v for h, v in zip(f[3::2], f[4::2])):
                    wrong.add((logical(pm), logical(tgt), tuple(f[3::2])))
    # children before parents; a Manifest referenced from the Manifest of its own directory (Manifest.files) first
    for m in sorted((x for x in manifests if x != 'Manifest'), key=lambda x: (-x.count('/'), 0 if 'Manifest.files' in x else 1)):
        ino = t.lookup(m)
        if ino is None:
            continue
        node = t.nodes[ino]
        old_data = node['data']
        raw = OX.plain_bytes(m, node['data'])
        if raw is None:
            continue
        lm = logical(m)
        fmt = assign.get(lm, ET.suffix_of(os.path.basename(m)))
        if transform and lm in transform:
            raw = transform[lm](raw)
        new = lm + ('.' + fmt if fmt else '')
        data = ET.compress(fmt, raw) if fmt else raw
        d, name = os.path.split(m)
        di = t.lookup(d)
        t.unlink(di, name)
        node['data'] = data
        node['size'] = len(data)
        t.link(di, os.path.basename(new), ino)
        names[m] = new
        # fix the references
        for pm in manifests:
            pm = names.get(pm, pm)
            pino = t.lookup(pm)
            if pino is None or pm == new:
                continue
            pnode = t.nodes[pino]
            praw = OX.plain_bytes(pm, pnode['data'])
            if praw is None:
                continue
            pd = os.path.dirname(pm)
            lines = praw.decode('utf8').split('\n')
            changed = False
            for k, line in enumerate(lines):
                f = line.split()
                if len(f) >= 3 and f[0] == 'MANIFEST' and OX.norm(pd, OX.unescape(f[1])) == m:
                    # a reference that did not match before (a deliberately wrong second reference) stays wrong
                    was_right = (logical(pm), lm, tuple(f[3::2])) not in wrong
                    ref = data if was_right or not data else bytes([data[0] ^ 1]) + data[1:]
                    lines[k] = ET.entry_line('MANIFEST', os.path.relpath(new, pd) if pd else new, ref, f[3::2])
                    changed = True
            if changed:
                ndata = '\n'.join(lines).encode('utf8')
                pf = ET.suffix_of(os.path.basename(pm))
                pnode['data'] = ET.compress(pf, ndata) if pf else ndata
                pnode['size'] = len(pnode['data'])
    return names


def name_clash(t, written):
    """a file that is not one of the generated Manifests but has the logical name of one (a stray 'Manifest' beside
    'Manifest.gz'): re-assigning formats would have to overwrite it"""
    logic = {logical(m) for m in written}
    return any(p not in written and logical(p) in logic and os.path.basename(p).startswith('Manifest') for p, _ in t.files())


def gen_c13_transparent(r):
    while True:
        base = GT.Case()
        t, files, written = GT.build_consistent(r, base, allow_multi=r.random() < 0.3)
        muts = []
        for _ in range(r.choice([0, 1, 1, 2])):
            muts.append(GT.mutate(r, base, files, {}, r.choice(['content-same-size', 'content-other-size', 'delete', 'stray', 'stray-hidden', 'mtime', 'fifo'])))
        # (a second, WRONG reference to a sub-Manifest is not a layout question: re-writing the references with true digests would repair it)
        if not name_clash(t, written) and not any(str(x).endswith(':wrong') for x in base.meta.get('double_references', [])):
            break
    base.meta['mutations'] = muts
    base.meta['order_seed'] = r.randint(0, 5)
    paths = [''] + [d for d in base.meta['dirs'] if d]
    data_files = sorted(p for p in files if not os.path.basename(p).startswith('Manifest'))
    ops = []
    for _ in range(r.randint(2, 4)):
        k = r.random()
        if k < 0.5:
            ops.append(['verify', r.choice(paths), r.choice([1, 1, 2, 3]), r.choice([[], [], [1500000000]])])
        elif k < 0.7:
            ops.append(['find_path_entry', r.choice(data_files + ['absent', 'foo'])])
        elif k < 0.8:
            ops.append(['verify_path', r.choice(data_files + ['absent'])])
        elif k < 0.9:
            ops.append(['entry_dict', r.choice(paths)])
        else:
            ops.append(['find_dist_entry', 'dist-%d.tar.gz' % r.randint(0, 3), r.choice(paths)])
    base.ops = ops
    subs = sorted({logical(m) for m in written if m != 'Manifest'})
    variants = [base]
    import copy
    for _ in range(3):
        v = copy.copy(base)
        v.meta = dict(base.meta)
        v.tree = base.tree.clone()
        assign = {lm: r.choice(FORMATS5) for lm in subs}
        v.meta['assign'] = assign
        recompress_tree(v.tree, sorted(written), assign)
        variants.append(v)
    return variants


def mask_entry_dict(x):
    """results that legitimately name Manifest files (entry_dict lists MANIFEST entries): drop those entries"""
    return x


def c13(ctx):
    quick = ctx.tier == 'quick'
    r = ctx.rng('c13')
    # (1) transparency of reading
    n1 = 500 if quick else 4000
    groups = [gen_c13_transparent(r) for _ in range(n1)]
    flat = [v for g in groups for v in g]
    with ET.Scratch() as sc:
        res = PT.run_cases(ctx, flat, 'tree:compression-assignments', sc)
    PT.reclassify(ctx, 'verification / lookup over compressed sub-Manifests differs from the reference (C13)')
    same = differ = 0

    def strip(out, ops):
        o2 = []
        for op, y in zip(ops, out):
            if op[0] == 'entry_dict' and y[0] == 'ok':
                y = ['ok', [[d, [it for it in items if not (isinstance(it[1], list) and len(it[1]) > 1 and it[1][1] == 'MANIFEST')]] for d, items in y[1]]]
            # a report about a Manifest file names it without its format suffix
            lg = lambda q: logical(q) if isinstance(q, str) and os.path.basename(q).startswith('Manifest') else q
            if op[0] == 'verify' and y[0] == 'ok' and isinstance(y[1], list) and len(y[1]) == 2 and isinstance(y[1][1], list):
                y = ['ok', [y[1][0], [[lg(cl[0])] + list(cl[1:]) for cl in y[1][1]]]]
            elif y[0] == 'err' and isinstance(y[1], list) and len(y[1]) >= 2 and y[1][0] == 'ManifestMismatch':
                y = ['err', [y[1][0], lg(y[1][1])] + list(y[1][2:])]
            o2.append(y)
        return o2
    k = 0
    for g in groups:
        rs = res[k:k + len(g)]
        k += len(g)
        for which in (1, 2):
            outs = [x[which] for x in rs]
            if any(o[0] != 'ok' for o in outs):
                continue
            ref = strip(outs[0][1], g[0].ops)
            for v, o in zip(g[1:], outs[1:]):
                if strip(o[1], v.ops) != ref:
                    differ += 1
                    if which == 1:
                        ctx.violation('spec', f'results depend on the compression of sub-Manifests (assignment {v.meta["assign"]})',
                                      {'meta': meta_of(v), 'ops': v.ops, 'plain_layout': slim(outs[0][1]), 'this_layout': slim(o[1]),
                                       'tree': PT.describe(v.tree)})
                    else:
                        ctx.violation('correspondence', 'tree:compression-assignments: the model itself is not transparent', {'where': 'c13', 'meta': meta_of(v)})
                elif which == 1:
                    same += 1
    ctx.count('tree:compression-assignments', len(flat), len(groups),
              samples=[{'files': groups[0][0].meta.get('files'), 'manifests': groups[0][0].meta.get('manifests'), 'assignments': [v.meta.get('assign') for v in groups[0][1:]], 'ops': groups[0][0].ops}],
              dist={'variant_runs_equal_to_base': same, 'variant_runs_differing': differ})
    # (2) the watermark rule, boundaries taken from a first run
    n2 = 600 if quick else 4000
    firsts = []
    for _ in range(n2):
        while True:
            c = GT.Case()
            t, files, written = GT.build_consistent(r, c, allow_multi=False, dups=False)
            c.meta['mutations'] = [GT.mutate(r, c, files, written, r.choice(['content-other-size', 'stray', 'delete']))] if r.random() < 0.5 else []
            if not name_clash(t, written) or r.random() < 0.1:
                break
        c.meta['order_seed'] = r.randint(0, 3)
        assign = {logical(m): r.choice(FORMATS5) for m in written if m != 'Manifest'}
        recompress_tree(t, sorted(written), assign)
        c.meta['assign'] = assign
        t.hardlinks = True
        c.hash_names = set(GT.GOOD_HASHES)
        c.opts = (r.choice(PT.HASHSETS), r.random() < 0.5, None, None, 'default', None, None, False)
        c.ops = [['update', '', [], []], ['save', [], 1, [], [], []], ['files']]
        firsts.append(c)
    sizes = []
    with ET.Scratch() as sc:
        for c in firsts:
            b, s = sc.fresh()
            try:
                c.tree.realise(b, s)
                out = ET.run_impl(b, c.top, c.opts, c.allow_create, c.allow_xdev, c.ops, GT.order_key_for(c.meta['order_seed']), [])
            except Exception as e:
                out = ['harness-error', repr(e)]
            finally:
                sc.cleanup(b, s)
            us = []
            if out[0] == 'ok' and len(out[1]) == 3 and out[1][2][0] == 'ok':
                for p, d, mt in out[1][2][1]:
                    if os.path.basename(p).startswith('Manifest') and p != 'Manifest':
                        raw = OX.plain_bytes(p, d if isinstance(d, bytes) else d.encode('latin1'))
                        if raw is not None:
                            us.append(len(raw))
            sizes.append(us)
    seconds = []
    for c, us in zip(firsts, sizes):
        cand = [0, 1, 10**6] + [u + dlt for u in us for dlt in (-1, 0, 1)]
        w1 = r.choice(cand)
        w2 = r.choice(cand)
        fmt = r.choice(['gz', 'bz2', 'lzma', 'xz', None])
        force = 1 if r.random() < 0.7 else 0
        c.ops = [['update', '', [], []], ['save', [], 1, [], [], []],
                 ['save', [], force, [], [w1], [fmt] if fmt else []], ['files'], ['loaded'],
                 ['save', [], 1, [], [w2], [fmt] if fmt else []], ['files'], ['loaded'], ['reload'], ['verify', '', 1, []]]
        c.meta['watermarks'] = [w1, w2]
        c.meta['force'] = force
        c.meta['fmt'] = fmt
        seconds.append(c)
    with ET.Scratch() as sc:
        res = PT.run_cases(ctx, seconds, 'tree:watermark', sc)
    PT.reclassify(ctx, 'save with a compression watermark differs from the reference (C13)')
    rule_ok = rule_bad = boundary = 0
    for c, i, m in res:
        if i[0] != 'ok' or any(x[0] != 'ok' for x in i[1]) or len(i[1]) != len(c.ops):
            continue
        out = i[1]
        probs = []
        for step, (fi, li, w, forced) in enumerate(((3, 4, c.meta['watermarks'][0], c.meta['force']), (6, 7, c.meta['watermarks'][1], 1))):
            files = files_of(out[fi][1])
            loaded = set(out[li][1])
            if c.tree.link_paths():
                continue
            per_logical = {}
            for p in files:
                if os.path.basename(p).startswith('Manifest') and OX.parse(p, files[p]) is not None and (p in loaded):
                    per_logical.setdefault(logical(p), []).append(p)
            for lm, ps in per_logical.items():
                if len(ps) != 1:
                    probs.append(f'save {step + 1}: {len(ps)} files for the logical Manifest {lm}: {ps}')
                    continue
                p = ps[0]
                u = len(OX.plain_bytes(p, files[p]))
                compressed = ET.suffix_of(os.path.basename(p)) is not None
                if u in (w - 1, w, w + 1):
                    boundary += 1
                if p == 'Manifest':
                    continue          # a top-level file named Manifest is never compressed implicitly
                if lm == 'Manifest':
                    probs.append(f'save {step + 1}: the top-level Manifest was compressed implicitly: {p}')
                elif any(q not in loaded and logical(q) == lm for q in files):
                    continue          # the other name is taken by a file that is not a Manifest: the format is kept
                elif forced and compressed != (u >= w):
                    probs.append(f'save {step + 1}: {p} has {u} uncompressed bytes, watermark {w}: stored {"compressed" if compressed else "plain"}')
            # leftovers: a Manifest-named file that is not loaded, has the logical name of a loaded one and was
            # not there (with these bytes) before the run
            orig = {q: c.tree.nodes[ino]['data'] for q, ino in c.tree.files()}
            for p in files:
                if os.path.basename(p).startswith('Manifest') and p not in loaded and logical(p) in per_logical and p != 'Manifest':
                    if orig.get(p) != files[p]:
                        probs.append(f'save {step + 1}: leftover file {p} beside {per_logical[logical(p)]}')
            # parents reference the names on disk, everything in use is referenced (exactness of MANIFEST entries)
            used, refs = OX.in_use(files)
            for mm, e, tgt in refs:
                if tgt not in files:
                    probs.append(f'save {step + 1}: {mm} references {tgt} which does not exist')
        v = out[-1]
        if not (v[0] == 'ok' and v[1][0] == 1):
            probs.append(f'the tree does not verify afterwards: {str(v)[:120]}')
        if probs:
            rule_bad += 1
            if not known_finding(ctx, 'C13', c, 'watermark', probs):
                ctx.violation('spec', f'compression watermark rule broken: {probs[:3]}',
                              {'meta': meta_of(c), 'ops': c.ops, 'opts': list(c.opts), 'impl': slim(out), 'tree': PT.describe(c.tree)})
        else:
            rule_ok += 1
    ctx.count('tree:watermark', len(seconds), len(seconds), samples=[{'files': seconds[0].meta.get('files'), 'assign': seconds[0].meta.get('assign'), 'ops': seconds[0].ops}],
              dist={'runs_rule_ok': rule_ok, 'runs_rule_broken': rule_bad, 'manifests_at_watermark_plus_minus_1': boundary,
                    'runs_not_completing': len(seconds) - rule_ok - rule_bad})
    cli_profile_format(ctx)
    forced_save_double_refs(ctx)
    two_saves_one_loader(ctx, 'C13')


def forced_save_double_refs(ctx):
    """a forced save with a watermark and no update before it (the library route), on consistent trees in which sub-Manifests are referenced
    twice (the same line again, or from the top-level Manifest as well): every reference follows the rename, the tree verifies"""
    r = ctx.rng('c13double')
    cases = []
    for _ in range(150 if ctx.tier == 'quick' else 1500):
        while True:
            c = GT.Case()
            t, files, written = GT.build_consistent(r, c, allow_multi=False, dups=False, double_refs=0.8)
            if c.meta.get('double_references') and not name_clash(t, written) and not t.link_paths():
                break
        c.meta['mutations'] = []
        c.meta['order_seed'] = r.randint(0, 3)
        t.hardlinks = True
        c.hash_names = set(GT.GOOD_HASHES)
        c.opts = (r.choice(PT.HASHSETS), r.random() < 0.5, None, None, 'default', None, None, False)
        w = r.choice([0, 0, 10**6])
        fmt = r.choice(['gz', 'bz2', 'xz', None])
        first = r.choice([[], [['update_path', sorted(files)[0], 'DATA', []]]]) if files else []
        c.ops = [['verify', '', 1, []], ['reload']] + first + [['save', [], r.choice([1, 1, 0]) if not first else 0, [], [w], [fmt] if fmt else []], ['files'], ['loaded'], ['reload'], ['verify', '', 1, []]]
        c.meta['watermarks'] = [w]
        c.meta['fmt'] = fmt
        cases.append(c)
    with ET.Scratch() as sc:
        res = PT.run_cases(ctx, cases, 'tree:forced-save-double-references', sc)
    PT.reclassify(ctx, 'forced save with a watermark on doubly referenced sub-Manifests differs from the reference (C13)')
    good = 0
    for c, i, m in res:
        if i[0] != 'ok' or len(i[1]) != len(c.ops):
            continue
        out = i[1]
        k = len(c.ops) - 5
        if not (out[0][0] == 'ok' and out[0][1][0] == 1) or any(x[0] != 'ok' for x in out[1:k]):
            continue          # the tree as generated does not verify (an IGNORE look-alike beside an entry): not judged
        replay = {'meta': meta_of(c), 'ops': c.ops, 'opts': list(c.opts), 'impl': slim(out), 'tree': PT.describe(c.tree)}
        if out[k][0] != 'ok':
            if out[k][1][0] not in ('OSError',):
                ctx.violation('spec', f'save with watermark {c.meta["watermarks"][0]} on a consistent tree with doubly referenced sub-Manifests fails: {out[k][1][:3]}', replay)
            continue
        probs = []
        if out[k + 1][0] == 'ok':
            files2 = files_of(out[k + 1][1])
            used, refs = OX.in_use(files2)
            for mm, e, tgt in refs:
                if tgt not in files2:
                    probs.append(f'{mm} references {tgt} which does not exist')
        v = out[-1]
        if not (v[0] == 'ok' and v[1][0] == 1):
            probs.append(f'the tree does not verify afterwards: {str(v)[:160]}')
        if probs:
            if not known_finding(ctx, 'C13', c, 'watermark', probs):
                ctx.violation('spec', f'after a save with watermark {c.meta["watermarks"][0]}: {probs[:3]}', replay)
        else:
            good += 1
    ctx.count('tree:forced-save-double-references', len(cases), len(cases), dist={'runs_consistent_afterwards': good})


def cli_profile_format(ctx):
    """the target format given on the command line (-C) applies whether the watermark comes from -c or from the profile: sub-Manifests
    written by `gemato create -p <ebuild profile> [-c wm] -C fmt` that reach the watermark carry exactly that format, one file per directory"""
    import p_repo
    import p_c18
    r = ctx.rng('c13format')
    n = ok = 0
    seen = {}
    with ET.Scratch() as sc:
        for _ in range(120 if ctx.tier == 'quick' else 1200):
            c = p_repo.gen_repo(r, portable=True)
            prof = r.choice(['ebuild', 'ebuild', 'old-ebuild'])
            fmt = r.choice(['bz2', 'xz', 'lzma', 'gz'])
            ov = {'format': fmt}
            argv = ['create', '-p', prof, '-C', fmt]
            if r.random() < 0.4:
                ov['watermark'] = r.choice([0, 64, 200, 100000])
                argv += ['-c', str(ov['watermark'])]
            key = GT.order_key_for(c.meta['order_seed'])
            b, s = sc.fresh()
            try:
                c.tree.realise(b, s)
                rc = p_c18.run_cli(argv + [b], key)
                files = files_of(ET.canon_files(ET.list_real_files(b))) if rc == ['exit', 0] else None
                vr = p_c18.run_cli(['verify', b], key) if files is not None else None
                after = None
                if files is not None and vr == ['exit', 0]:
                    # a new file next to a sub-Manifest (compressed or not), then update with the same options: one file per logical Manifest
                    mds = sorted(os.path.dirname(p) for p in files if os.path.basename(p).startswith('Manifest') and os.path.dirname(p))
                    if mds:
                        md = r.choice(mds)
                        with open(os.path.join(b, md, 'added'), 'wb') as f:
                            f.write(b'x' * r.choice([1, 200]))
                        up = r.choice(['', md])
                        rc2 = p_c18.run_cli(['update'] + argv[1:] + [os.path.join(b, up) if up else b], key)
                        files2 = files_of(ET.canon_files(ET.list_real_files(b)))
                        after = [md, up, rc2, p_c18.run_cli(['verify', b], key) if rc2 == ['exit', 0] else None, files2]
            finally:
                sc.cleanup(b, s)
            if files is None:
                continue
            n += 1
            if after is not None:
                md, up, rc2, vr2, files2 = after
                per = {}
                for p in files2:
                    if os.path.basename(p).startswith('Manifest') and OX.parse(p, files2[p]) is not None:
                        per.setdefault(os.path.dirname(p), []).append(p)
                multi = {d: ps for d, ps in per.items() if len(ps) > 1}
                if rc2 == ['exit', 0] and (multi or vr2 != ['exit', 0]):
                    ctx.violation('spec', f'gemato update {" ".join(argv[1:])} {up or "<top>"} after adding {md}/added: ' +
                                  (f'several files for one logical Manifest: {sorted(multi.values())[:3]}' if multi else f'the tree does not verify: {vr2}'),
                                  {'meta': meta_of(c), 'argv': argv, 'added': md + '/added', 'update_path': up, 'tree': PT.describe(c.tree)})
                    continue
                elif rc2 != ['exit', 0] and not (rc2[0] == 'exc' and known_finding(ctx, 'C13', c, 'internal', rc2)):
                    ctx.violation('spec', f'gemato update {" ".join(argv[1:])} {up or "<top>"} after adding {md}/added gives {rc2}',
                                  {'meta': meta_of(c), 'argv': argv, 'added': md + '/added', 'update_path': up, 'tree': PT.describe(c.tree)})
                    continue
            c.opts = (None, None, ov.get('watermark'), fmt, prof, None, None, True)
            replay = {'meta': meta_of(c), 'argv': argv, 'tree': PT.describe(c.tree)}
            probs = [p for p in p_repo.check_created(c, files, prof, ov) if 'compressed' in p or 'Manifest files in' in p or 'unreadable' in p]
            for p in files:
                sfx = ET.suffix_of(os.path.basename(p)) if os.path.basename(p).startswith('Manifest') else None
                if sfx:
                    seen[sfx] = seen.get(sfx, 0) + 1
            if probs:
                replay['problems'] = probs
                if not known_finding(ctx, 'C13', c, 'policy', probs):
                    ctx.violation('spec', f'gemato {" ".join(argv)}: {probs[:3]}', replay)
            elif vr != ['exit', 0]:
                ctx.violation('spec', f'gemato {" ".join(argv)}: the tree written does not verify: {vr}', replay)
            else:
                ok += 1
    ctx.count('cli:profile-format', n, n, dist={'runs_following_watermark_and_format': ok, 'compressed_manifests_by_format': seen})


def two_saves_one_loader(ctx, pid):
    """one loader object saved twice (a long-running tool: update, save with a watermark that renames sub-Manifests, further single-path
    updates, save again): the second save still writes a referenced Manifest before the Manifest that references it - also when the
    first save renamed one of them - so a fresh verification succeeds (finding D32)"""
    r = ctx.rng('twosaves')
    cases = []
    # the minimal input of finding D32 first: sub/Manifest references sub/Manifest.extra, both renamed by the first save
    c = GT.Case()
    t = GT.Tree()
    t.add_dir('sub')
    t.add_file('sub/f', b'1\n')
    t.add_file('sub/Manifest.extra', (ET.entry_line('DATA', 'f', b'1\n', ['MD5']) + '\n').encode())
    sub = ET.entry_line('MANIFEST', 'Manifest.extra', (ET.entry_line('DATA', 'f', b'1\n', ['MD5']) + '\n').encode(), ['MD5']) + '\n'
    t.add_file('sub/Manifest', sub.encode())
    t.add_file('Manifest', (ET.entry_line('MANIFEST', 'sub/Manifest', sub.encode(), ['MD5']) + '\n').encode())
    t.hardlinks = True
    c.tree = t
    c.meta.update(dirs=['', 'sub'], files=['sub/f'], manifests=['Manifest', 'sub/Manifest', 'sub/Manifest.extra'], ignored=[], mutations=['pinned:D32'], order_seed=0)
    c.opts = (['MD5'], False, None, None, 'default', None, None, False)
    c.ops = [['verify', '', 1, []], ['reload'], ['save', [], 1, [], [0], []], ['update_path', 'sub/f', 'DATA', [['SHA1']]], ['save', [], 0, [], [0], []],
             ['files'], ['loaded'], ['reload'], ['verify', '', 1, []]]
    c.hash_names = set(GT.GOOD_HASHES)
    cases.append(c)
    for _ in range(200 if ctx.tier == 'quick' else 2000):
        while True:
            c = GT.Case()
            t, files, written = GT.build_consistent(r, c, allow_multi=True, dups=False, double_refs=0.2)
            if files and not name_clash(t, written) and not t.link_paths():
                break
        c.meta['mutations'] = []
        c.meta['order_seed'] = r.randint(0, 3)
        t.hardlinks = True
        c.hash_names = set(GT.GOOD_HASHES)
        hs = r.choice(PT.HASHSETS)
        # the loader's own watermark / format (constructor arguments): an argument of one save call holds for that call only, a later
        # call without the argument follows the constructor values again (None: leave each Manifest as it is)
        c.opts = (hs, r.random() < 0.5, r.choice([None, None, 0, 10**6]), r.choice([None, None, 'gz', 'xz', 'bz2']), 'default', None, None, False)
        w1, w2 = r.choice([0, 0, 10**6]), r.choice([0, 10**6, None, None])
        fmt = r.choice(['gz', 'bz2', 'xz', None])
        other = [['SHA1']] if hs != ['SHA1'] else [['MD5']]
        mid = [['update_path', p, 'DATA', other] for p in r.sample(sorted(files), r.randint(1, min(3, len(files))))]
        c.ops = [['verify', '', 1, []], ['reload'], ['save', [], 1, [], [w1], [fmt] if fmt else []]] + mid + \
                [['save', [], r.choice([0, 0, 1]), [], [w2] if w2 is not None else [], [fmt] if fmt and r.random() < 0.6 else []], ['files'], ['loaded'], ['reload'], ['verify', '', 1, []]]
        c.meta['watermarks'] = [w1, w2]
        c.meta['fmt'] = fmt
        cases.append(c)
    with ET.Scratch() as sc:
        res = PT.run_cases(ctx, cases, 'tree:two-saves-one-loader', sc)
    PT.reclassify(ctx, f'two saves on one loader object differ from the reference ({pid})')
    good = 0
    for c, i, m in res:
        if i[0] != 'ok' or len(i[1]) != len(c.ops):
            continue
        out = i[1]
        if not (out[0][0] == 'ok' and out[0][1][0] == 1) or any(x[0] != 'ok' for x in out[1:-1]):
            continue          # the tree as generated does not verify, or an operation failed (compared with the model only)
        replay = {'meta': meta_of(c), 'ops': c.ops, 'opts': list(c.opts), 'impl': slim(out), 'tree': PT.describe(c.tree)}
        v = out[-1]
        if not (v[0] == 'ok' and v[1][0] == 1):
            if not known_finding(ctx, pid, c, 'fresh-verify', v):
                ctx.violation('spec', f'after two saves on one loader object the tree does not verify: {str(v)[:200]}', replay)
        else:
            good += 1
    ctx.count('tree:two-saves-one-loader', len(cases), len(cases), dist={'runs_verifying_afterwards': good})
