"""Entry point of every check:  main.py <ID> [--tier quick|thorough] [--replay file]"""
import argparse
import importlib
import json
import os
import sys
import traceback

import common

import registry  # noqa: E402,F401  (fills common.PROPS)
PROPS = common.PROPS


def main():
    ap = argparse.ArgumentParser()
    ap.add_argument('pid')
    ap.add_argument('--tier', default=os.environ.get('VERIF_TIER', 'quick'))
    ap.add_argument('--replay')
    a = ap.parse_args()
    seed = int(os.environ.get('VERIF_SEED', '20260930'))
    if a.pid not in PROPS:
        print('unknown property', a.pid)
        sys.exit(2)
    p = PROPS[a.pid]
    ctx = common.Ctx(a.pid, a.tier, seed)
    ok, failing, log = common.build(ctx, a.pid + '.v')
    if not ok:
        ctx.build_ok = False
        ctx.broke('build: ' + str(failing))
        # the obligations are still the theorems of the property file; none of them is discharged by a broken build
        try:
            import re
            src = open(os.path.join(common.COQ, 'theories', 'Properties', a.pid + '.v')).read()
            ctx.obligations = max(1, len(re.findall(r'^(?:Theorem|Lemma|Corollary)\s+(\w+)', src, re.M)))
        except OSError:
            ctx.obligations = 1
        ctx.discharged = 0
        ctx.notes.append(log[-1500:])
        good = os.path.join(common.COQ, 'extract', 'model_driver.lastgood')
        if os.path.exists(good):
            import sx
            sx.DRIVER = good
            ctx.model_stale = True
            ctx.notes.append('model did not build; searching with the last good executable model')
    else:
        common.proof_step(ctx, a.pid + '.v')
        if a.tier == 'thorough':
            common.coqchk_step(ctx, a.pid)
    bad = common.forbidden_scan()
    if bad:
        ctx.broke('forbidden constructs in the development: ' + '; '.join(bad[:5]))
    mod = importlib.import_module(p['module'])
    if a.replay:
        rp = json.load(open(a.replay))
        ctx.notes.append('replay of ' + a.replay)
        if hasattr(mod, p['func'] + '_replay'):
            getattr(mod, p['func'] + '_replay')(ctx, rp)
            sys.exit(common.finish(ctx, p['rule'], p['explanation'], p['assumptions']))
    try:
        if ok or ctx.model_stale:
            getattr(mod, p['func'])(ctx)
    except Exception:
        ctx.broke('harness error: ' + traceback.format_exc()[-1200:])
    sys.exit(common.finish(ctx, p['rule'], p['explanation'], p['assumptions']))


if __name__ == '__main__':
    main()
