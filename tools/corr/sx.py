"""Wire format shared with coq/extract/driver.ml and with Coq literals (Exec/Sx.v):
   int -> integer ; str -> [code points] ; bytes -> [byte values] ; list/tuple -> ( ... ).
   Decoded values: int, U (a str subclass holding code points, may contain surrogates), list."""
import os
import subprocess
import tempfile

HERE = os.path.dirname(os.path.abspath(__file__))
DRIVER = os.path.join(HERE, '..', '..', 'coq', 'extract', 'model_driver')


class Sym(str):
    """a command / constructor name (sent as a string)"""


def enc(x):
    if isinstance(x, bool):
        return '1' if x else '0'
    if isinstance(x, int):
        return str(x)
    if isinstance(x, str):
        return '[' + ' '.join(str(ord(c)) for c in x) + ']'
    if isinstance(x, (bytes, bytearray)):
        return '[' + ' '.join(str(c) for c in x) + ']'
    if isinstance(x, (list, tuple)):
        return '(' + ' '.join(enc(y) for y in x) + ')'
    if x is None:
        return '()'
    raise TypeError(type(x))


def dec(line):
    pos = 0
    n = len(line)

    def value():
        nonlocal pos
        while pos < n and line[pos] == ' ':
            pos += 1
        c = line[pos]
        if c == '(':
            pos += 1
            out = []
            while True:
                while line[pos] == ' ':
                    pos += 1
                if line[pos] == ')':
                    pos += 1
                    return out
                out.append(value())
        if c == '[':
            end = line.index(']', pos)
            body = line[pos + 1:end]
            pos = end + 1
            return ''.join(chr(int(t)) for t in body.split())
        st = pos
        pos += 1
        while pos < n and line[pos] not in ' ()[]':
            pos += 1
        return int(line[st:pos])
    return value()


def run_model(requests, jobs=None, chunk=2000):
    """Evaluate the extracted model on a list of requests (python values); returns decoded replies."""
    if not requests:
        return []
    jobs = jobs or min(16, max(1, len(requests) // 200))
    lines = [enc(r) for r in requests]
    if jobs == 1:
        return [dec(l) for l in _run_lines(lines)]
    from concurrent.futures import ThreadPoolExecutor
    parts = [lines[i::jobs] for i in range(jobs)]
    with ThreadPoolExecutor(jobs) as ex:
        outs = list(ex.map(_run_lines, parts))
    res = [None] * len(lines)
    for j, out in enumerate(outs):
        res[j::jobs] = [dec(l) for l in out]
    return res


def _run_lines(lines):
    if not lines:
        return []
    p = subprocess.run(['/bin/sh', '-c', 'ulimit -s unlimited 2>/dev/null; exec "$0"', DRIVER],
                       input=('\n'.join(lines) + '\n').encode('ascii'),
                       stdout=subprocess.PIPE, check=True)
    out = p.stdout.decode('ascii').split('\n')
    if out and out[-1] == '':
        out.pop()
    if len(out) != len(lines):
        raise RuntimeError(f'model driver returned {len(out)} replies for {len(lines)} requests')
    for o in out:
        if o.startswith('!driver-error'):
            raise RuntimeError(o)
    return out


def to_coq(x):
    """Python value -> Gallina term of type sx (for vm_compute spot checks)."""
    if isinstance(x, bool):
        return 'SN 1' if x else 'SN 0'
    if isinstance(x, int):
        return f'SN ({x})'
    if isinstance(x, str):
        return 'SS [' + '; '.join(str(ord(c)) for c in x) + ']'
    if isinstance(x, (bytes, bytearray)):
        return 'SS [' + '; '.join(str(c) for c in x) + ']'
    if isinstance(x, (list, tuple)):
        return 'SL [' + '; '.join('(' + to_coq(y) + ')' for y in x) + ']'
    if x is None:
        return 'SL []'
    raise TypeError(type(x))


if __name__ == '__main__':
    print(run_model([['encode_path', 'a b\\ \U0001d4c0'], ['load', 'DATA f 5\nIGNORE x\n', 0],
                     ['load', 'DATA \\x2Ff 5\n', 0], ['py_int', '1_0']], jobs=1))
