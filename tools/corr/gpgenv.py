"""Scratch GnuPG homes for the pgp engine (independent of gemato's own environment classes).
Keys come from the repository's tests/keydata.py."""
import importlib.util
import os
import shutil
import subprocess
import tempfile

REPO = os.environ.get('GEMATO_REPO', '/repo')


def keydata():
    spec = importlib.util.spec_from_file_location('gv_keydata', os.path.join(REPO, 'tests', 'keydata.py'))
    m = importlib.util.module_from_spec(spec)
    spec.loader.exec_module(m)
    # compositions used by the repository's own tests (tests/test_openpgp.py)
    m.VALID_PUBLIC_KEY = m.PUBLIC_KEY + m.UID + m.PUBLIC_KEY_SIG
    m.EXPIRED_PUBLIC_KEY = m.PUBLIC_KEY + m.UID + m.EXPIRED_KEY_SIG
    m.REVOKED_PUBLIC_KEY = m.PUBLIC_KEY + m.REVOCATION_SIG + m.UID + m.PUBLIC_KEY_SIG
    m.PRIVATE_KEY = m.SECRET_KEY + m.UID + m.PUBLIC_KEY_SIG
    m.OTHER_VALID_PUBLIC_KEY = m.OTHER_PUBLIC_KEY + m.OTHER_PUBLIC_KEY_UID + m.OTHER_PUBLIC_KEY_SIG
    m.VALID_KEY_SUBKEY = m.PUBLIC_KEY + m.UID + m.PUBLIC_KEY_SIG + m.PUBLIC_SUBKEY + m.PUBLIC_SUBKEY_SIG
    m.KEY_FINGERPRINT = '81E12C16BD8DCD60BE180845136880E72A7B1384'
    return m


class GpgHome:
    def __init__(self, trust_model='direct'):
        self.home = tempfile.mkdtemp(prefix='gvg.')
        os.chmod(self.home, 0o700)
        with open(os.path.join(self.home, 'gpg.conf'), 'w') as f:
            f.write(f'trust-model {trust_model}\n')
        with open(os.path.join(self.home, 'gpg-agent.conf'), 'w') as f:
            f.write('disable-scdaemon\n')
        self.env = dict(os.environ, GNUPGHOME=self.home, TZ='UTC')

    def gpg(self, args, data=b''):
        p = subprocess.run(['gpg', '--batch', '--no-tty'] + args, input=data, env=self.env,
                           stdout=subprocess.PIPE, stderr=subprocess.PIPE)
        return p.returncode, p.stdout, p.stderr

    def import_key(self, key, ownertrust=6):
        rc, out, err = self.gpg(['--import', '--status-fd', '1'], key)
        fprs = {l.split(b' ')[3].decode() for l in out.splitlines() if l.startswith(b'[GNUPG:] IMPORT_OK')}
        if ownertrust is not None and fprs:
            self.gpg(['--import-ownertrust'], ''.join(f'{f}:{ownertrust}:\n' for f in fprs).encode())
        return rc, fprs

    def clearsign(self, text, keyid=None):
        args = ['--clearsign'] + (['--local-user', keyid] if keyid else [])
        rc, out, err = self.gpg(args, text.encode('utf8'))
        return rc, out.decode('utf8'), err

    def verify(self, text):
        """(exit status, status lines, authenticated cleartext or None)"""
        rc, out, err = self.gpg(['--status-fd', '2', '--decrypt'], text.encode('utf8'))
        status = [l for l in err.splitlines() if l.startswith(b'[GNUPG:]')]
        return rc, status, out.decode('utf8', errors='replace')

    def snapshot(self):
        snap = {}
        for root, _, files in os.walk(self.home):
            for f in files:
                p = os.path.join(root, f)
                if f.startswith('S.') or f.endswith('.lock') or f in ('random_seed',):
                    continue
                try:
                    snap[os.path.relpath(p, self.home)] = open(p, 'rb').read()
                except OSError:
                    pass
        return snap

    def close(self):
        subprocess.run(['gpgconf', '--kill', 'all'], env=self.env, stdout=subprocess.DEVNULL, stderr=subprocess.DEVNULL)
        shutil.rmtree(self.home, ignore_errors=True)

    def __enter__(self):
        return self

    def __exit__(self, *a):
        self.close()
