"""C11: incremental update equals full update (CLI level, controlled clock and mtimes, three time zones)."""
import datetime
import json
import os
import shutil
import time
import types

import engine_tree as ET
import gen_tree as GT
import oracle_exact as OX
import p_tree as PT

TZS = ['UTC', 'Etc/GMT-14', 'Etc/GMT+12', 'Asia/Kolkata', 'America/St_Johns']


class Clock:
    """datetime.datetime.utcnow() of gemato.cli: starts at t and advances 2 s per call"""
    def __init__(self, t):
        self.t = t

    def shim(self):
        clock = self

        class FakeDT(datetime.datetime):
            @classmethod
            def utcnow(cls):
                v = datetime.datetime.utcfromtimestamp(clock.t)
                clock.t += 2
                return v
        return types.SimpleNamespace(datetime=FakeDT, timezone=datetime.timezone, timedelta=datetime.timedelta,
                                     date=datetime.date, time=datetime.time)


def run_cli(argv, t, tz, order_key, hook=None, frac=0.0):
    """run the CLI in-process; the clock starts at t and advances 2 s per call and 2 s per file processed"""
    import logging
    import gemato.cli as gc
    import gemato.recursiveloader as rl
    old_tz = os.environ.get('TZ')
    os.environ['TZ'] = tz
    time.tzset()
    saved_dt = gc.datetime
    clock = Clock(t + frac)       # the wall clock is not on a whole second when the scan starts
    gc.datetime = clock.shim()
    saved_upd = rl.update_entry_for_path
    count = [0]

    def wrapped(path, e, *a, **k):
        r = saved_upd(path, e, *a, **k)
        count[0] += 1
        clock.t += 2
        if hook is not None:
            hook(count[0], path)
        return r
    rl.update_entry_for_path = wrapped
    logging.disable(logging.CRITICAL)
    try:
        with ET.ScandirOrder(order_key):
            try:
                import common
                with common.watchdog(60):
                    return gc.main(['gemato'] + argv)
            except common.CaseTimeout:
                return 'exception:DidNotTerminate'
            except SystemExit as e:
                return e.code if isinstance(e.code, int) else 2
            except Exception as e:
                return 'exception:' + type(e).__name__
    finally:
        logging.disable(logging.NOTSET)
        gc.datetime = saved_dt
        rl.update_entry_for_path = saved_upd
        if old_tz is None:
            os.environ.pop('TZ', None)
        else:
            os.environ['TZ'] = old_tz
        time.tzset()


SCALE = 2     # the model's file times are half seconds, so that mtimes of TIMESTAMP + 0.5 s are representable


def tree_from_dir(base):
    """abstract tree of a real directory (regular files and directories only)"""
    t = ET.Tree()

    def rec(real, rel):
        for name in sorted(os.listdir(real)):
            p = os.path.join(real, name)
            r = (rel + '/' + name) if rel else name
            if os.path.isdir(p):
                t.add_dir(r)
                rec(p, r)
            else:
                t.add_file(r, open(p, 'rb').read(), mtime=int(round(os.stat(p).st_mtime * SCALE)))
    rec(base, '')
    return t


def dt_list(t):
    d = datetime.datetime.utcfromtimestamp(t)
    return [d.year, d.month, d.day, d.hour, d.minute, d.second]


def listing(base):
    return ET.canon_files(ET.list_real_files(base))


def manifests_of(lst):
    return {p: d for p, d, m in lst if os.path.basename(p).startswith('Manifest')}


def gen_history(r, files, t_prev):
    """2-4 file operations with explicit mtimes relative to the previous TIMESTAMP"""
    ops = []
    live = sorted(files)
    for _ in range(r.randint(1, 4)):
        k = r.choice(['same', 'same', 'same', 'other', 'add', 'delete', 'touch'])
        when = r.choice([t_prev - 50, t_prev - 1, t_prev - 0.5, t_prev, t_prev + 0.5, t_prev + 0.5, t_prev + 1, t_prev + 2, t_prev + 50])
        if k in ('same', 'other', 'delete', 'touch') and not live:
            k = 'add'
        if r.random() < 0.08:
            # a directory that arrives with a Manifest of its own and with preserved (possibly old) times, as tar -x / rsync -t / cp -a leave it
            import hashlib
            d = 'vendor%d' % r.randint(0, 3)
            if not any(p == d or p.startswith(d + '/') for p in files):
                data = bytes(r.getrandbits(8) for _ in range(r.randint(1, 12)))
                man = ('DATA data.bin %d SHA1 %s\n' % (len(data), hashlib.sha1(data).hexdigest())).encode()
                mname = r.choice(['Manifest', 'Manifest', 'Manifest.gz'])
                members = [['data.bin', data]]
                if r.random() < 0.5:
                    # ... a Manifest tree of two levels: the Manifest of the directory references the Manifest of a sub-directory
                    data2 = bytes(r.getrandbits(8) for _ in range(r.randint(1, 12)))
                    man2 = ('DATA data2.bin %d SHA1 %s\n' % (len(data2), hashlib.sha1(data2).hexdigest())).encode()
                    members += [['inner/data2.bin', data2], ['inner/Manifest', man2]]
                    man += ('MANIFEST inner/Manifest %d SHA1 %s\n' % (len(man2), hashlib.sha1(man2).hexdigest())).encode()
                    files.add(d + '/inner/data2.bin')
                    live.append(d + '/inner/data2.bin')
                ops.append(['add-dir', d, members + [[mname, man]], when])
                files.add(d + '/data.bin')
                live.append(d + '/data.bin')
                continue
        if k == 'add':
            d = r.choice(sorted({os.path.dirname(p) for p in files} | {''}))
            name = r.choice(['n1', 'n2', 'new file', 'zz9'])
            p = (d + '/' + name) if d else name
            if p in files:
                continue
            ops.append(['add', p, bytes(r.getrandbits(8) for _ in range(r.randint(0, 12))), when])
            files.add(p)
            live.append(p)
        else:
            p = r.choice(live)
            if k == 'delete':
                ops.append(['delete', p])
                files.discard(p)
                live.remove(p)
            else:
                ops.append([k, p, r.getrandbits(32), when])
    return ops


def apply_history(base, ops):
    """returns False if some same-size modification got an mtime that is not later than the previous TIMESTAMP"""
    for op in ops:
        p = os.path.join(base, op[1])
        if op[0] == 'add-dir':
            import gzip
            os.makedirs(p, exist_ok=True)
            for name, data in op[2]:
                q = os.path.join(p, name)
                if not os.path.isdir(os.path.dirname(q)):
                    os.makedirs(os.path.dirname(q))
                with open(q, 'wb') as f:
                    f.write(gzip.compress(data, mtime=0) if name.endswith('.gz') else data)
                os.utime(q, (op[3], op[3]))
            for name, data in op[2]:
                if '/' in name:
                    os.utime(os.path.dirname(os.path.join(p, name)), (op[3], op[3]))
            os.utime(p, (op[3], op[3]))
            continue
        if op[0] == 'add':
            with open(p, 'wb') as f:
                f.write(op[2])
            os.utime(p, (op[3], op[3]))
        elif op[0] == 'delete':
            os.unlink(p)
        elif op[0] == 'touch':
            os.utime(p, (op[3], op[3]))
        else:
            old = open(p, 'rb').read()
            rnd = op[2]
            if op[0] == 'same':
                new = bytes((b + 1 + (rnd >> (8 * (i % 4)) & 0x7f)) % 256 for i, b in enumerate(old))
            else:
                new = old + bytes([rnd & 0xff, (rnd >> 8) & 0xff])
            with open(p, 'wb') as f:
                f.write(new)
            os.utime(p, (op[3], op[3]))


def premise_ok(ops, t_prev, sizes):
    """every modified file ends up later than the previous TIMESTAMP; files whose size changed, new files and empty
    files are re-hashed anyway.  sizes: size of every file at the start of the round"""
    state = {}
    for op in ops:
        k, p = op[0], op[1]
        if k == 'add-dir':
            continue          # new files: always hashed
        if k == 'delete':
            state[p] = {'gone': True, 'mod': False, 'sz': False, 'new': False, 'mt': None, 'len': None}
            continue
        s = state.setdefault(p, {'gone': False, 'mod': False, 'sz': False, 'new': False, 'mt': None, 'len': sizes.get(p)})
        if k == 'add':
            s['gone'] = False
            s['mt'] = op[3]
            if p in sizes:
                s['mod'] = True
                s['sz'] = len(op[2]) != sizes[p]
                s['len'] = len(op[2])
            else:
                s['new'] = True
        elif k == 'touch':
            s['mt'] = op[3]
        elif k == 'same':
            s['mod'] = True
            s['mt'] = op[3]
        elif k == 'other':
            s['mod'] = True
            s['sz'] = True
            s['mt'] = op[3]
    for p, s in state.items():
        if s['gone'] or s['new'] or not s['mod'] or s['sz']:
            continue
        if (s['len'] or 0) != 0 and s['mt'] is not None and s['mt'] <= t_prev:
            return False
    return True


def model_round(tree, hashes, inc, t_now, order_key):
    opts = (hashes, False, None, None, 'default', None, None, False)
    ops = [['update_inc', '', [], SCALE] if inc else ['update', '', [], []], ['touch_timestamp', 0, dt_list(t_now)], ['save', [], 0, [], [], []], ['files']]
    rq = ET.model_request(tree, 'Manifest', opts, False, False, ops, order_key, set(GT.GOOD_HASHES))
    rq[-1] = ET.WRITE_MTIME * SCALE
    return rq


def c11(ctx):
    quick = ctx.tier == 'quick'
    r = ctx.rng('c11')
    n = 600 if quick else 4000
    stats = {'rounds': 0, 'rounds_premise_ok': 0, 'rounds_premise_violated': 0, 'midscan_injections': 0, 'tz': {},
             'model_rounds_compared': 0, 'incremental_equals_full': 0, 'skips_observed': 0}
    reqs = []
    expect = []
    with ET.Scratch() as sc:
        for case_no in range(n):
            c = GT.Case()
            t, files, written = GT.build_consistent(r, c, allow_multi=False, dups=False)
            if any(os.path.basename(p).startswith('Manifest') for p in files):
                continue
            if case_no < 3:
                # the minimal input of finding D33, first on every seed: dir/sub/Manifest lists f; a foreign dir/Manifest with a duplicate,
                # stale entry for sub/f is dropped in (see the first round below)
                t = GT.Tree()
                t.add_dir('dir')
                t.add_dir('dir/sub')
                t.add_file('dir/sub/f', b'hello', mtime=1500000000)
                t.add_file('dir/sub/Manifest', b'', mtime=1500000000)
                t.add_file('Manifest', b'MANIFEST dir/sub/Manifest 0\n', mtime=1500000000)
                files = {'dir/sub/f': b'hello'}
            tz = r.choice(TZS)
            hashes = r.choice(PT.HASHSETS)
            key = GT.order_key_for(r.randint(0, 3))
            t0 = 1600000000 + r.randint(0, 10**6)
            if case_no % 9 == 4:
                # a TIMESTAMP whose digits, read as local wall-clock time, do not exist or exist twice in the zone of the process (the hour skipped /
                # repeated at a daylight-saving switch): TIMESTAMP is UTC text, the local zone must not matter
                tz, t0 = [('Europe/Berlin', 1616898600), ('Europe/Berlin', 1635640200), ('America/St_Johns', 1615689000), ('America/New_York', 1615689000),
                          ('Australia/Lord_Howe', 1633188600), ('Europe/Berlin', 1616895000)][(case_no // 9) % 6]
                t0 += (case_no // 54) % 1800
                stats['timestamps_in_a_dst_switch_hour'] = stats.get('timestamps_in_a_dst_switch_hour', 0) + 1
            stats['tz'][tz] = stats['tz'].get(tz, 0) + 1
            a, _ = sc.fresh()
            b, _ = sc.fresh()
            try:
                t.realise(a, None)
                shutil.copytree(a, b, symlinks=True, copy_function=shutil.copy2)
                first = r.choice(['update', 'update', 'create'])
                rcs = [run_cli([first, '-t', '-H', ' '.join(hashes), x], t0, tz, key) for x in (a, b)]
                if rcs != [0, 0]:
                    continue
                # the TIMESTAMP written by this first run is not later than its start either (the clock advances while it scans)
                for x0 in manifests_of(listing(a)).get('Manifest', b'').split(b'\n'):
                    if x0.startswith(b'TIMESTAMP '):
                        try:
                            ts0 = datetime.datetime.strptime(x0.decode(), 'TIMESTAMP %Y-%m-%dT%H:%M:%SZ').replace(tzinfo=datetime.timezone.utc).timestamp()
                        except ValueError:
                            ts0 = None
                        if ts0 is None or ts0 > t0:
                            ctx.violation('spec', f'gemato {first} --timestamp: {x0!r} is later than the start of the scan '
                                          f'({datetime.datetime.utcfromtimestamp(t0).isoformat()}Z), TZ={tz}', {'tz': tz, 'command': first, 'tree': PT.describe(t)})
                if b'TIMESTAMP' not in manifests_of(listing(a)).get('Manifest', b''):
                    # nothing else changed, so the requested TIMESTAMP was not written (set_timestamp queues nothing):
                    # there is no previous TIMESTAMP to be incremental against
                    stats['no_previous_timestamp'] = stats.get('no_previous_timestamp', 0) + 1
                    continue
                live = set(p for p in files if os.path.exists(os.path.join(a, p)) and not any(x.startswith('.') for x in p.split('/')))
                t_prev = t0
                comparable = True
                injected = None
                history = []
                for rnd in range(r.randint(1, 3)):
                    t_now = t_prev + 100
                    if r.random() < 0.12:
                        # the clock was stepped back (or the Manifest comes from a machine whose clock ran ahead): the previous
                        # TIMESTAMP lies in the future, the new one is still the start of this scan
                        t_now = t_prev - r.choice([30, 500, 86400])
                        stats['clock_stepped_back'] = stats.get('clock_stepped_back', 0) + 1
                    pinned_round = case_no < 3 and rnd == 0
                    # (the history of a pinned round is replaced below: it must not leave paths it never creates in the live set)
                    ops = gen_history(r, set(live) if pinned_round else live, t_prev)
                    if pinned_round:
                        ops = [['add', 'dir/Manifest', ('DATA sub/f 5 %s\n' % ' '.join('%s %s' % (h, '0' * 40) for h in hashes[:case_no + 1])).encode(), t_prev - 50]]
                        stats['foreign_manifest_with_duplicate'] = stats.get('foreign_manifest_with_duplicate', 0) + 1
                        stats['foreign_manifest_above_a_registered_one'] = stats.get('foreign_manifest_above_a_registered_one', 0) + 1
                    elif r.random() < 0.12:
                        # a foreign Manifest dropped into a directory above a listed file (old mtime, as tar -x leaves it), holding a duplicate
                        # entry for that file with the recorded size and a stale digest: the entry that stays is completed from it
                        cand = [(p, A) for p in sorted(live) if os.path.exists(os.path.join(a, p)) and os.path.getsize(os.path.join(a, p)) > 0
                                for A in [os.path.dirname(p)] + ([os.path.dirname(os.path.dirname(p))] if p.count('/') >= 2 else [])
                                if A and os.path.isdir(os.path.join(a, A)) and not any(n.startswith('Manifest') for n in os.listdir(os.path.join(a, A)))]
                        # preferably a file that a Manifest BELOW the new one lists: the entry that stays is then the old, checked one
                        deep = [(p, A) for p, A in cand if A != os.path.dirname(p)
                                and any(n.startswith('Manifest') for n in os.listdir(os.path.join(a, os.path.dirname(p))))]
                        if deep and r.random() < 0.8:
                            cand = deep
                            stats['foreign_manifest_above_a_registered_one'] = stats.get('foreign_manifest_above_a_registered_one', 0) + 1
                        if cand:
                            fp, A = r.choice(cand)
                            line = 'DATA %s %d %s\n' % (os.path.relpath(fp, A).replace(' ', '\\x20'), os.path.getsize(os.path.join(a, fp)),
                                                        ' '.join('%s %s' % (h, '0' * 40) for h in r.choice([hashes, hashes[:1]])))
                            ops.append(['add', A + '/Manifest', line.encode(), t_prev - 50])
                            stats['foreign_manifest_with_duplicate'] = stats.get('foreign_manifest_with_duplicate', 0) + 1
                    sizes = {p: os.path.getsize(os.path.join(a, p)) for p in live if os.path.exists(os.path.join(a, p))}
                    before = {p: open(os.path.join(a, p), 'rb').read() for p in sizes}
                    # a file modified during the previous scan counts as modified at (previous start + 1 s)
                    ok = premise_ok(([['same', injected[0], 0, t_prev + 1]] if injected and injected[0] in sizes else []) + ops, t_prev, sizes)
                    injected = None
                    for x in (a, b):
                        apply_history(x, ops)
                    # ... judged on what the operations really left behind as well: a file whose content differs, that has its recorded size again
                    # (deleted, added anew and modified to the old length) and is not later than the previous TIMESTAMP is outside the premise
                    for p0, old0 in before.items():
                        q0 = os.path.join(a, p0)
                        if os.path.isfile(q0) and len(old0) and os.path.getsize(q0) == len(old0) and os.stat(q0).st_mtime <= t_prev and open(q0, 'rb').read() != old0:
                            ok = False
                    history.append({'t_prev': t_prev, 't_now': t_now, 'ops': [[o[0], o[1]] + ([o[3]] if len(o) > 3 else []) for o in ops], 'premise': ok})
                    # now and then a partial update (one sub-directory, no --timestamp) on both replicas in between: it scans
                    # only that directory, so it must leave the TIMESTAMP - and with it the next incremental run - alone
                    if r.random() < 0.3:
                        subs = sorted({os.path.dirname(p) for p in live if os.path.dirname(p) and os.path.isdir(os.path.join(a, os.path.dirname(p)))})
                        if subs:
                            sd = r.choice(subs)
                            prc = [run_cli(['update', '-H', ' '.join(hashes), os.path.join(x, sd)], t_prev + 50, tz, key) for x in (a, b)]
                            history[-1]['partial_update'] = [sd, prc]
                            stats['partial_updates'] = stats.get('partial_updates', 0) + 1
                    # model requests from the state before the run
                    tree_a, tree_b = tree_from_dir(a), tree_from_dir(b)
                    inject = None
                    hook = None
                    # (no mid-scan modification in a round whose clock was stepped back: its mtime would lie before the previous TIMESTAMP,
                    #  which is outside the premise of C11)
                    if r.random() < 0.25 and live and t_now > t_prev:
                        victim = r.choice(sorted(live))
                        at = r.randint(1, 4)

                        def mk_hook(root):
                            def hook(k, path, root=root):
                                if k == at:
                                    vp = os.path.join(root, victim)
                                    if os.path.exists(vp) and os.path.getsize(vp) > 0:
                                        old = open(vp, 'rb').read()
                                        with open(vp, 'wb') as f:
                                            f.write(bytes((x + 7) % 256 for x in old))
                                        os.utime(vp, (t_now + 1, t_now + 1))
                                        done.append(victim)
                            return hook
                        done = []
                        inject = [victim, at]
                        stats['midscan_injections'] += 1
                    fd0 = ET.fd_count()
                    frac = r.choice([0.0, 0.25, 0.5, 0.75, 0.999])
                    top_before = {'incremental': manifests_of(listing(a)).get('Manifest', b''), 'full': manifests_of(listing(b)).get('Manifest', b'')}
                    ra = run_cli(['update', '-i', '-H', ' '.join(hashes), a], t_now, tz, key, mk_hook(a) if inject else None, frac)
                    if ET.fd_count() > fd0:
                        stats['descriptor_leaks'] = stats.get('descriptor_leaks', 0) + 1
                        ctx.violation('spec', f'update --incremental leaves {ET.fd_count() - fd0} file descriptors open (one per skipped file: EMFILE on large trees, '
                                      'where the full update succeeds)', {'tz': tz, 'hashes': hashes, 'history': history})
                    rb = run_cli(['update', '-H', ' '.join(hashes), b], t_now, tz, key, mk_hook(b) if inject else None, frac)
                    la, lb = listing(a), listing(b)
                    if inject and done:
                        injected = [victim]
                    stats['rounds'] += 1
                    replay = {'tz': tz, 'hashes': hashes, 'history': history, 'inject': inject, 'exit': [ra, rb],
                              'tree': PT.describe(t)}
                    if ra != 0 or rb != 0:
                        if ra != rb:
                            ctx.violation('spec', f'update --incremental exits with {ra}, the full update with {rb}', replay)
                        break
                    # (b) the TIMESTAMP in the Manifest is never later than the start of the scan (the clock has advanced since)
                    for which, lst in (('incremental', la), ('full', lb)):
                        top = manifests_of(lst).get('Manifest', b'')
                        if top == top_before[which]:
                            continue            # not rewritten by this run: its TIMESTAMP is the one of an earlier update
                        got = [x for x in top.split(b'\n') if x.startswith(b'TIMESTAMP')]
                        for g in got:
                            try:
                                ts = datetime.datetime.strptime(g.decode(), 'TIMESTAMP %Y-%m-%dT%H:%M:%SZ').replace(tzinfo=datetime.timezone.utc).timestamp()
                            except ValueError:
                                ts = None
                            if ts is None or ts > t_now + frac:
                                ctx.violation('spec', f'{which} update: TIMESTAMP {g} is later than the start of the scan '
                                              f'({datetime.datetime.utcfromtimestamp(t_now + frac).isoformat()}Z), TZ={tz}', replay)
                            elif ts == t_now:
                                stats['timestamp_is_scan_start'] = stats.get('timestamp_is_scan_start', 0) + 1
                    if ok and comparable:
                        stats['rounds_premise_ok'] += 1
                        if manifests_of(la) != manifests_of(lb):
                            diff = sorted(p for p in set(manifests_of(la)) | set(manifests_of(lb)) if manifests_of(la).get(p) != manifests_of(lb).get(p))
                            replay['differing'] = diff
                            replay['incremental'] = {p: manifests_of(la).get(p, b'').decode('latin1') for p in diff}
                            replay['full'] = {p: manifests_of(lb).get(p, b'').decode('latin1') for p in diff}
                            ctx.violation('spec', f'update --incremental and full update leave different Manifests under TZ={tz}: {diff}', replay)
                            comparable = False
                        else:
                            stats['incremental_equals_full'] += 1
                    else:
                        stats['rounds_premise_violated'] += 1
                        if manifests_of(la) != manifests_of(lb):
                            stats['skips_observed'] += 1
                        comparable = False
                    if inject is None:
                        reqs.append(model_round(tree_a, hashes, True, t_now, key))
                        expect.append(('incremental', la, replay))
                        reqs.append(model_round(tree_b, hashes, False, t_now, key))
                        expect.append(('full', lb, replay))
                    # the previous TIMESTAMP of the next round is the one the Manifest really carries now (a run that found nothing
                    # to change leaves the old one; with a clock that was stepped back that is not this run's start)
                    t_prev = t_now
                    for x in manifests_of(lb).get('Manifest', b'').split(b'\n'):
                        if x.startswith(b'TIMESTAMP '):
                            try:
                                t_prev = int(datetime.datetime.strptime(x.decode(), 'TIMESTAMP %Y-%m-%dT%H:%M:%SZ').replace(tzinfo=datetime.timezone.utc).timestamp())
                            except ValueError:
                                pass
                    if not comparable:
                        # the replicas have legitimately diverged (a skipped file): continue both from the fully updated one
                        shutil.rmtree(a)
                        shutil.copytree(b, a, symlinks=True, copy_function=shutil.copy2)
                        comparable = True
            finally:
                sc.cleanup(a, None)
                sc.cleanup(b, None)
    # the model on the same pre-states
    model = ET.run_model_completing(reqs)
    for (which, lst, replay), m in zip(expect, model):
        stats['model_rounds_compared'] += 1
        want = [[p, d, mt] for p, d, mt in lst]
        got = None
        if m[0] == 'ok' and len(m[1]) == 4 and m[1][3][0] == 'ok':
            got = ET.canon_files([[p, d.encode('latin1') if isinstance(d, str) else d, mt // SCALE] for p, d, mt in m[1][3][1]])
        if got != want:
            gm = {p: d for p, d, mt in (got or [])}
            wm = {p: d for p, d, mt in want}
            diff = sorted(p for p in set(gm) | set(wm) if gm.get(p) != wm.get(p))
            rp = dict(replay)
            rp.update(where='cli:' + which, differing=diff, model=str(m)[:600],
                      impl={p: wm.get(p, b'').decode('latin1')[:400] for p in diff[:3]},
                      model_files={p: (gm.get(p) or b'').decode('latin1')[:400] for p in diff[:3]})
            ctx.violation('correspondence', f'cli:{which}-update: model and implementation differ', rp)
    ctx.count('cli:incremental-vs-full', stats['rounds'] * 2, stats['rounds'],
              samples=[{'tz': TZS, 'example_history': (expect[0][2]['history'] if expect else None)}], dist=stats)
