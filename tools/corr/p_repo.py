"""C19 (profiles) and C20 (fast generator scripts): ebuild-repository-shaped trees."""
import json
import os
import subprocess
import sys

import engine_tree as ET
import gen_tree as GT
import oracle_exact as OX
import p_tree as PT
import p_update as PU
import p_c18
from common import known_finding, REPO

CATS = ['dev-libs', 'app-misc', 'sys-apps', 'virtual', 'x11-wm', 'dev-lib', 'app']      # incl. names that are string prefixes of others
PKGS = ['foo', 'bar', 'baz-qux', 'libx', 'a1', 'lib', 'foo2']
CONTENT = [b'', b'x', b'EAPI=8\n', b'<pkgmetadata/>\n', b'patch data\n' * 3, b'0123456789' * 20]


def gen_repo(r, portable=False, with_dist=None, ignored_dirs=True, complete=False, gz_dist=False):
    """an ebuild-repository-shaped tree; returns a Case whose meta carries the role of every directory"""
    c = GT.Case()
    t = ET.Tree()
    roles = {'': 'top'}
    files = {}

    def mkdir(p, role):
        if t.lookup(p) is None:
            t.add_dir(p)
            roles[p] = role

    def mkfile(p, data=None):
        if t.lookup(p) is None:
            data = r.choice(CONTENT) if data is None else data
            t.add_file(p, data, mtime=1500000000 + r.randint(0, 1000))
            files[p] = data
    for cat in r.sample(CATS, r.randint(0, 4)):
        mkdir(cat, 'category')
        if r.random() < 0.3:
            mkfile(cat + '/metadata.xml')
        for pkg in r.sample(PKGS, r.randint(0, 4)):
            d = cat + '/' + pkg
            mkdir(d, 'package')
            n_eb = r.choice([0, 1, 1, 2, 3])
            for k in range(n_eb):
                mkfile(f'{d}/{pkg}-{k}.{r.randint(0, 9)}.ebuild')
            if r.random() < 0.85 or n_eb == 0 and r.random() < 0.7:
                mkfile(d + '/metadata.xml')
            if r.random() < 0.6:
                mkdir(d + '/files', 'files')
                for k in range(r.randint(0, 3)):
                    mkfile(f'{d}/files/' + (r.choice(['fix.patch', 'init.d', 'conf', 'a b.patch', 'p\\q', 'snapshot-1.ebuild', 'metadata.xml'] if not portable else ['fix.patch', 'init.d', 'conf', 'x.diff'])))
                if r.random() < 0.3:
                    mkdir(d + '/files/sub', 'files')
                    mkfile(d + '/files/sub/nested.patch')
                    if not portable and r.random() < 0.4:
                        # names that mean something directly inside the package directory, met below files/
                        mkfile(d + '/files/sub/' + r.choice(['old-0.ebuild', 'metadata.xml', 'ChangeLog']))
            if r.random() < 0.2:
                # hidden files inside a package directory (editor / VCS leftovers): never listed
                t.add_file(d + '/' + r.choice(['.gitignore', '.keep', '.#lock']), b'hidden\n', mtime=1500000000)
                if t.lookup(d + '/files') is not None and r.random() < 0.5:
                    t.add_file(d + '/files/.keep', b'', mtime=1500000000)
            if r.random() < 0.2:
                # now and then a file larger than the 64 KiB / 1 MiB buffering thresholds of the hashing code and of the scripts
                big = r.random() < 0.2
                mkfile(d + '/ChangeLog', (b'%d: changes\n' % r.randint(0, 99)) * r.choice([6000, 7000, 11000]) if big else None)
            want_dist = with_dist if with_dist is not None else (r.random() < 0.3)
            if want_dist:
                dist = b'DIST %s-1.tar.gz 5 BLAKE2B 00 SHA512 11\n' % pkg.encode()
                if gz_dist and r.random() < 0.35:
                    # the package Manifest is found compressed (e.g. written earlier under another profile)
                    t.add_file(d + '/Manifest.gz', ET.compress('gz', dist * r.choice([1, 1, 6])))
                else:
                    t.add_file(d + '/Manifest', dist)
    if not portable and r.random() < 0.06:
        # a file that carries the name Manifest but is not one (free text), where the ebuild profiles want a Manifest
        junk_dir = r.choice(sorted(d for d, ro in roles.items() if ro in ('package', 'category')) or [''])
        if junk_dir and t.lookup(junk_dir + '/Manifest') is None and t.lookup(junk_dir + '/Manifest.gz') is None:
            t.add_file(junk_dir + '/Manifest', b'this is not a Manifest\n<<<<<<< merge conflict\n')
            c.meta['junk_manifest'] = junk_dir + '/Manifest'
    if r.random() < 0.7 or complete:
        mkdir('eclass', 'eclass')
        for k in range(r.randint(0, 3)):
            mkfile('eclass/' + r.choice(['eutils', 'toolchain', 'git-r3']) + '.eclass')
    if r.random() < 0.6 or complete:
        mkdir('licenses', 'licenses')
        for k in range(r.randint(0, 3)):
            mkfile('licenses/' + r.choice(['GPL-2', 'BSD', 'MIT']))
    if r.random() < 0.6 or complete:
        mkdir('profiles', 'profiles')
        mkfile('profiles/repo_name', b'test\n')
        if r.random() < 0.08:
            mkfile('profiles/use.local.desc', b'cat/pkg:flag - description\n' * r.choice([2600, 3000]))
        if complete:
            mkfile('profiles/categories', ''.join(x + '\n' for x in sorted(d for d, ro in roles.items() if ro == 'category')).encode())
        if r.random() < 0.6:
            mkdir('profiles/arch', 'plain')
            mkdir('profiles/arch/amd64', 'plain')
            mkfile('profiles/arch/amd64/make.defaults')
    if r.random() < 0.7 or complete:
        mkdir('metadata', 'metadata')
        mkfile('metadata/layout.conf', b'masters =\n')
        if r.random() < 0.5:
            mkfile('metadata/timestamp', b'now\n')
            mkfile('metadata/timestamp.chk', b'now\n')
        # the other bookkeeping files of the rsync mirrors
        for bk in ('timestamp.commit', 'timestamp.x'):
            if r.random() < 0.35:
                mkfile('metadata/' + bk, b'1700000000 now\n')
        for sub in ('dtd', 'glsa', 'news', 'xml-schema'):
            if r.random() < 0.5 or complete:
                mkdir('metadata/' + sub, 'metadata-sub')
                mkfile(f'metadata/{sub}/' + r.choice(['a.xml', 'b.dtd', 'index']))
                if r.random() < 0.3:
                    mkfile(f'metadata/{sub}/timestamp.chk', b't\n')
                if r.random() < 0.3:
                    mkfile(f'metadata/{sub}/timestamp.commit', b'c\n')
                if sub == 'news' and r.random() < 0.5:
                    mkdir('metadata/news/2020-01-01-x', 'plain')
                    mkfile('metadata/news/2020-01-01-x/2020-01-01-x.en.txt')
        # plain sub-directories of metadata/ (no Manifest of their own), next to the ones that get one
        for sub in ('install-qa-check.d', 'zz-plain', 'aa-plain'):
            if r.random() < 0.35:
                mkdir('metadata/' + sub, 'plain')
                mkfile(f'metadata/{sub}/' + r.choice(['60check', 'README', 'x.sh']))
                if r.random() < 0.3:
                    mkdir(f'metadata/{sub}/deeper', 'plain')
                    mkfile(f'metadata/{sub}/deeper/file')
        if r.random() < 0.6 or complete:
            mkdir('metadata/md5-cache', 'metadata-sub')
            have = sorted(d for d, ro in roles.items() if ro == 'category')
            for cat in (r.sample(have, r.randint(0, min(2, len(have)))) if complete else r.sample(CATS, r.randint(0, 2))):
                mkdir('metadata/md5-cache/' + cat, 'cache-category')
                for k in range(r.randint(0, 2)):
                    mkfile(f'metadata/md5-cache/{cat}/{r.choice(PKGS)}-{k}')
    if ignored_dirs:
        for ig in ('distfiles', 'local', 'packages'):
            if r.random() < 0.3:
                mkdir(ig, 'ignored')
                mkfile(ig + '/junk.tar.gz', b'junk')
    if r.random() < 0.3:
        # a flat top-level directory that is neither a category nor one of the special ones
        mkdir('scripts', 'plain')
        for k in range(r.randint(1, 2)):
            mkfile('scripts/' + r.choice(['bootstrap.sh', 'README', 'tool.py']))
    if r.random() < 0.4:
        mkfile('header.txt')
    # hidden directories (skipped by every tool), also two side by side
    if r.random() < 0.4:
        host = r.choice(sorted(d for d, ro in roles.items() if ro in ('licenses', 'eclass', 'profiles', 'category', 'top')))
        for nm in r.sample(['.old', '.staging', '.git'], r.randint(1, 3)):
            hd = (host + '/' + nm) if host else nm
            mkdir(hd, 'hidden')
            mkfile(hd + '/leftover', b'hidden junk')
    c.tree = t
    t.hardlinks = True
    c.meta.update(dirs=sorted(roles), roles=roles, files=sorted(files), manifests=[], ignored=[], mutations=[], order_seed=r.randint(0, 3))
    c.hash_names = set(GT.GOOD_HASHES)
    c.allow_create = True
    return c


# ---- the documented policy, stated over the roles the generator gave to the directories --------------------------
def listing_of(t, d):
    ino = t.lookup(d)
    names = [n for n, x in t.nodes[ino]['ents']]
    subdirs = [n for n, x in t.nodes[ino]['ents'] if isinstance(x, int) and t.nodes[x]['k'] == 'd']
    return subdirs, [n for n in names if n not in subdirs]


def expected_manifest_dirs(c):
    t = c.tree
    roles = c.meta['roles']
    out = {''}
    for d, role in roles.items():
        if d == '' or OX.hidden(d):
            continue
        if any(OX.under(d, ig) for ig in ('distfiles', 'local', 'lost+found', 'packages')):
            continue
        subdirs, fnames = listing_of(t, d)
        depth = d.count('/') + 1
        if 'metadata.xml' in fnames:
            out.add(d)                                   # packages and categories carrying metadata.xml
        elif role == 'category' and subdirs:
            out.add(d)
        elif role in ('eclass', 'licenses', 'metadata', 'profiles'):
            out.add(d)
        elif role == 'package' and any(f.endswith('.ebuild') for f in fnames):
            out.add(d)
        elif role == 'metadata-sub' or role == 'cache-category':
            out.add(d)
        elif depth == 1 and subdirs:
            out.add(d)                                   # any top-level directory with sub-directories
    return out


DEFAULT_IGNORES = {'': ['distfiles', 'local', 'lost+found', 'packages'],
                   'metadata': ['timestamp', 'timestamp.chk', 'timestamp.commit', 'timestamp.x'],
                   'metadata/dtd': ['timestamp.chk', 'timestamp.commit'], 'metadata/glsa': ['timestamp.chk', 'timestamp.commit'],
                   'metadata/news': ['timestamp.chk', 'timestamp.commit'], 'metadata/xml-schema': ['timestamp.chk', 'timestamp.commit']}


def expected_tag(profile, path):
    if profile != 'old-ebuild':
        return 'DATA'
    parts = path.split('/')
    if len(parts) == 3 and path.endswith('.ebuild'):
        return 'EBUILD'
    if len(parts) == 3 and parts[2] == 'metadata.xml':
        return 'MISC'
    if len(parts) >= 3 and parts[2] == 'files':
        return 'AUX'
    return 'DATA'


def check_created(c, files, profile, overrides):
    """problems of the tree written by `gemato create -p profile` against the documented policy"""
    probs = []
    t = c.tree
    mdirs = {}
    junk = c.meta.get('junk_manifest')
    if junk is not None and junk in files and OX.parse(junk, files[junk]) is not None:
        junk = None                # it has been replaced by a real Manifest: judged like one
    for p in files:
        b = os.path.basename(p)
        if b in ('Manifest', 'Manifest.gz', 'Manifest.bz2', 'Manifest.xz', 'Manifest.lzma') and p != junk:
            mdirs.setdefault(os.path.dirname(p), []).append(p)
    had = {os.path.dirname(p) for p, _ in t.files() if os.path.basename(p) == 'Manifest' and p != junk}
    # Manifests found compressed: they stay (as a Manifest of that directory); whether they stay compressed is the watermark's business
    had_gz = {os.path.dirname(p): t.nodes[ino]['data'] for p, ino in t.files() if os.path.basename(p).startswith('Manifest.')}
    want = expected_manifest_dirs(c) if profile != 'default' else {''}
    want |= had | set(had_gz)
    for d in sorted(set(mdirs) | want):
        if (d in mdirs) != (d in want):
            probs.append(f'Manifest {"missing in" if d in want else "unexpected in"} {d!r}')
    hashes = overrides.get('hashes') or (['BLAKE2B', 'SHA512'] if profile != 'default' else None)
    wm = overrides.get('watermark', 128 if profile != 'default' else None)
    fmt = overrides.get('format') or 'gz'
    for d, ps in mdirs.items():
        if len(ps) != 1:
            probs.append(f'{len(ps)} Manifest files in {d!r}')
            continue
        p = ps[0]
        ents = OX.parse(p, files[p])
        if ents is None:
            probs.append(f'unreadable {p}')
            continue
        raw = OX.plain_bytes(p, files[p])
        # default IGNORE entries of a newly created Manifest
        if d not in had and d not in had_gz and profile != 'default':
            for ig in DEFAULT_IGNORES.get(d, []):
                if not any(e[0] == 'IGNORE' and e[1] == ig for e in ents):
                    probs.append(f'{p}: default IGNORE {ig} missing')
        # ... and no others: whatever else is IGNOREd in a Manifest that create has just written is not covered by anything
        if d not in had and d not in had_gz:
            documented = DEFAULT_IGNORES.get(d, []) if profile != 'default' else []
            extra = sorted(e[1] for e in ents if e[0] == 'IGNORE' and e[1] not in documented)
            if extra:
                probs.append(f'{p}: IGNORE entries {extra} that the profile does not document for this directory')
        # entry types and hashes
        for e in ents:
            if e[0] in OX.FILE_TAGS and e[0] != 'MANIFEST':
                full = OX.norm(d, e[1])
                et = expected_tag(profile, full)
                if e[0] != et:
                    probs.append(f'{p}: {full} typed {e[0]}, the profile prescribes {et}')
            if e[0] in OX.FILE_TAGS and hashes is not None and sorted(e[3]) != sorted(hashes):
                probs.append(f'{p}: entry {e[1]} carries {sorted(e[3])}, expected {sorted(hashes)}')
        # sorting
        sort = overrides.get('sort', profile != 'default')
        if sort:
            keys = [(e[0], e[1] if e[1] is not None else '') for e in ents]
            # AUX paths are compared with their files/ prefix as stored in .path
            if keys != sorted(keys):
                probs.append(f'{p}: entries not sorted')
        # compression
        if d != '' and wm is not None:
            compressed = ET.suffix_of(os.path.basename(p)) is not None
            has_ebuild = any(e[0] == 'EBUILD' for e in ents)
            expect = len(raw) >= wm and not (profile == 'old-ebuild' and has_ebuild)
            rewritten = d not in had_gz or files[p] != had_gz[d]
            if compressed != expect and d not in had and rewritten:
                probs.append(f'{p}: {len(raw)} bytes uncompressed, watermark {wm}: stored {"compressed" if compressed else "plain"}')
            if compressed and ET.suffix_of(os.path.basename(p)) != fmt and d not in had_gz:
                probs.append(f'{p}: compressed as {ET.suffix_of(os.path.basename(p))}, expected {fmt}')
        if d == '' and p != 'Manifest':
            probs.append(f'top-level Manifest stored as {p}')
    return probs


def c19(ctx):
    quick = ctx.tier == 'quick'
    r = ctx.rng('c19')
    n = 500 if quick else 4000
    cases = []
    for _ in range(n):
        c = gen_repo(r, gz_dist=True)
        profile = r.choice(['ebuild', 'ebuild', 'old-ebuild', 'old-ebuild', 'default'])
        ov = {}
        argv = ['create', '-p', profile]
        hashes = None
        if profile == 'default' or r.random() < 0.3:
            hashes = r.choice(PT.HASHSETS)
            ov['hashes'] = hashes
            argv += ['-H', ' '.join(hashes)]
        wm = fmt = None
        if r.random() < 0.25:
            wm = r.choice([0, 64, 300, 600, 1200, 100000])
            ov['watermark'] = wm
            argv += ['-c', str(wm)]
        if r.random() < 0.2:
            fmt = r.choice(['bz2', 'xz', 'gz'])
            ov['format'] = fmt
            argv += ['-C', fmt]
        if r.random() < 0.15:
            # a key id without a request to sign: names the key to use if the tree is (or gets) signed, changes nothing else
            argv += [r.choice(['-k', '--openpgp-id']), '0xDEADBEEF']
        c.argv = argv + ['@']
        c.opts = (hashes, None, wm, fmt, profile, None, None, True)
        c.meta['profile'] = profile
        c.meta['overrides'] = ov
        c.meta['cmd'] = 'create'
        # create, listing, then 0-3 edits and an update with the same profile, listing, fresh plain verification
        c.ops = [['update', '', [], []], ['save', [], 0, [], [], []], ['files']]
        cases.append(c)
    impl_res = []
    reqs = []
    st = {'created_ok': 0, 'policy_ok': 0, 'verifies_with_plain_loader': 0, 'updated_after_edits_ok': 0, 'profiles': {}, 'manifest_dirs': 0}
    with ET.Scratch() as sc:
        for c in cases:
            b, s = sc.fresh()
            key = GT.order_key_for(c.meta['order_seed'])
            out = {}
            try:
                c.tree.realise(b, s)
                argv = [(b if a == '@' else a) for a in c.argv]
                out['create'] = p_c18.run_cli(argv, key)
                out['files'] = ET.canon_files(ET.list_real_files(b))
                if out['create'] == ['exit', 0]:
                    out['verify'] = p_c18.run_cli(['verify', b], key)
                    # edits + update with the same profile
                    edits = []
                    data_files = [p for p in c.meta['files'] if os.path.exists(os.path.join(b, p))]
                    for _ in range(r.randint(0, 3)):
                        k = r.choice(['change', 'add', 'delete'])
                        if k == 'add' or not data_files:
                            d = r.choice([x for x in c.meta['dirs'] if os.path.isdir(os.path.join(b, x))])
                            p = os.path.join(d, 'added-%d' % r.randint(0, 9))
                            with open(os.path.join(b, p), 'wb') as f:
                                f.write(b'new')
                            edits.append(['add', p])
                        else:
                            p = r.choice(data_files)
                            if k == 'delete':
                                os.unlink(os.path.join(b, p))
                                data_files.remove(p)
                            else:
                                with open(os.path.join(b, p), 'ab') as f:
                                    f.write(b'!')
                            edits.append([k, p])
                    out['edits'] = edits
                    ovr = c.meta['overrides']
                    uargv = ['update', '-p', c.meta['profile']] + (['-H', ' '.join(ovr['hashes'])] if 'hashes' in ovr else []) \
                        + (['-c', str(ovr['watermark'])] if 'watermark' in ovr else []) + (['-C', ovr['format']] if 'format' in ovr else []) \
                        + (['-k', '0xDEADBEEF'] if '0xDEADBEEF' in c.argv else []) + [b]
                    out['update'] = p_c18.run_cli(uargv, key)
                    if out['update'] == ['exit', 0]:
                        out['files2'] = ET.canon_files(ET.list_real_files(b))
                        out['verify2'] = p_c18.run_cli(['verify', b], key)
            except Exception as e:
                out['harness-error'] = repr(e)
            finally:
                sc.cleanup(b, s)
            impl_res.append(out)
            rq = ET.model_request(c.tree, 'Manifest', c.opts, True, True, c.ops, key, c.hash_names)
            if 'files' in out:
                ET.preseed_oracles(rq, ['ok', [['ok', [[p, d if isinstance(d, bytes) else d.encode('latin1'), 0] for p, d, mt in out['files']]]]])
            reqs.append(rq)
    model = ET.run_model_completing(reqs, rounds=120)
    for c, out, m in zip(cases, impl_res, model):
        prof = c.meta['profile']
        st['profiles'][prof] = st['profiles'].get(prof, 0) + 1
        replay = {'meta': PU.meta_of(c), 'argv': c.argv, 'outcome': {k: v for k, v in out.items() if k != 'files'}, 'tree': PT.describe(c.tree)}
        if 'harness-error' in out:
            ctx.broke('harness error: ' + out['harness-error'])
            continue
        cr = out['create']
        mc = p_c18.model_class(m, 'create')
        if cr != ['exit', 0]:
            if cr[0] == 'exc' and cr[1] != 'OSError':
                if not known_finding(ctx, 'C19', c, 'internal', cr):
                    ctx.violation('spec', f'gemato create -p {prof}: an internal error escaped: {cr[1:]}', replay)
            if cr[:2] != mc[:2] and not (cr[0] == 'exc' and mc[0] == 'exc'):
                ctx.violation('correspondence', f'cli:create -p {prof}: outcome {cr} differs from the model {mc}', dict(replay, where='cli:create'))
            continue
        st['created_ok'] += 1
        files = PU.files_of(out['files'])
        # model vs implementation: the files written
        mf = None
        if m[0] == 'ok' and len(m[1]) == 3 and m[1][2][0] == 'ok':
            mf = ET.canon_files([[p, d.encode('latin1') if isinstance(d, str) else d, mt] for p, d, mt in m[1][2][1]])
        if mf != out['files']:
            gm = {p: d for p, d, mt in (mf or [])}
            diff = sorted(p for p in set(gm) | set(files) if gm.get(p) != files.get(p))
            ctx.violation('correspondence', f'cli:create -p {prof}: files written differ from the model: {diff[:4]}',
                          dict(replay, where='cli:create', differing=diff, impl={p: files.get(p, b'').decode('latin1')[:300] for p in diff[:2]},
                               model={p: (gm.get(p) or b'').decode('latin1')[:300] for p in diff[:2]}, model_result=str(m)[:300] if mf is None else None))
        probs = check_created(c, files, prof, c.meta['overrides'])
        st['manifest_dirs'] += sum(1 for p in files if os.path.basename(p).startswith('Manifest'))
        if probs:
            replay['problems'] = probs
            if not known_finding(ctx, 'C19', c, 'policy', probs):
                ctx.violation('spec', f'gemato create -p {prof} does not follow the documented policy: {probs[:3]}', replay)
        else:
            st['policy_ok'] += 1
        if out.get('verify') != ['exit', 0]:
            ctx.violation('spec', f'the tree created with -p {prof} does not verify with a plain loader: {out.get("verify")}', replay)
        else:
            st['verifies_with_plain_loader'] += 1
        if out.get('update') == ['exit', 0]:
            # the compression policy holds for every sub-Manifest the update has rewritten, too
            wm2 = c.meta['overrides'].get('watermark', 128 if prof != 'default' else None)
            if wm2 is not None and 'files2' in out:
                f2 = PU.files_of(out['files2'])
                for p2, d2 in sorted(f2.items()):
                    if not os.path.basename(p2).startswith('Manifest') or os.path.dirname(p2) == '' or files.get(p2) == d2:
                        continue
                    raw2 = OX.plain_bytes(p2, d2)
                    ents2 = OX.parse(p2, d2)
                    if raw2 is None or ents2 is None:
                        continue
                    compressed = ET.suffix_of(os.path.basename(p2)) is not None
                    expect = len(raw2) >= wm2 and not (prof == 'old-ebuild' and any(e[0] == 'EBUILD' for e in ents2))
                    if compressed != expect and not any(os.path.dirname(q) == os.path.dirname(p2) and q != p2 and os.path.basename(q).startswith('Manifest') for q in f2):
                        replay['after_update'] = f'{p2}: {len(raw2)} bytes uncompressed, watermark {wm2}: stored {"compressed" if compressed else "plain"}'
                        if not known_finding(ctx, 'C19', c, 'policy', [replay['after_update']]):
                            ctx.violation('spec', f'after edits and update -p {prof} a rewritten sub-Manifest does not follow the compression watermark: {replay["after_update"]}', replay)
                        break
            if out.get('verify2') != ['exit', 0]:
                ctx.violation('spec', f'after edits {out.get("edits")} and update -p {prof} the tree does not verify: {out.get("verify2")}', replay)
            else:
                st['updated_after_edits_ok'] += 1
        elif out.get('update') is not None:
            u = out['update']
            if u[0] == 'exc' and u[1] != 'OSError':
                if not known_finding(ctx, 'C19', c, 'internal', u):
                    ctx.violation('spec', f'gemato update -p {prof} after edits {out.get("edits")}: an internal error escaped: {u[1:]}', replay)
            else:
                ctx.violation('spec', f'gemato update -p {prof} after edits {out.get("edits")} failed: {u}', replay)
    ctx.count('cli:profiles', len(cases), len(cases), samples=[{'argv': cases[0].argv, 'dirs': cases[0].meta['dirs'][:12]}], dist=st)


# --------------------------------------------------------------------------- C20
def semantic(files):
    """{logical Manifest: sorted entries without TIMESTAMP} of every Manifest file"""
    out = {}
    for p, d in files.items():
        if os.path.basename(p).startswith('Manifest'):
            ents = OX.parse(p, d)
            if ents is not None:
                out[PU.logical(p)] = sorted((e[0], e[1] or '', e[2] or 0, tuple(sorted(e[3].items()))) for e in ents if e[0] != 'TIMESTAMP')
    return out


def run_script(name, args, cwd=None):
    env = dict(os.environ, PYTHONPATH=REPO, TZ='UTC')
    p = subprocess.run([sys.executable, os.path.join(REPO, 'utils', name)] + args, cwd=cwd, env=env,
                       stdout=subprocess.PIPE, stderr=subprocess.PIPE, timeout=300)
    return p.returncode, p.stderr.decode('utf8', 'replace')[-400:]


def c20(ctx):
    import p_c11
    quick = ctx.tier == 'quick'
    r = ctx.rng('c20')
    n = 120 if quick else 700
    st = {'repositories': 0, 'single_directories': 0, 'verify_ok': 0, 'exact': 0, 'update_finds_nothing': 0, 'update_byte_identical': 0,
          'edited_then_verifies': 0, 'model_rounds': 0, 'edits': 0}
    reqs = []
    expect = []
    key = GT.order_key_for(0)
    with ET.Scratch() as sc:
        for case_no in range(n):
            whole = r.random() < 0.6
            c = gen_repo(r, portable=True, with_dist=None, ignored_dirs=False, complete=whole)
            b, s = sc.fresh()
            replay = {'whole_repository': whole, 'dirs': c.meta['dirs'], 'files': c.meta['files']}
            try:
                c.tree.realise(b, None)
                unlisted = None
                if whole and r.random() < 0.3:
                    # a category directory that profiles/categories does not name (an old category kept around, a local one): the generator
                    # treats it as a plain directory; its packages carry the Manifests written for them earlier
                    cats = sorted(d for d, ro in c.meta['roles'].items() if ro == 'category')
                    catsfile = os.path.join(b, 'profiles', 'categories')
                    pkgs_of = {d0: sorted(d for d, ro in c.meta['roles'].items() if ro == 'package' and d.startswith(d0 + '/')) for d0 in cats}
                    cats = [d0 for d0 in cats if pkgs_of[d0]]
                    if cats and os.path.exists(catsfile):
                        unlisted = r.choice(cats)
                        with open(catsfile, 'w') as f:
                            f.write(''.join(x + '\n' for x in sorted(d for d, ro in c.meta['roles'].items() if ro == 'category') if x != unlisted))
                        for pd in pkgs_of[unlisted]:
                            rc0, err0 = run_script('gen_fast_manifest.py', [os.path.join(b, pd)])
                            if rc0 != 0:
                                ctx.violation('spec', f'the generator script failed on the package directory {pd} (exit {rc0}): {err0}', replay)
                        replay['category_not_in_profiles_categories'] = unlisted
                        st['unlisted_category'] = st.get('unlisted_category', 0) + 1
                if whole:
                    rc, err = run_script('gen_fast_metamanifest.py', [b])
                    target = b
                    st['repositories'] += 1
                else:
                    pk = [d for d, ro in c.meta['roles'].items() if ro in ('package', 'eclass', 'licenses')]
                    if not pk:
                        continue
                    d = r.choice(sorted(pk))
                    # a single directory: it becomes a tree of its own (top-level Manifest inside)
                    target = os.path.join(b, d)
                    rc, err = run_script('gen_fast_manifest.py', [target])
                    st['single_directories'] += 1
                    replay['directory'] = d
                if rc != 0:
                    ctx.violation('spec', f'the generator script failed (exit {rc}): {err}', replay)
                    continue
                if r.random() < 0.3:
                    # the generator is run again over the tree it has written (what a repository mirror does every time)
                    rc, err = run_script('gen_fast_metamanifest.py' if whole else 'gen_fast_manifest.py', [target])
                    replay['regenerated'] = True
                    st['regenerations'] = st.get('regenerations', 0) + 1
                    if rc != 0:
                        ctx.violation('spec', f'the generator script failed when run again over its own output (exit {rc}): {err}', replay)
                        continue
                files = {p: dd for p, dd, mt in ET.list_real_files(target)}
                # single directories without ebuilds are written as Manifest.gz: gemato needs to be pointed at it
                top = 'Manifest' if 'Manifest' in files else ('Manifest.gz' if 'Manifest.gz' in files else None)
                if top is None:
                    ctx.violation('spec', 'the generator script wrote no top-level Manifest', replay)
                    continue
                if top != 'Manifest':
                    # the reference tools look for a top-level file named Manifest (discovery without -c): not a full tree
                    continue
                t1 = 1700000000 + case_no * 1000
                v = p_c11.run_cli(['verify', target], t1, 'UTC', key)
                if v != 0:
                    ctx.violation('spec', f'`gemato verify` rejects the tree written by the fast generator (exit {v})', replay)
                    continue
                st['verify_ok'] += 1
                probs = OX.exactness(files, ['BLAKE2B', 'SHA512'], '')
                probs = [p for p in probs if not p.startswith('hashset:') or True]
                if probs:
                    replay['problems'] = probs
                    ctx.violation('spec', f'the generated Manifests do not cover every file exactly once with true size and BLAKE2B/SHA512: {probs[:3]}', replay)
                else:
                    st['exact'] += 1
                if unlisted:
                    # (the ebuild profile of the reference updater gives every category a Manifest of its own: "update finds nothing to change"
                    # is not expected of such a tree)
                    continue
                # the model as reference verifier and updater, from the same state
                if whole and r.random() < 0.5:
                    # directories covered by the default IGNORE entries appear after the generation
                    for ig in r.sample(['distfiles', 'local', 'packages', 'lost+found'], r.randint(1, 4)):
                        os.makedirs(os.path.join(target, ig), exist_ok=True)
                        with open(os.path.join(target, ig, 'junk.bin'), 'wb') as f:
                            f.write(b'junk')
                    replay['ignored_dirs_added'] = True
                    files = {p: dd for p, dd, mt in ET.list_real_files(target)}
                tree0 = p_c11.tree_from_dir(target)
                before = dict(files)
                # a single directory is not a repository: the reference update runs without the repository policy
                prof = 'ebuild' if whole else 'default'
                hs = [] if whole else ['-H', 'BLAKE2B SHA512']
                u = p_c11.run_cli(['update', '-p', prof] + hs + [target], t1 + 10, 'UTC', key)
                after = {p: dd for p, dd, mt in ET.list_real_files(target)}
                opts = (None if whole else ['BLAKE2B', 'SHA512'], None, None, None, prof, None, None, True)
                ops = [['verify', '', 1, []], ['update', '', [], []], ['updated'], ['touch_timestamp', 0, p_c11.dt_list(t1 + 10)], ['save', [], 0, [], [], []], ['files']]
                rq = ET.model_request(tree0, 'Manifest', opts, False, True, ops, key, set(GT.GOOD_HASHES))
                rq[-1] = ET.WRITE_MTIME * p_c11.SCALE
                ET.preseed_oracles(rq, ['ok', [['ok', [[p, dd, 0] for p, dd in after.items()]]]])
                reqs.append(rq)
                expect.append(('untouched', after, dict(replay), u))
                if u != 0:
                    ctx.violation('spec', f'`gemato update -p ebuild` on the untouched generated tree failed (exit {u})', replay)
                    continue
                if semantic(after) != semantic(before):
                    diff = sorted(k for k in set(semantic(after)) | set(semantic(before)) if semantic(after).get(k) != semantic(before).get(k))
                    replay['changed_manifests'] = diff
                    ctx.violation('spec', f'`gemato update -p ebuild` finds something to change on the untouched tree: {diff[:4]}', replay)
                else:
                    st['update_finds_nothing'] += 1
                    if after == before:
                        st['update_byte_identical'] += 1
                # 0-5 edits, update, verify
                data_files = sorted(p for p in after if not os.path.basename(p).startswith('Manifest'))
                edits = []
                for _ in range(r.randint(0, 5)):
                    k = r.choice(['change', 'add', 'delete'])
                    if k == 'add' or not data_files:
                        dirs = sorted({os.path.dirname(p) for p in after})
                        d = r.choice(dirs)
                        p = os.path.join(d, 'added%d.txt' % r.randint(0, 99))
                        with open(os.path.join(target, p), 'wb') as f:
                            f.write(b'new file\n')
                        edits.append(['add', p])
                    else:
                        p = r.choice(data_files)
                        if k == 'delete':
                            os.unlink(os.path.join(target, p))
                            data_files.remove(p)
                        else:
                            with open(os.path.join(target, p), 'ab') as f:
                                f.write(b'#')
                        edits.append([k, p])
                st['edits'] += len(edits)
                replay['edits'] = edits
                tree1 = p_c11.tree_from_dir(target)
                u2 = p_c11.run_cli(['update', '-p', prof] + hs + [target], t1 + 100, 'UTC', key)
                after2 = {p: dd for p, dd, mt in ET.list_real_files(target)}
                ops2 = [['update', '', [], []], ['touch_timestamp', 0, p_c11.dt_list(t1 + 100)], ['save', [], 0, [], [], []], ['files'], ['reload'], ['verify', '', 1, []]]
                rq2 = ET.model_request(tree1, 'Manifest', opts, False, True, ops2, key, set(GT.GOOD_HASHES))
                rq2[-1] = ET.WRITE_MTIME * p_c11.SCALE
                ET.preseed_oracles(rq2, ['ok', [['ok', [[p, dd, 0] for p, dd in after2.items()]]]])
                reqs.append(rq2)
                expect.append(('edited', after2, dict(replay), u2))
                v2 = p_c11.run_cli(['verify', target], t1 + 200, 'UTC', key) if u2 == 0 else None
                if u2 != 0 or v2 != 0:
                    ctx.violation('spec', f'after edits {edits} `gemato update -p ebuild` / verify: exit {u2} / {v2}', replay)
                else:
                    st['edited_then_verifies'] += 1
            except subprocess.TimeoutExpired:
                ctx.violation('spec', 'the generator script did not finish within 300 s', replay)
            finally:
                sc.cleanup(b, s)
    model = ET.run_model_completing(reqs, rounds=150)
    for (which, after, replay, rc), m in zip(expect, model):
        st['model_rounds'] += 1
        want = {p: d for p, d in after.items()}
        if m[0] != 'ok':
            ctx.violation('correspondence', f'fast-generator tree ({which}): the model cannot load it: {str(m)[:200]}', dict(replay, where='c20:' + which))
            continue
        res = m[1]
        if which == 'untouched':
            ver, upd, queued = res[0], res[1] if len(res) > 1 else None, res[2] if len(res) > 2 else None
            if not (ver[0] == 'ok' and ver[1][0] == 1):
                ctx.violation('spec', f'the reference verifier (model) rejects the tree written by the fast generator: {str(ver)[:200]}', replay)
                continue
            if queued is not None and queued[0] == 'ok' and queued[1]:
                ctx.violation('spec', f'the reference updater (model) finds something to change on the untouched tree: {queued[1][:5]}', replay)
            lst = res[5] if len(res) > 5 else None
        else:
            lst = res[3] if len(res) > 3 else None
            if rc == 0 and len(res) > 5 and not (res[5][0] == 'ok' and res[5][1][0] == 1):
                ctx.violation('spec', f'after the edits and an update the reference verifier (model) rejects the tree: {str(res[5])[:200]}', replay)
        if rc == 0:
            got = None
            if lst is not None and lst[0] == 'ok':
                got = {p: (d.encode('latin1') if isinstance(d, str) else d) for p, d, mt in lst[1]}
            if got != want:
                diff = sorted(p for p in set(got or {}) | set(want) if (got or {}).get(p) != want.get(p))
                ctx.violation('correspondence', f'fast-generator tree ({which}): files after `gemato update -p ebuild` differ from the model: {diff[:4]}',
                              dict(replay, where='c20:' + which, differing=diff, model=str(res)[:300] if got is None else None,
                                   impl={p: want.get(p, b'').decode('latin1')[:300] for p in diff[:2]},
                                   model_files={p: ((got or {}).get(p) or b'').decode('latin1')[:300] for p in diff[:2]}))
    ctx.count('scripts:fast-generators', st['repositories'] + st['single_directories'], st['repositories'] + st['single_directories'],
              samples=[{'note': 'gen_fast_metamanifest.py on whole repositories, gen_fast_manifest.py on single directories'}], dist=st)
