(* C03 core: what update_entry_for_path puts into an entry is what get_file_metadata computes from the
   file now: the true size and the digests of the requested hash set (or, when nothing differs, the old
   values, which then equal them). *)
From Coq Require Import List NArith ZArith Bool Lia ZifyBool ZifyN.
From Gemato Require Import Py.PyStr Py.PyPath Gen.Tables Model.Entry Model.Hash Model.FS Model.Verify.
From Gemato Require Import Proofs.Basics.
Import ListNotations.
Open Scope N_scope.

Section Refresh.
  Variable L : hashlib.

  Definition newcks_of (got : list (list N * hval)) : sums :=
    flat_map (fun kv => match snd kv with HStr d => [(fst kv, d)] | HInt _ => [] end) (dict_del s_size got).

  (* full update (no last_mtime): on success the object is a regular file on the expected device, its
     content was hashed with the requested hash set, and the size / checksums returned are the ones just
     computed - unless they were returned unchanged, in which case they are equal to the computed ones *)
  Theorem refresh_true w path t p a esize ecks hashes dev ch size' cks' :
    update_entry_for_path L w path (EFile t p a esize ecks) (Some hashes) dev None = Ok (ch, size', cks') ->
    exists i st got size,
      p_open w path = Ok i /\ p_fstat w i = Ok st /\ st_type st = FTReg /\
      (forall dv, dev = Some dv -> st_dev st = dv) /\
      gfm_checksums L w i st hashes = Ok got /\ assoc s_size got = Some (HInt size) /\
      (st_size st = 0 \/ st_size st = size) /\
      size' = Z.of_N size /\
      ( (ch = true /\ cks' = newcks_of got)
        \/ (ch = false /\ cks' = ecks /\ esize = Z.of_N size /\ sums_eqb ecks (newcks_of got) = true) ).
  Proof.
    unfold update_entry_for_path, gfm_open.
    destruct (p_open w path) as [i|e] eqn:Eo.
    2:{ destruct e; try discriminate. destruct e; cbn [bind gfm_stat]; try discriminate;
        (destruct (p_stat w path) as [st|]; cbn [bind]; [|discriminate];
         destruct (match dev with Some d => negb (st_dev st =? d) | None => false end); [discriminate|];
         destruct (st_type st); discriminate). }
    cbn [bind gfm_stat]. destruct (p_fstat w i) as [st|] eqn:Es; cbn [bind]; [|discriminate].
    destruct (match dev with Some d => negb (st_dev st =? d) | None => false end) eqn:Ed; [discriminate|].
    destruct (st_type st) eqn:Et; try discriminate.
    cbn [andb]. destruct (gfm_checksums L w i st hashes) as [got|] eqn:Eg; cbn [bind]; [|discriminate].
    destruct (assoc s_size got) as [[d|size]|] eqn:Ea; try discriminate.
    destruct (negb (st_size st =? 0) && negb (st_size st =? size)) eqn:Esz; [discriminate|].
    fold (newcks_of got).
    intros H. exists i, st, got, size. repeat split; try assumption; try reflexivity.
    - intros dv ->. destruct (st_dev st =? dv) eqn:E; [lia|discriminate].
    - destruct (st_size st =? 0) eqn:E0; [left; lia|]. destruct (st_size st =? size) eqn:E1; [right; lia|discriminate].
    - destruct (negb (esize =? Z.of_N size)%Z || negb (sums_eqb ecks (newcks_of got))) eqn:Ec; inversion H; subst; [reflexivity|].
      apply orb_false_elim in Ec. destruct Ec as [E1 _]. apply negb_false_iff in E1. lia.
    - destruct (negb (esize =? Z.of_N size)%Z || negb (sums_eqb ecks (newcks_of got))) eqn:Ec; inversion H; subst.
      + left. split; reflexivity.
      + right. apply orb_false_elim in Ec. destruct Ec as [E1 E2]. apply negb_false_iff in E1, E2.
        repeat split; [lia|exact E2].
  Qed.

  (* anything else fails with an error, never with a silently kept entry *)
  Theorem refresh_absent w path e hashes dev lm :
    p_open w path = Err (XOS ENOENT) ->
    (forall d, e <> ETs d) -> (forall q, e <> EIgn q) ->
    update_entry_for_path L w path e hashes dev lm = Err (XInvalidPath path s_exists).
  Proof.
    intros Ho H1 H2. destruct e as [d|q|t p a s c]; [destruct (H1 d eq_refl)|destruct (H2 q eq_refl)|].
    unfold update_entry_for_path, gfm_open. rewrite Ho. reflexivity.
  Qed.
End Refresh.
