(* C01 / C07, the composition over the whole tree: WHAT a directory verification presents.
   (1) Every entry of the merged entry dictionary (get_file_entry_dict) - whatever directory it belongs to, visited by the
       walk or not, below an IGNOREd directory or not - is checked against the object at its path by verify_path; when the
       check fails the handler is invoked for that very path with the differences (or the mismatch is raised).
   (2) Every file that the walk finds - every listed, visible (not hidden, not the top-level Manifest) file of every directory
       reached from the start through sub-directories that are not hidden and have no entry - is checked, with an entry
       recorded for its path or as a stray file; a failing check is reported the same way.
   Together with only_offending_reported (every report stems from a failed check) and keep_going_result (the result is the
   conjunction of the handler's answers) this is the whole-tree statement: success with an empty log means every entry
   matched and every file found is covered or does not exist. *)
From Coq Require Import List NArith ZArith Bool Lia.
From Gemato Require Import Py.PyStr Py.PyPath Gen.Tables Model.Entry Model.Text Model.OpenPGP Model.Hash Model.FS
  Model.Verify Model.Loader.
From Gemato Require Import Proofs.Basics Proofs.DirSpec Proofs.OnlyOffending Proofs.VerifyPath Proofs.KeepGoing.
Import ListNotations.
Open Scope N_scope.

(* ---- dictionaries as lists, without assuming unique keys -------------------------------------------------------- *)
Lemma in_dict_del {A} k (d : list (ustr * A)) k' v' :
  In (k', v') d -> In (k', v') (dict_del k d) \/ (k' = k /\ assoc k d = Some v').
Proof.
  induction d as [|[k2 v2] r IH]; [intros []|]. cbn [dict_del assoc]. intros [Eq|Hin].
  - inversion Eq; subst. destruct (ustr_eqb k k') eqn:E.
    + apply ustr_eqb_eq in E. subst. right. split; reflexivity.
    + left. left. reflexivity.
  - destruct (ustr_eqb k k2) eqn:E.
    + left. exact Hin.
    + destruct (IH Hin) as [H|[H1 H2]]; [left; right; exact H|right; split; assumption].
Qed.
Lemma in_dict_del_sub {A} k (d : list (ustr * A)) x : In x (dict_del k d) -> In x d.
Proof.
  induction d as [|[k2 v2] r IH]; [intros []|]. cbn [dict_del]. destruct (ustr_eqb k k2).
  - intros H. right. exact H.
  - intros [<-|H]; [left; reflexivity|right; apply IH; exact H].
Qed.
Lemma assoc_none_dict_del {A} k k' (d : list (ustr * A)) : assoc k' d = None -> assoc k' (dict_del k d) = None.
Proof. rewrite !assoc_none. intros H Hin. apply H. eapply del_keys_incl. exact Hin. Qed.

Definition pre (log log' : list call) : Prop := exists new, log' = log ++ new.
Lemma pre_refl log : pre log log. Proof. exists []. rewrite app_nil_r. reflexivity. Qed.
Lemma pre_trans a b d : pre a b -> pre b d -> pre a d.
Proof. intros [n1 ->] [n2 ->]. exists (n1 ++ n2). rewrite app_assoc. reflexivity. Qed.
Lemma pre_in a b x : pre a b -> In x a -> In x b.
Proof. intros [n ->] H. apply in_or_app. left. exact H. Qed.

Lemma fold_err_stays' {A S} (f : res S -> A -> res S) : (forall e x, f (Err e) x = Err e) ->
  forall l e, fold_left f l (Err e) = Err e.
Proof. intros Hf l. induction l as [|x l IH]; intros e; [reflexivity|]. cbn [fold_left]. rewrite Hf. apply IH. Qed.

(* ---- the items of one directory, without uniqueness assumptions --------------------------------------------------- *)
Lemma items_dirs_cover : forall dirnames dd,
  (forall x, In x dd -> In x (snd (items_dirs dirnames dd)) \/ In (fst x, Some (snd x)) (fst (items_dirs dirnames dd))) /\
  (forall x, In x (snd (items_dirs dirnames dd)) -> In x dd).
Proof.
  induction dirnames as [|d r IH]; intros dd; [cbn; split; [intros x H; left; exact H|intros x H; exact H]|].
  cbn [items_dirs]. destruct (assoc d dd) as [de|] eqn:E.
  - specialize (IH (dict_del d dd)). destruct (items_dirs r (dict_del d dd)) as [its dd'] eqn:EI. cbn [fst snd] in *.
    destruct IH as [I1 I2]. split.
    + intros [n e] Hin. destruct (in_dict_del d dd n e Hin) as [H|[-> H]].
      * destruct (I1 _ H) as [H1|H1]; [left; exact H1|right; right; exact H1].
      * rewrite E in H. inversion H; subst. right. left. reflexivity.
    + intros x H. eapply in_dict_del_sub. apply I2. exact H.
  - apply IH.
Qed.

Lemma items_files_cover top rp : forall filenames dd,
  (forall x, In x dd -> In x (snd (items_files top rp filenames dd)) \/ In (fst x, Some (snd x)) (fst (items_files top rp filenames dd))) /\
  (forall x, In x (snd (items_files top rp filenames dd)) -> In x dd) /\
  (forall f, In f filenames -> visible top rp f = true ->
     exists eo, In (f, eo) (fst (items_files top rp filenames dd)) /\ (eo = None \/ exists e, eo = Some e /\ In (f, e) dd)).
Proof.
  induction filenames as [|f r IH]; intros dd.
  { cbn. split; [intros x H; left; exact H|split; [intros x H; exact H|intros f []]]. }
  cbn [items_files]. destruct (visible top rp f) eqn:EV.
  - specialize (IH (dict_del f dd)). destruct (items_files top rp r (dict_del f dd)) as [its dd'] eqn:EI. cbn [fst snd] in *.
    destruct IH as [I1 [I2 I3]]. split; [|split].
    + intros [n e] Hin. destruct (in_dict_del f dd n e Hin) as [H|[-> H]].
      * destruct (I1 _ H) as [H1|H1]; [left; exact H1|right; right; exact H1].
      * right. left. cbn [fst snd]. rewrite H. reflexivity.
    + intros x H. eapply in_dict_del_sub. apply I2. exact H.
    + intros f' [<-|Hin] Hv.
      * exists (assoc f dd). split; [left; reflexivity|]. destruct (assoc f dd) as [e|] eqn:E; [right|left; reflexivity].
        exists e. split; [reflexivity|apply assoc_in; exact E].
      * destruct (I3 f' Hin Hv) as [eo [H1 H2]]. exists eo. split; [right; exact H1|].
        destruct H2 as [->|[e [-> H2]]]; [left; reflexivity|right; exists e; split; [reflexivity|eapply in_dict_del_sub; exact H2]].
  - specialize (IH dd). destruct IH as [I1 [I2 I3]]. split; [exact I1|split; [exact I2|]].
    intros f' [<-|Hin] Hv; [rewrite EV in Hv; discriminate|apply I3; assumption].
Qed.

(* every entry of the directory's dictionary is an item; every visible listed file is an item, with an entry of the
   dictionary recorded under its name or with none *)
Lemma dir_items_cover top rp dirnames filenames dirdict :
  (forall n e, In (n, e) dirdict -> In (n, Some e) (dir_items top rp dirnames filenames dirdict)) /\
  (forall f, In f filenames -> visible top rp f = true ->
     exists eo, In (f, eo) (dir_items top rp dirnames filenames dirdict) /\ (eo = None \/ exists e, eo = Some e /\ In (f, e) dirdict)).
Proof.
  unfold dir_items. pose proof (items_dirs_cover dirnames dirdict) as [D1 D2].
  destruct (items_dirs dirnames dirdict) as [i1 dd1]. cbn [fst snd] in *.
  pose proof (items_files_cover top rp filenames dd1) as [F1 [F2 F3]].
  destruct (items_files top rp filenames dd1) as [i2 dd2]. cbn [fst snd] in *. split.
  - intros n e Hin. destruct (D1 _ Hin) as [H|H]; [|apply in_or_app; left; exact H].
    destruct (F1 _ H) as [H'|H']; apply in_or_app; right; apply in_or_app; [right|left; exact H'].
    apply in_map_iff. exists (n, e). split; [reflexivity|exact H'].
  - intros f Hin Hv. destruct (F3 f Hin Hv) as [eo [H1 H2]]. exists eo. split; [apply in_or_app; right; apply in_or_app; left; exact H1|].
    destruct H2 as [->|[e [-> H2]]]; [left; reflexivity|right; exists e; split; [reflexivity|apply D2; exact H2]].
Qed.

Section WC.
  Variable L : hashlib.
  Variable w : world.
  Variable c : vctx.
  Variable path : list N.           (* the directory whose verification was requested, relative to the top *)

  (* [dp] is a system path of the object that the tree-relative path [rp] names *)
  Definition names_object (dp rp : list N) : Prop := paired path dp rp \/ dp = pjoin rootdir rp.

  (* the object at [rp] was checked against [eo] (an entry, or none for a file nobody lists); a failing check was reported *)
  (* ... at the system path [dp]: verify_path answered (it did not end with an error), and a negative answer was reported *)
  Definition presented_at (dp rp : list N) (eo : option entry) (log : list call) : Prop :=
    exists ok diff, Verify.verify_path L w dp eo (vc_dev c) (vc_lm c) = Ok (ok, diff) /\ (ok = false -> In (rp, diff) log).
  Definition presented (rp : list N) (eo : option entry) (log : list call) : Prop :=
    exists dp, names_object dp rp /\ presented_at dp rp eo log.

  Lemma presented_at_mono dp rp eo log log' : pre log log' -> presented_at dp rp eo log -> presented_at dp rp eo log'.
  Proof. intros Hp [ok [diff [H2 H3]]]. exists ok, diff. split; [exact H2|]. intros E. eapply pre_in; [exact Hp|apply H3; exact E]. Qed.
  Lemma presented_mono rp eo log log' : pre log log' -> presented rp eo log -> presented rp eo log'.
  Proof. intros Hp [dp [H1 H2]]. exists dp. split; [exact H1|eapply presented_at_mono; eassumption]. Qed.

  Lemma verify_one_presented dp rp eo log b log' :
    verify_one L w c dp rp eo log = Ok (b, log') -> pre log log' /\ presented_at dp rp eo log'.
  Proof.
    unfold verify_one. destruct (Verify.verify_path L w dp eo (vc_dev c) (vc_lm c)) as [[ok diff]|] eqn:E; cbn [bind]; [|discriminate].
    destruct ok.
    - intros H. inversion H; subst. split; [apply pre_refl|]. exists true, diff. split; [exact E|discriminate].
    - assert (P : pre log (log ++ [(rp, diff)]) /\ presented_at dp rp eo (log ++ [(rp, diff)])).
      { split; [exists [(rp, diff)]; reflexivity|]. exists false, diff. split; [exact E|]. intros _. apply in_or_app. right. left. reflexivity. }
      destruct (apply_policy (vc_pol c) rp); [| |discriminate]; intros H; inversion H; subst; exact P.
  Qed.

  (* an IGNORE entry always verifies *)
  Lemma ignore_presented dp rp p log : names_object dp rp -> presented rp (Some (EIgn p)) log.
  Proof. intros Hn. exists dp. split; [exact Hn|]. exists true, []. split; [apply verify_path_ignore|discriminate]. Qed.

  (* items verified in order: the log grows, every item is presented *)
  Lemma verify_items_presented dp rp : paired path dp rp -> forall its r lg b lg',
    verify_items L w c dp rp its (Ok (r, lg)) = Ok (b, lg') ->
    pre lg lg' /\ forall it, In it its -> presented_at (pjoin dp (fst it)) (pjoin rp (fst it)) (snd it) lg'.
  Proof.
    intros Hp. induction its as [|it its IH]; intros r lg b lg' H.
    - cbn in H. inversion H; subst. split; [apply pre_refl|intros it []].
    - cbn [verify_items fold_left bind] in H.
      destruct (verify_one L w c (pjoin dp (fst it)) (pjoin rp (fst it)) (snd it) lg) as [[b0 lg0]|] eqn:E; cbn [bind] in H.
      2:{ exfalso. fold (verify_items L w c dp rp its (Err e)) in H. rewrite verify_items_err in H. discriminate. }
      fold (verify_items L w c dp rp its (Ok (r && b0, lg0))) in H.
      destruct (verify_one_presented _ _ _ _ _ _ E) as [P1 P2].
      destruct (IH _ _ _ _ H) as [Q1 Q2]. split; [eapply pre_trans; eassumption|].
      intros it' [<-|Hin]; [eapply presented_at_mono; eassumption|apply Q2; exact Hin].
  Qed.

  (* ---- the entry dictionary: what remains of it, what was presented ------------------------------------------------ *)
  (* every entry of the directory dictionary [dd] recorded for [dir] *)
  Definition dd_presented (dir : list N) (dd : list (list N * entry)) (log : list call) : Prop :=
    forall n e, In (n, e) dd -> presented (pjoin dir n) (Some e) log.

  (* from [ed] to [ed']: a directory dictionary either stays or all its entries were presented *)
  Definition consumed (ed ed' : edict) (log : list call) : Prop :=
    (forall x, In x ed' -> In x ed) /\
    (forall dir dd, In (dir, dd) ed -> In (dir, dd) ed' \/ dd_presented dir dd log).

  Lemma consumed_refl ed log : consumed ed ed log.
  Proof. split; [intros x H; exact H|intros dir dd H; left; exact H]. Qed.
  Lemma consumed_trans ed0 ed1 ed2 log1 log2 : pre log1 log2 -> consumed ed0 ed1 log1 -> consumed ed1 ed2 log2 -> consumed ed0 ed2 log2.
  Proof.
    intros Hp [A1 A2] [B1 B2]. split; [intros x H; apply A1; apply B1; exact H|].
    intros dir dd H. destruct (A2 _ _ H) as [H1|H1]; [apply B2; exact H1|].
    right. intros n e Hin. eapply presented_mono; [exact Hp|apply H1; exact Hin].
  Qed.

  (* the pruning of sub-directories: what is kept is exactly what has no entry; what leaves the dictionary is IGNORE *)
  Definition prune (dirnames : list (list N)) (dirdict : list (list N * entry)) :=
    fold_left (fun (acc : list (list N) * list (list N * entry)) d =>
            let '(kp, dd) := acc in
            if py_startswith d [46] then (kp, dd)
            else match assoc d dd with
                 | None => (kp ++ [d], dd)
                 | Some (EIgn _) => (kp, dict_del d dd)
                 | Some _ => (kp, dd)
                 end) dirnames ([], dirdict).

  Lemma prune_spec : forall dirnames kp0 dd0 kp dd,
    fold_left (fun (acc : list (list N) * list (list N * entry)) d =>
            let '(kp, dd) := acc in
            if py_startswith d [46] then (kp, dd)
            else match assoc d dd with
                 | None => (kp ++ [d], dd)
                 | Some (EIgn _) => (kp, dict_del d dd)
                 | Some _ => (kp, dd)
                 end) dirnames (kp0, dd0) = (kp, dd) ->
    (forall x, In x kp0 -> In x kp) /\
    (forall d, In d dirnames -> py_startswith d [46] = false -> assoc d dd0 = None -> In d kp) /\
    (forall x, In x dd -> In x dd0) /\
    (forall n e, In (n, e) dd0 -> In (n, e) dd \/ exists p, e = EIgn p).
  Proof.
    induction dirnames as [|d r IH]; intros kp0 dd0 kp dd H.
    - cbn in H. inversion H; subst. split; [auto|split; [intros d []|split; [auto|intros n e Hin; left; exact Hin]]].
    - cbn [fold_left] in H. destruct (py_startswith d [46]) eqn:Eh.
      + destruct (IH _ _ _ _ H) as [I1 [I2 [I3 I4]]]. split; [exact I1|split; [|split; [exact I3|exact I4]]].
        intros d' [<-|Hin] Hh Ha; [rewrite Eh in Hh; discriminate|apply I2; assumption].
      + destruct (assoc d dd0) as [de|] eqn:Ea.
        * destruct de as [ts|p|t p0 a s ck].
          -- destruct (IH _ _ _ _ H) as [I1 [I2 [I3 I4]]]. split; [exact I1|split; [|split; [exact I3|exact I4]]].
             intros d' [<-|Hin] Hh Ha; [rewrite Ea in Ha; discriminate|apply I2; assumption].
          -- destruct (IH _ _ _ _ H) as [I1 [I2 [I3 I4]]]. split; [exact I1|split; [|split]].
             ++ intros d' [<-|Hin] Hh Ha; [rewrite Ea in Ha; discriminate|apply I2; [exact Hin|exact Hh|apply assoc_none_dict_del; exact Ha]].
             ++ intros x Hx. eapply in_dict_del_sub. apply I3. exact Hx.
             ++ intros n e Hin. destruct (in_dict_del d dd0 n e Hin) as [H1|[-> H1]]; [apply I4; exact H1|].
                rewrite Ea in H1. inversion H1; subst. right. exists p. reflexivity.
          -- destruct (IH _ _ _ _ H) as [I1 [I2 [I3 I4]]]. split; [exact I1|split; [|split; [exact I3|exact I4]]].
             intros d' [<-|Hin] Hh Ha; [rewrite Ea in Ha; discriminate|apply I2; assumption].
        * destruct (IH _ _ _ _ H) as [I1 [I2 [I3 I4]]]. split; [intros x Hx; apply I1; apply in_or_app; left; exact Hx|split; [|split; [exact I3|exact I4]]].
          intros d' [<-|Hin] Hh Ha; [apply I1; apply in_or_app; right; left; reflexivity|apply I2; assumption].
  Qed.

  (* ---- the directories the walk reaches, described by the ORIGINAL dictionary [ed0] -------------------------------- *)
  Variable ed0 : edict.
  Definition no_entry_for (rel d : list N) : Prop := forall dd, In (rel, dd) ed0 -> assoc d dd = None.

  Inductive reach : list N -> list N -> list N -> list N -> Prop :=
  | reach_here dp rel : reach dp rel dp rel
  | reach_down dp rel ents d dp' rel' :
      p_scandir w dp = Ok ents -> In d (map fst (filter snd ents)) -> py_startswith d [46] = false ->
      no_entry_for rel d -> reach (pjoin dp d) (pjoin rel d) dp' rel' -> reach dp rel dp' rel'.

  (* every listed visible file of the directory (dp, rel) was presented, with an entry that ed0 records for rel, or none *)
  Definition files_presented (dp rel : list N) (log : list call) : Prop :=
    (* the directory itself could be listed and inspected, on the expected device *)
    (exists ents st, p_scandir w dp = Ok ents /\ p_stat w dp = Ok st /\ (forall d, vc_dev c = Some d -> st_dev st = d)) /\
    forall ents f, p_scandir w dp = Ok ents -> In f (map fst (filter (fun x => negb (snd x)) ents)) ->
      visible (vc_top c) rel f = true ->
      exists eo, presented_at (pjoin dp f) (pjoin rel f) eo log /\ (eo = None \/ exists e dd, eo = Some e /\ In (rel, dd) ed0 /\ In (f, e) dd).

  Definition sub_ed0 (ed : edict) : Prop := forall x, In x ed -> In x ed0.

  Lemma files_presented_mono dp rel log log' : pre log log' -> files_presented dp rel log -> files_presented dp rel log'.
  Proof.
    intros Hp [H0 H1]. split; [exact H0|]. intros ents f A1 A2 A3. destruct (H1 ents f A1 A2 A3) as [eo [B1 B2]].
    exists eo. split; [eapply presented_at_mono; eassumption|exact B2].
  Qed.

  Lemma walk_complete fuel : forall dp rel ids ed ret log ids' ed' ret' log',
    paired path dp rel -> sub_ed0 ed ->
    walk_verify L fuel w c dp rel ids ed ret log = Ok (ids', ed', ret', log') ->
    pre log log' /\ consumed ed ed' log' /\
    forall dp' rel', reach dp rel dp' rel' -> files_presented dp' rel' log'.
  Proof.
    induction fuel as [|f IH]; intros dp rel ids ed ret log ids' ed' ret' log' Hp Hsub H; [discriminate|].
    cbn [walk_verify] in H.
    destruct (p_scandir w dp) as [ents|] eqn:Es; cbn [bind] in H; [|discriminate].
    destruct (p_stat w dp) as [dst|] eqn:Est; cbn [bind] in H; [|discriminate].
    destruct (match vc_dev c with Some d => negb (st_dev dst =? d) | None => false end) eqn:Edev; [discriminate|].
    destruct (existsb _ _); [discriminate|].
    set (dirdict := match assoc rel ed with Some d => d | None => [] end) in *.
    destruct (fold_left _ (map fst (filter snd ents)) ([], dirdict)) as [keep dirdict1] eqn:Ek.
    destruct (prune_spec _ _ _ _ _ Ek) as [_ [K2 [K3 K4]]].
    destruct (verify_dir L w c dp rel keep _ dirdict1 log) as [[b log1]|] eqn:Ev; cbn [bind] in H; [|discriminate].
    rewrite verify_dir_items in Ev.
    destruct (verify_items_presented dp rel Hp _ _ _ _ _ Ev) as [P1 P2].
    pose proof (dir_items_cover (vc_top c) rel keep (map fst (filter (fun x => negb (snd x)) ents)) dirdict1) as [C1 C2].
    (* the dictionary of this directory: everything in it has been presented *)
    assert (DD : dd_presented rel dirdict log1).
    { intros n e Hin. destruct (K4 _ _ Hin) as [H1|[p ->]].
      - exists (pjoin dp n). split; [left; apply paired_step; exact Hp|]. apply (P2 (n, Some e)). apply C1. exact H1.
      - apply (ignore_presented (pjoin dp n)). left. apply paired_step. exact Hp. }
    assert (DSUB : forall dd, assoc rel ed = Some dd -> In (rel, dd) ed0) by (intros dd Ha; apply Hsub; apply assoc_in; exact Ha).
    assert (CONS1 : consumed ed (dict_del rel ed) log1).
    { split; [intros x Hx; eapply in_dict_del_sub; exact Hx|]. intros dir dd Hin.
      destruct (in_dict_del rel ed dir dd Hin) as [H1|[-> H1]]; [left; exact H1|right].
      unfold dirdict in DD. rewrite H1 in DD. exact DD. }
    (* the files of this directory *)
    assert (FP : files_presented dp rel log1).
    { split.
      { exists ents, dst. split; [exact Es|split; [exact Est|]]. intros d Hd. rewrite Hd in Edev.
        apply negb_false_iff, N.eqb_eq in Edev. exact Edev. }
      intros ents' f' Es' Hin Hv. rewrite Es in Es'. inversion Es'; subst ents'.
      destruct (C2 f' Hin Hv) as [eo [I1 I2]]. exists eo. split; [apply (P2 (f', eo)); exact I1|].
      destruct I2 as [->|[e [-> I2]]]; [left; reflexivity|right].
      apply K3 in I2. unfold dirdict in I2. destruct (assoc rel ed) as [dd|] eqn:Ea; [|destruct I2].
      exists e, dd. split; [reflexivity|split; [apply DSUB; reflexivity|exact I2]]. }
    (* the recursion over the kept sub-directories *)
    assert (G : forall ds i0 e0 r0 l0 i1 e1 r1 l1, sub_ed0 e0 ->
      fold_left (fun (acc : res (ids_map * edict * bool * list call)) d =>
        '(i, e, r, lg) <- acc ;; walk_verify L f w c (pjoin dp d) (pjoin rel d) i e r lg)
        ds (Ok (i0, e0, r0, l0)) = Ok (i1, e1, r1, l1) ->
      pre l0 l1 /\ consumed e0 e1 l1 /\
      forall d, In d ds -> forall dp' rel', reach (pjoin dp d) (pjoin rel d) dp' rel' -> files_presented dp' rel' l1).
    { induction ds as [|d ds IHd]; intros i0 e0 r0 l0 i1 e1 r1 l1 Hs0 Hd.
      - cbn in Hd. inversion Hd; subst. split; [apply pre_refl|split; [apply consumed_refl|intros d []]].
      - cbn [fold_left bind] in Hd.
        destruct (walk_verify L f w c (pjoin dp d) (pjoin rel d) i0 e0 r0 l0) as [[[[i2 e2] r2] l2]|] eqn:E.
        2:{ exfalso. rewrite fold_err_stays' in Hd by reflexivity. discriminate. }
        destruct (IH _ _ _ _ _ _ _ _ _ _ (paired_step path dp rel d Hp) Hs0 E) as [W1 [W2 W3]].
        assert (Hs2 : sub_ed0 e2) by (intros x Hx; apply Hs0; apply (proj1 W2); exact Hx).
        destruct (IHd _ _ _ _ _ _ _ _ Hs2 Hd) as [V1 [V2 V3]].
        split; [eapply pre_trans; eassumption|split; [eapply consumed_trans; eassumption|]].
        intros d' [<-|Hin] dp' rel' Hr.
        + eapply files_presented_mono; [exact V1|apply W3; exact Hr].
        + eapply V3; eassumption. }
    assert (Hs1 : sub_ed0 (dict_del rel ed)) by (intros x Hx; apply Hsub; eapply in_dict_del_sub; exact Hx).
    destruct (G _ _ _ _ _ _ _ _ _ Hs1 H) as [G1 [G2 G3]].
    split; [eapply pre_trans; eassumption|split; [eapply consumed_trans; eassumption|]].
    intros dp' rel' Hr. inversion Hr as [|? ? ents' d ? ? R1 R2 R3 R4 R5]; subst.
    - eapply files_presented_mono; [exact G1|exact FP].
    - rewrite Es in R1. inversion R1; subst ents'. eapply G3; [|exact R5].
      apply K2; [exact R2|exact R3|]. unfold dirdict. destruct (assoc rel ed) as [dd|] eqn:Ea; [|reflexivity].
      apply R4. apply DSUB. reflexivity.
  Qed.
End WC.

(* ---- the whole operation ------------------------------------------------------------------------------------------ *)
Section Whole.
  Variable L : hashlib.
  Variable decompress : list N -> list N -> res (list N).
  Variable pgp_verify : list N -> res sigdata.

  (* assert_directory_verifies(path, handler, last_mtime) returned: with [ed] the merged entry dictionary it computed,
     every entry of [ed] was presented, and so was every visible file of every directory reached from the start *)
  Theorem directory_verification_complete w l path pol lm l' b log :
    assert_directory_verifies L decompress pgp_verify w l path pol lm = Ok (l', b, log) ->
    exists ed, get_file_entry_dict L decompress pgp_verify w l path None true = Ok (l', ed) /\
      let c := mk_vctx (l_top l') (l_dev l') pol lm in
      (forall dir dd n e, In (dir, dd) ed -> In (n, e) dd -> presented L w c path (pjoin dir n) (Some e) log) /\
      (forall dp rel, reach w ed (walk_top path) path dp rel -> files_presented L w c ed dp rel log).
  Proof.
    unfold assert_directory_verifies.
    destruct (get_file_entry_dict L decompress pgp_verify w l path None true) as [[l1 ed]|]; cbn [bind]; [|discriminate].
    set (c := mk_vctx (l_top l1) (l_dev l1) pol lm).
    destruct (walk_verify L (nodes_fuel w) w c _ path [] ed true []) as [[[[ids' ed'] ret] lg]|] eqn:Ew; cbn [bind]; [|discriminate].
    destruct (walk_complete L w c path ed _ _ _ _ _ _ _ _ _ _ _ (paired_start path) (fun x H => H) Ew) as [W1 [W2 W3]].
    (* the trailing pass over what the walk left *)
    assert (Inner : forall d fes r0 l0 r1 l1',
      fold_left (fun (acc2 : res (bool * list call)) (fe : list N * entry) =>
        '(rt, lg0) <- acc2 ;;
        let fpath := pjoin d (fst fe) in
        '(b0, lg') <- verify_one L w c (pjoin rootdir fpath) fpath (Some (snd fe)) lg0 ;;
        Ok (rt && b0, lg')) fes (Ok (r0, l0)) = Ok (r1, l1') ->
      pre l0 l1' /\ dd_presented L w c path d fes l1').
    { intros d. induction fes as [|fe fes IHf]; intros r0 l0 r1 l1' H.
      - cbn in H. inversion H; subst. split; [apply pre_refl|intros n e []].
      - cbn [fold_left bind] in H. cbv zeta in H.
        destruct (verify_one L w c (pjoin rootdir (pjoin d (fst fe))) (pjoin d (fst fe)) (Some (snd fe)) l0) as [[b0 l0']|] eqn:E; cbn [bind] in H.
        2:{ exfalso. rewrite fold_err_stays' in H by reflexivity. discriminate. }
        destruct (verify_one_presented L w c _ _ _ _ _ _ E) as [P1 P2].
        destruct (IHf _ _ _ _ H) as [Q1 Q2]. split; [eapply pre_trans; eassumption|].
        intros n e [Eq|Hin]; [subst fe; cbn [fst snd] in P2|apply Q2; exact Hin].
        exists (pjoin rootdir (pjoin d n)). split; [right; reflexivity|eapply presented_at_mono; eassumption]. }
    assert (Outer : forall dds r0 l0 r1 l1',
      fold_left (fun (acc : res (bool * list call)) (dd : list N * list (list N * entry)) =>
        fold_left (fun (acc2 : res (bool * list call)) (fe : list N * entry) =>
          '(rt, lg0) <- acc2 ;;
          let fpath := pjoin (fst dd) (fst fe) in
          '(b0, lg') <- verify_one L w c (pjoin rootdir fpath) fpath (Some (snd fe)) lg0 ;;
          Ok (rt && b0, lg')) (snd dd) acc) dds (Ok (r0, l0)) = Ok (r1, l1') ->
      pre l0 l1' /\ forall dir dd, In (dir, dd) dds -> dd_presented L w c path dir dd l1').
    { induction dds as [|dd dds IHd]; intros r0 l0 r1 l1' H.
      - cbn in H. inversion H; subst. split; [apply pre_refl|intros dir dd []].
      - cbn [fold_left] in H.
        match type of H with fold_left _ dds ?x = _ => destruct x as [[r2 l2]|] eqn:E2 end.
        2:{ exfalso. rewrite fold_err_stays' in H; [discriminate|]. intros e9 x9. apply fold_err_stays'. reflexivity. }
        destruct (Inner _ _ _ _ _ _ E2) as [P1 P2]. destruct (IHd _ _ _ _ H) as [Q1 Q2].
        split; [eapply pre_trans; eassumption|].
        intros dir dd' [Eq|Hin]; [subst dd; cbn [fst snd] in P2; intros n e Hne; eapply presented_mono; [exact Q1|apply P2; exact Hne]|apply Q2; exact Hin]. }
    match goal with |- context [bind ?x _] => destruct x as [[r9 l9]|] eqn:E9 end; cbn [bind]; [|discriminate].
    intros H. inversion H; subst. cbn [fst snd].
    destruct (Outer _ _ _ _ _ E9) as [O1 O2].
    exists ed. split; [reflexivity|]. cbv zeta. fold c. split.
    - intros dir dd n e Hd Hn. destruct (proj2 W2 _ _ Hd) as [H1|H1].
      + apply (O2 _ _ H1). exact Hn.
      + eapply presented_mono; [exact O1|apply H1; exact Hn].
    - intros dp rel Hr. eapply files_presented_mono; [exact O1|apply W3; exact Hr].
  Qed.

  (* with the default handler (any mismatch raises) nothing is ever logged *)
  Lemma verify_one_throw w c dp rp eo log b log' : vc_pol c = PolThrow ->
    verify_one L w c dp rp eo log = Ok (b, log') -> log' = log.
  Proof.
    intros Hpol. unfold verify_one. destruct (Verify.verify_path L w dp eo (vc_dev c) (vc_lm c)) as [[ok diff]|]; cbn [bind]; [|discriminate].
    destruct ok; [intros H; inversion H; reflexivity|]. rewrite Hpol. cbn. discriminate.
  Qed.
  Lemma verify_items_throw w c dp rp : vc_pol c = PolThrow -> forall its r lg b lg',
    verify_items L w c dp rp its (Ok (r, lg)) = Ok (b, lg') -> lg' = lg.
  Proof.
    intros Hpol. induction its as [|it its IH]; intros r lg b lg' H; [cbn in H; inversion H; reflexivity|].
    cbn [verify_items fold_left bind] in H.
    destruct (verify_one L w c (pjoin dp (fst it)) (pjoin rp (fst it)) (snd it) lg) as [[b0 lg0]|] eqn:E; cbn [bind] in H.
    2:{ exfalso. fold (verify_items L w c dp rp its (Err e)) in H. rewrite verify_items_err in H. discriminate. }
    fold (verify_items L w c dp rp its (Ok (r && b0, lg0))) in H. apply IH in H. apply (verify_one_throw _ _ _ _ _ _ _ _ Hpol) in E. congruence.
  Qed.
  Lemma walk_throw w c fuel : vc_pol c = PolThrow -> forall dp rel ids ed ret log ids' ed' ret' log',
    walk_verify L fuel w c dp rel ids ed ret log = Ok (ids', ed', ret', log') -> log' = log.
  Proof.
    intros Hpol. induction fuel as [|f IH]; intros dp rel ids ed ret log ids' ed' ret' log' H; [discriminate|].
    cbn [walk_verify] in H.
    destruct (p_scandir w dp) as [ents|]; cbn [bind] in H; [|discriminate].
    destruct (p_stat w dp) as [dst|]; cbn [bind] in H; [|discriminate].
    destruct (match vc_dev c with Some d => negb (st_dev dst =? d) | None => false end); [discriminate|].
    destruct (existsb _ _); [discriminate|].
    destruct (fold_left _ (map fst (filter snd ents)) ([], _)) as [keep dirdict1].
    destruct (verify_dir L w c dp rel keep _ dirdict1 log) as [[b log1]|] eqn:Ev; cbn [bind] in H; [|discriminate].
    rewrite verify_dir_items in Ev. apply (verify_items_throw _ _ _ _ Hpol) in Ev. subst log1.
    revert H. generalize (ret && b). generalize (dict_del rel ed).
    match goal with |- forall e b0, fold_left _ _ (Ok (?i, _, _, _)) = _ -> _ => generalize i end.
    induction keep as [|d ds IHd]; intros i0 e0 r0 Hd; [cbn in Hd; inversion Hd; reflexivity|].
    cbn [fold_left bind] in Hd.
    destruct (walk_verify L f w c (pjoin dp d) (pjoin rel d) i0 e0 r0 log) as [[[[i2 e2] r2] l2]|] eqn:E.
    2:{ exfalso. rewrite fold_err_stays' in Hd by reflexivity. discriminate. }
    apply IH in E. subst l2. eapply IHd. exact Hd.
  Qed.

  Lemma default_handler_log_empty w l path lm l' b log :
    assert_directory_verifies L decompress pgp_verify w l path PolThrow lm = Ok (l', b, log) -> log = [].
  Proof.
    unfold assert_directory_verifies.
    destruct (get_file_entry_dict L decompress pgp_verify w l path None true) as [[l1 ed]|]; cbn [bind]; [|discriminate].
    set (c := mk_vctx (l_top l1) (l_dev l1) PolThrow lm).
    destruct (walk_verify L (nodes_fuel w) w c _ path [] ed true []) as [[[[ids' ed'] ret] lg]|] eqn:Ew; cbn [bind]; [|discriminate].
    apply (walk_throw w c _ eq_refl) in Ew. subst lg.
    match goal with |- context [bind ?x _] => destruct x as [[r9 l9]|] eqn:E9 end; cbn [bind]; [|discriminate].
    intros H. inversion H; subst. cbn [fst snd].
    assert (G : forall dds r0 r1 l1',
      fold_left (fun (acc : res (bool * list call)) (dd : list N * list (list N * entry)) =>
        fold_left (fun (acc2 : res (bool * list call)) (fe : list N * entry) =>
          '(rt, lg0) <- acc2 ;;
          let fpath := pjoin (fst dd) (fst fe) in
          '(b0, lg') <- verify_one L w c (pjoin rootdir fpath) fpath (Some (snd fe)) lg0 ;;
          Ok (rt && b0, lg')) (snd dd) acc) dds (Ok (r0, [])) = Ok (r1, l1') -> l1' = []).
    { induction dds as [|dd dds IHd]; intros r0 r1 l1' H0; [cbn in H0; inversion H0; reflexivity|].
      cbn [fold_left] in H0.
      match type of H0 with fold_left _ dds ?x = _ => destruct x as [[r2 l2]|] eqn:E2 end.
      2:{ exfalso. rewrite fold_err_stays' in H0; [discriminate|]. intros e9 x9. apply fold_err_stays'. reflexivity. }
      assert (l2 = []).
      { clear H0 IHd. revert r0 r2 l2 E2. generalize (snd dd). induction l0 as [|fe fes IHf]; intros r0 r2 l2 E2; [cbn in E2; inversion E2; reflexivity|].
        cbn [fold_left bind] in E2. cbv zeta in E2.
        destruct (verify_one L w c (pjoin rootdir (pjoin (fst dd) (fst fe))) (pjoin (fst dd) (fst fe)) (Some (snd fe)) []) as [[b0 l0']|] eqn:E; cbn [bind] in E2.
        2:{ exfalso. rewrite fold_err_stays' in E2 by reflexivity. discriminate. }
        apply (verify_one_throw _ c _ _ _ _ _ _ eq_refl) in E. subst l0'. eapply IHf. exact E2. }
      subst l2. eapply IHd. exact H0. }
    eapply G. exact E9.
  Qed.

  Theorem default_handler_logs_nothing w l path lm l' b log :
    assert_directory_verifies L decompress pgp_verify w l path PolThrow lm = Ok (l', b, log) -> log = [] /\ b = true.
  Proof.
    intros H. pose proof (default_handler_log_empty _ _ _ _ _ _ _ H) as ->. split; [reflexivity|].
    apply Proofs.KeepGoing.keep_going_result in H. exact H.
  Qed.

  (* the reading of the whole-tree statement for a verification that reported nothing: every entry of the merged
     dictionary matched the object at its path, and every file found is covered by a matching entry or passes as
     "nothing there" (C01_stray: only a path at which nothing exists) *)
  Theorem silent_verification_means_match w l path pol lm l' b :
    assert_directory_verifies L decompress pgp_verify w l path pol lm = Ok (l', b, []) ->
    exists ed, get_file_entry_dict L decompress pgp_verify w l path None true = Ok (l', ed) /\
      (forall dir dd n e, In (dir, dd) ed -> In (n, e) dd ->
         exists dp diff, names_object path dp (pjoin dir n) /\ Verify.verify_path L w dp (Some e) (l_dev l') lm = Ok (true, diff)) /\
      (forall dp rel ents f, reach w ed (walk_top path) path dp rel -> p_scandir w dp = Ok ents ->
         In f (map fst (filter (fun x => negb (snd x)) ents)) -> visible (l_top l') rel f = true ->
         exists eo diff, Verify.verify_path L w (pjoin dp f) eo (l_dev l') lm = Ok (true, diff) /\
           (eo = None \/ exists e dd, eo = Some e /\ In (rel, dd) ed /\ In (f, e) dd)).
  Proof.
    intros H. destruct (directory_verification_complete _ _ _ _ _ _ _ _ H) as [ed [E1 [E2 E3]]].
    exists ed. split; [exact E1|split].
    - intros dir dd n e Hd Hn. destruct (E2 _ _ _ _ Hd Hn) as [dp [N1 [ok [diff [N2 N3]]]]]. cbn [vc_dev vc_lm] in N2.
      exists dp, diff. split; [exact N1|]. destruct ok; [exact N2|destruct (N3 eq_refl)].
    - intros dp rel ents f Hr Hs Hf Hv. destruct (proj2 (E3 _ _ Hr) ents f Hs Hf Hv) as [eo [[ok [diff [N2 N3]]] B]].
      cbn [vc_dev vc_lm] in N2. exists eo, diff. split; [|exact B]. destruct ok; [exact N2|destruct (N3 eq_refl)].
  Qed.
End Whole.
