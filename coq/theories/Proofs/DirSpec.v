(* C01, one directory: WHAT is presented for verification.  verify_dir is the verification, one after the other, of a
   list of (name, entry-or-none) items that depends only on the directory listing and the entries of that directory:
   the sub-directories that have an entry, every file that is not hidden and is not the top-level Manifest - with the
   entry recorded for its name, or none - and finally every entry whose name was not met (as a missing file). *)
From Coq Require Import List NArith ZArith Bool Lia.
From Gemato Require Import Py.PyStr Py.PyPath Gen.Tables Model.Entry Model.Text Model.OpenPGP Model.Hash
  Model.FS Model.Verify Model.Loader.
From Gemato Require Import Proofs.Basics Proofs.SortTheory.
Import ListNotations.
Open Scope N_scope.

Definition item := (list N * option entry)%type.

(* the items, computed without looking at the filesystem *)
Fixpoint items_dirs (dirnames : list (list N)) (dd : list (list N * entry)) : list item * list (list N * entry) :=
  match dirnames with
  | [] => ([], dd)
  | d :: r => match assoc d dd with
              | Some de => let '(its, dd') := items_dirs r (dict_del d dd) in ((d, Some de) :: its, dd')
              | None => items_dirs r dd
              end
  end.
Definition visible (top relpath f : list N) : bool :=
  negb (py_startswith f [46]) && negb (ustr_eqb (pjoin relpath f) top).
Fixpoint items_files (top relpath : list N) (filenames : list (list N)) (dd : list (list N * entry))
  : list item * list (list N * entry) :=
  match filenames with
  | [] => ([], dd)
  | f :: r => if visible top relpath f
              then let '(its, dd') := items_files top relpath r (dict_del f dd) in ((f, assoc f dd) :: its, dd')
              else items_files top relpath r dd
  end.
Definition dir_items (top relpath : list N) (dirnames filenames : list (list N)) (dirdict : list (list N * entry)) : list item :=
  let '(i1, dd1) := items_dirs dirnames dirdict in
  let '(i2, dd2) := items_files top relpath filenames dd1 in
  i1 ++ i2 ++ map (fun fe => (fst fe, Some (snd fe))) dd2.

Section DirSpec.
  Variable L : hashlib.

  (* verifying a list of items, in order *)
  Definition verify_items (w : world) (c : vctx) (dirpath relpath : list N) (its : list item)
                          (start : res (bool * list call)) : res (bool * list call) :=
    fold_left (fun (acc : res (bool * list call)) (it : item) =>
      '(ret, lg) <- acc ;;
      '(b, lg') <- verify_one L w c (pjoin dirpath (fst it)) (pjoin relpath (fst it)) (snd it) lg ;;
      Ok (ret && b, lg')) its start.

  Lemma verify_items_err w c dp rp its e : verify_items w c dp rp its (Err e) = Err e.
  Proof. induction its as [|it r IH]; [reflexivity|]. cbn [verify_items fold_left bind]. exact IH. Qed.
  Lemma verify_items_app w c dp rp a b s : verify_items w c dp rp (a ++ b) s = verify_items w c dp rp b (verify_items w c dp rp a s).
  Proof. unfold verify_items. apply fold_left_app. Qed.

  Definition lift3 (r : res (bool * list call)) (dd : list (list N * entry)) : res (bool * list call * list (list N * entry)) :=
    match r with Ok (b, l) => Ok (b, l, dd) | Err e => Err e end.

  Lemma phase_dirs w c dp rp : forall dirnames ret lg dd,
    fold_left (fun (acc : res (bool * list call * list (list N * entry))) d =>
            '(ret, lg, dd) <- acc ;;
            match assoc d dd with
            | Some de => '(b, lg') <- verify_one L w c (pjoin dp d) (pjoin rp d) (Some de) lg ;;
                         Ok (ret && b, lg', dict_del d dd)
            | None => Ok (ret, lg, dd)
            end) dirnames (Ok (ret, lg, dd))
    = lift3 (verify_items w c dp rp (fst (items_dirs dirnames dd)) (Ok (ret, lg))) (snd (items_dirs dirnames dd)).
  Proof.
    induction dirnames as [|d r IH]; intros ret lg dd; [reflexivity|].
    cbn [fold_left bind items_dirs]. destruct (assoc d dd) as [de|] eqn:E.
    - destruct (items_dirs r (dict_del d dd)) as [its dd'] eqn:EI. cbn [fst snd verify_items fold_left bind].
      destruct (verify_one L w c (pjoin dp d) (pjoin rp d) (Some de) lg) as [[b lg']|e] eqn:EV; cbn [bind].
      + rewrite IH, EI. reflexivity.
      + fold (verify_items w c dp rp its (Err e)). rewrite verify_items_err. cbn [lift3].
        clear. induction r as [|x r IHr]; [reflexivity|]. cbn [fold_left bind]. exact IHr.
    - apply IH.
  Qed.

  Lemma phase_files w c dp rp : forall filenames ret lg dd,
    fold_left (fun (acc : res (bool * list call * list (list N * entry))) f =>
            '(ret, lg, dd) <- acc ;;
            if py_startswith f [46] then Ok (ret, lg, dd) else
            let fpath := pjoin rp f in
            if ustr_eqb fpath (vc_top c) then Ok (ret, lg, dd) else
            '(b, lg') <- verify_one L w c (pjoin dp f) fpath (assoc f dd) lg ;;
            Ok (ret && b, lg', dict_del f dd)) filenames (Ok (ret, lg, dd))
    = lift3 (verify_items w c dp rp (fst (items_files (vc_top c) rp filenames dd)) (Ok (ret, lg)))
            (snd (items_files (vc_top c) rp filenames dd)).
  Proof.
    induction filenames as [|f r IH]; intros ret lg dd; [reflexivity|].
    cbn [fold_left bind items_files]. unfold visible. destruct (py_startswith f [46]); cbn [negb andb]; [apply IH|].
    destruct (ustr_eqb (pjoin rp f) (vc_top c)); cbn [negb]; [apply IH|].
    destruct (items_files (vc_top c) rp r (dict_del f dd)) as [its dd'] eqn:EI. cbn [fst snd verify_items fold_left bind].
    destruct (verify_one L w c (pjoin dp f) (pjoin rp f) (assoc f dd) lg) as [[b lg']|e] eqn:EV; cbn [bind].
    - rewrite IH, EI. reflexivity.
    - fold (verify_items w c dp rp its (Err e)). rewrite verify_items_err. cbn [lift3].
      clear. induction r as [|x r IHr]; [reflexivity|]. cbn [fold_left bind]. exact IHr.
  Qed.

  Lemma phase_missing w c dp rp : forall (dd : list (list N * entry)) start,
    fold_left (fun (acc : res (bool * list call)) fe =>
      '(ret, lg) <- acc ;;
      '(b, lg') <- verify_one L w c (pjoin dp (fst fe)) (pjoin rp (fst fe)) (Some (snd fe)) lg ;;
      Ok (ret && b, lg')) dd start
    = verify_items w c dp rp (map (fun fe => (fst fe, Some (snd fe))) dd) start.
  Proof. induction dd as [|fe r IH]; intros start; [reflexivity|]. cbn [fold_left map verify_items fst snd]. apply IH. Qed.

  (* verify_dir is the verification of dir_items, in order *)
  Theorem verify_dir_items w c dp rp dirnames filenames dirdict log :
    verify_dir L w c dp rp dirnames filenames dirdict log
    = verify_items w c dp rp (dir_items (vc_top c) rp dirnames filenames dirdict) (Ok (true, log)).
  Proof.
    unfold verify_dir, dir_items. rewrite phase_dirs.
    destruct (items_dirs dirnames dirdict) as [i1 dd1]. cbn [fst snd].
    destruct (items_files (vc_top c) rp filenames dd1) as [i2 dd2] eqn:E2.
    rewrite !verify_items_app.
    destruct (verify_items w c dp rp i1 (Ok (true, log))) as [[r1 l1]|e]; cbn [lift3 bind].
    2:{ rewrite !verify_items_err. reflexivity. }
    rewrite phase_files, E2. cbn [fst snd].
    destruct (verify_items w c dp rp i2 (Ok (r1, l1))) as [[r2 l2]|e]; cbn [lift3 bind].
    2:{ rewrite verify_items_err. reflexivity. }
    apply phase_missing.
  Qed.
End DirSpec.

(* ---- which items: characterisation under the facts of a real directory (names are unique) ---- *)
Lemma assoc_del_other {A} x y (dd : list (ustr * A)) : x <> y -> assoc x (dict_del y dd) = assoc x dd.
Proof.
  intros Hn. induction dd as [|[k v] r IH]; [reflexivity|]. cbn [dict_del]. destruct (ustr_eqb y k) eqn:E.
  - apply ustr_eqb_eq in E. subst k. cbn [assoc]. destruct (ustr_eqb x y) eqn:E2; [apply ustr_eqb_eq in E2; contradiction|reflexivity].
  - cbn [assoc]. destruct (ustr_eqb x k); [reflexivity|exact IH].
Qed.
Lemma del_keys_incl {A} y (dd : list (ustr * A)) k : In k (map fst (dict_del y dd)) -> In k (map fst dd).
Proof.
  induction dd as [|[k' v] r IH]; [intros []|]. cbn [dict_del]. destruct (ustr_eqb y k'); cbn [map fst In]; [auto|].
  intros [->|H]; [left; reflexivity|right; apply IH; exact H].
Qed.
Lemma del_nodup {A} y (dd : list (ustr * A)) : NoDup (map fst dd) -> NoDup (map fst (dict_del y dd)).
Proof.
  induction dd as [|[k v] r IH]; intros H; [constructor|]. cbn [dict_del]. inversion H; subst.
  destruct (ustr_eqb y k); [assumption|]. cbn [map fst]. constructor; [|apply IH; assumption].
  intros Hin. apply del_keys_incl in Hin. contradiction.
Qed.
Lemma assoc_del_self {A} y (dd : list (ustr * A)) : NoDup (map fst dd) -> assoc y (dict_del y dd) = None.
Proof.
  induction dd as [|[k v] r IH]; intros H; [reflexivity|]. cbn [dict_del]. inversion H; subst. destruct (ustr_eqb y k) eqn:E.
  - apply ustr_eqb_eq in E. subst k. apply assoc_none. assumption.
  - cbn [assoc]. rewrite E. apply IH. assumption.
Qed.

Lemma items_dirs_spec : forall dirnames dd, NoDup dirnames -> NoDup (map fst dd) ->
  (forall name e, In (name, e) (fst (items_dirs dirnames dd)) <-> (In name dirnames /\ exists de, assoc name dd = Some de /\ e = Some de)) /\
  (forall k, In k dirnames -> assoc k (snd (items_dirs dirnames dd)) = None) /\
  (forall k, ~ In k dirnames -> assoc k (snd (items_dirs dirnames dd)) = assoc k dd) /\
  NoDup (map fst (snd (items_dirs dirnames dd))) /\ NoDup (map fst (fst (items_dirs dirnames dd))) /\
  (forall n, In n (map fst (fst (items_dirs dirnames dd))) -> In n dirnames).
Proof.
  induction dirnames as [|d r IH]; intros dd Hn Hd.
  - cbn [items_dirs fst snd map]. split; [|split; [|split; [|split; [|split]]]].
    + intros name e. split; [intros []|intros [[] _]].
    + intros k [].
    + intros k _. reflexivity.
    + exact Hd.
    + constructor.
    + intros n [].
  - inversion Hn as [|? ? Hdr Hr]; subst. cbn [items_dirs]. destruct (assoc d dd) as [de|] eqn:E.
    + specialize (IH (dict_del d dd) Hr (del_nodup d dd Hd)). destruct (items_dirs r (dict_del d dd)) as [its dd'] eqn:EI.
      cbn [fst snd] in *. destruct IH as [I1 [I2 [I3 [I4 [I5 I6]]]]].
      split; [|split; [|split; [|split; [|split]]]].
      * intros name e. split.
        -- intros [Eq|Hin].
           ++ inversion Eq; subst. split; [left; reflexivity|]. exists de. split; [exact E|reflexivity].
           ++ apply I1 in Hin. destruct Hin as [Hin [de' [A' ->]]]. split; [right; exact Hin|].
              exists de'. split; [|reflexivity]. rewrite assoc_del_other in A'; [exact A'|]. intros ->. contradiction.
        -- intros [[<-|Hin] [de' [A' ->]]].
           ++ left. rewrite E in A'. inversion A'; reflexivity.
           ++ right. apply I1. split; [exact Hin|]. exists de'. split; [|reflexivity]. rewrite assoc_del_other; [exact A'|]. intros ->. contradiction.
      * intros k [<-|Hk]; [|apply I2; exact Hk]. rewrite (I3 d Hdr). apply assoc_del_self. exact Hd.
      * intros k Hk. rewrite I3 by (intros H; apply Hk; right; exact H). apply assoc_del_other. intros ->. apply Hk. left. reflexivity.
      * exact I4.
      * cbn [map fst]. constructor; [|exact I5]. intros Hin. apply I6 in Hin. contradiction.
      * cbn [map fst]. intros n [<-|Hin]; [left; reflexivity|right; apply I6; exact Hin].
    + specialize (IH dd Hr Hd). destruct IH as [I1 [I2 [I3 [I4 [I5 I6]]]]].
      split; [|split; [|split; [|split; [|split]]]].
      * intros name e. split.
        -- intros Hin. apply I1 in Hin. destruct Hin as [Hin X]. split; [right; exact Hin|exact X].
        -- intros [[<-|Hin] [de' [A' ->]]]; [rewrite E in A'; discriminate|]. apply I1. split; [exact Hin|]. exists de'. split; [exact A'|reflexivity].
      * intros k [<-|Hk]; [rewrite (I3 d Hdr); exact E|apply I2; exact Hk].
      * intros k Hk. apply I3. intros H. apply Hk. right. exact H.
      * exact I4.
      * exact I5.
      * intros n Hin. right. apply I6. exact Hin.
Qed.

Lemma nodup_app_l {A} (a b : list A) : NoDup (a ++ b) -> NoDup a.
Proof. induction a as [|x a IH]; intros H; [constructor|]. cbn in H. inversion H; subst. constructor; [intros Hin; apply H2; apply in_or_app; left; exact Hin|apply IH; assumption]. Qed.
Lemma nodup_app_r {A} (a b : list A) : NoDup (a ++ b) -> NoDup b.
Proof. induction a as [|x a IH]; intros H; [exact H|]. cbn in H. inversion H; subst. apply IH. assumption. Qed.
Lemma nodup_app2 {A} (a b : list A) : NoDup a -> NoDup b -> (forall x, In x a -> In x b -> False) -> NoDup (a ++ b).
Proof.
  induction a as [|x a IH]; intros Ha Hb Hd; [exact Hb|]. cbn. inversion Ha; subst. constructor.
  - intros Hin. apply in_app_or in Hin. destruct Hin as [Hin|Hin]; [contradiction|]. exact (Hd x (or_introl eq_refl) Hin).
  - apply IH; [assumption|assumption|]. intros y Y1 Y2. exact (Hd y (or_intror Y1) Y2).
Qed.
Lemma NoDup_app3 {A} (a b c : list A) : NoDup a -> NoDup b -> NoDup c ->
  (forall x, In x a -> In x b -> False) -> (forall x, In x a -> In x c -> False) -> (forall x, In x b -> In x c -> False) ->
  NoDup (a ++ b ++ c).
Proof.
  intros Ha Hb Hc Hab Hac Hbc. apply nodup_app2; [exact Ha|apply nodup_app2; assumption|].
  intros x Y1 Y2. apply in_app_or in Y2. destruct Y2 as [Y2|Y2]; [exact (Hab x Y1 Y2)|exact (Hac x Y1 Y2)].
Qed.
Lemma assoc_nodup_in' {A} (l : list (ustr * A)) : NoDup (map fst l) -> forall k v, In (k, v) l -> assoc k l = Some v.
Proof.
  induction l as [|[k' v'] r IH]; intros H k v Hin; [destruct Hin|]. inversion H; subst. cbn [assoc].
  destruct Hin as [E|Hin].
  - inversion E; subst. rewrite (proj2 (ustr_eqb_eq k k) eq_refl). reflexivity.
  - destruct (ustr_eqb k k') eqn:E.
    + apply ustr_eqb_eq in E. subst k'. exfalso. apply H2. apply in_map_iff. exists (k, v). split; [reflexivity|exact Hin].
    + apply IH; assumption.
Qed.

Lemma items_files_spec top rp : forall filenames dd, NoDup filenames -> NoDup (map fst dd) ->
  (forall name e, In (name, e) (fst (items_files top rp filenames dd)) <->
                  (In name filenames /\ visible top rp name = true /\ e = assoc name dd)) /\
  (forall k, In k filenames -> visible top rp k = true -> assoc k (snd (items_files top rp filenames dd)) = None) /\
  (forall k, ~ (In k filenames /\ visible top rp k = true) -> assoc k (snd (items_files top rp filenames dd)) = assoc k dd) /\
  NoDup (map fst (snd (items_files top rp filenames dd))) /\ NoDup (map fst (fst (items_files top rp filenames dd))) /\
  (forall n, In n (map fst (fst (items_files top rp filenames dd))) -> In n filenames /\ visible top rp n = true).
Proof.
  induction filenames as [|f r IH]; intros dd Hn Hd.
  - cbn [items_files fst snd map]. split; [|split; [|split; [|split; [|split]]]].
    + intros name e. split; [intros []|intros [[] _]].
    + intros k [].
    + intros k _. reflexivity.
    + exact Hd.
    + constructor.
    + intros n [].
  - inversion Hn as [|? ? Hfr Hr]; subst. cbn [items_files]. destruct (visible top rp f) eqn:V.
    + specialize (IH (dict_del f dd) Hr (del_nodup f dd Hd)). destruct (items_files top rp r (dict_del f dd)) as [its dd'] eqn:EI.
      cbn [fst snd] in *. destruct IH as [I1 [I2 [I3 [I4 [I5 I6]]]]].
      split; [|split; [|split; [|split; [|split]]]].
      * intros name e. split.
        -- intros [Eq|Hin].
           ++ inversion Eq; subst. split; [left; reflexivity|]. split; [exact V|reflexivity].
           ++ apply I1 in Hin. destruct Hin as [Hin [Vn ->]]. split; [right; exact Hin|]. split; [exact Vn|].
              apply assoc_del_other. intros ->. contradiction.
        -- intros [[<-|Hin] [Vn ->]]; [left; reflexivity|].
           right. apply I1. split; [exact Hin|]. split; [exact Vn|]. symmetry. apply assoc_del_other. intros ->. contradiction.
      * intros k [<-|Hk] Vk; [|apply I2; assumption].
        rewrite I3 by (intros [H _]; contradiction). apply assoc_del_self. exact Hd.
      * intros k Hk. rewrite I3 by (intros [H Vk]; apply Hk; split; [right; exact H|exact Vk]).
        apply assoc_del_other. intros ->. apply Hk. split; [left; reflexivity|exact V].
      * exact I4.
      * cbn [map fst]. constructor; [|exact I5]. intros Hin. apply I6 in Hin. destruct Hin as [Hin _]. contradiction.
      * cbn [map fst]. intros n [<-|Hin]; [split; [left; reflexivity|exact V]|]. destruct (I6 n Hin) as [H1 H2]. split; [right; exact H1|exact H2].
    + specialize (IH dd Hr Hd). destruct IH as [I1 [I2 [I3 [I4 [I5 I6]]]]].
      split; [|split; [|split; [|split; [|split]]]].
      * intros name e. split.
        -- intros Hin. apply I1 in Hin. destruct Hin as [Hin X]. split; [right; exact Hin|exact X].
        -- intros [[<-|Hin] [Vn ->]]; [rewrite V in Vn; discriminate|]. apply I1. split; [exact Hin|]. split; [exact Vn|reflexivity].
      * intros k [<-|Hk] Vk; [rewrite V in Vk; discriminate|apply I2; assumption].
      * intros k Hk. apply I3. intros [H Vk]. apply Hk. split; [right; exact H|exact Vk].
      * exact I4.
      * exact I5.
      * intros n Hin. destruct (I6 n Hin) as [H1 H2]. split; [right; exact H1|exact H2].
Qed.

(* the items of a directory: every name at most once; a listed sub-directory iff it has an entry; a listed file iff
   it is visible (not hidden, not the top-level Manifest), with the entry recorded under its name or none; and every
   other entry of the directory, as a file that should exist *)
Theorem dir_items_spec top rp dirnames filenames dirdict :
  NoDup (dirnames ++ filenames) -> NoDup (map fst dirdict) ->
  NoDup (map fst (dir_items top rp dirnames filenames dirdict)) /\
  forall name e, In (name, e) (dir_items top rp dirnames filenames dirdict) <->
    (In name dirnames /\ exists de, assoc name dirdict = Some de /\ e = Some de) \/
    (In name filenames /\ visible top rp name = true /\ e = assoc name dirdict) \/
    (~ In name dirnames /\ ~ (In name filenames /\ visible top rp name = true) /\
     exists de, assoc name dirdict = Some de /\ e = Some de).
Proof.
  intros Hn Hd. assert (Hnd : NoDup dirnames) by (eapply nodup_app_l; exact Hn).
  assert (Hnf : NoDup filenames) by (eapply nodup_app_r; exact Hn).
  assert (Hdisj : forall x, In x dirnames -> In x filenames -> False).
  { intros x H1 H2. clear -Hn H1 H2. induction dirnames as [|d r IH]; [destruct H1|]. cbn in Hn. inversion Hn; subst.
    destruct H1 as [->|H1]; [apply H3; apply in_or_app; right; exact H2|apply IH; assumption]. }
  unfold dir_items.
  destruct (items_dirs_spec dirnames dirdict Hnd Hd) as [D1 [D2 [D3 [D4 [D5 D6]]]]].
  destruct (items_dirs dirnames dirdict) as [i1 dd1]. cbn [fst snd] in *.
  destruct (items_files_spec top rp filenames dd1 Hnf D4) as [F1 [F2 [F3 [F4 [F5 F6]]]]].
  destruct (items_files top rp filenames dd1) as [i2 dd2]. cbn [fst snd] in *.
  (* the entry of a listed file is not touched by the directory phase *)
  assert (Ffile : forall f, In f filenames -> assoc f dd1 = assoc f dirdict) by (intros f Hf; apply D3; intros Hd'; exact (Hdisj f Hd' Hf)).
  assert (M : forall k e, In (k, e) dd2 <-> assoc k dd2 = Some e).
  { intros k e. split; [apply (assoc_nodup_in' dd2 F4)|apply assoc_in]. }
  split.
  - rewrite !map_app, map_map. cbn [fst]. apply NoDup_app3; [exact D5|exact F5|exact F4| | |].
    + intros x H1 H2. apply D6 in H1. apply F6 in H2. destruct H2 as [H2 _]. exact (Hdisj x H1 H2).
    + intros x H1 H2. apply D6 in H1. apply in_map_iff in H2. destruct H2 as [[k v] [<- Hin]]. cbn [fst] in *.
      apply M in Hin. destruct (in_dec (list_eq_dec N.eq_dec) k filenames) as [Hf|Hf].
      * exact (Hdisj k H1 Hf).
      * rewrite F3 in Hin by (intros [H _]; contradiction). rewrite (D2 k H1) in Hin. discriminate.
    + intros x H1 H2. apply F6 in H1. destruct H1 as [H1 V]. apply in_map_iff in H2. destruct H2 as [[k v] [<- Hin]]. cbn [fst] in *.
      apply M in Hin. rewrite (F2 k H1 V) in Hin. discriminate.
  - intros name e. rewrite !in_app_iff. split.
    + intros [H|[H|H]].
      * left. apply D1. exact H.
      * right. left. apply F1 in H. destruct H as [H1 [V ->]]. split; [exact H1|]. split; [exact V|apply Ffile; exact H1].
      * right. right. apply in_map_iff in H. destruct H as [[k v] [Eq Hin]]. inversion Eq; subst. apply M in Hin.
        assert (Nv : ~ (In name filenames /\ visible top rp name = true)) by (intros [H1 V]; rewrite (F2 name H1 V) in Hin; discriminate).
        rewrite (F3 name Nv) in Hin.
        assert (Ndn : ~ In name dirnames) by (intros H1; rewrite (D2 name H1) in Hin; discriminate).
        rewrite (D3 name Ndn) in Hin. split; [exact Ndn|]. split; [exact Nv|]. exists v. split; [exact Hin|reflexivity].
    + intros [H|[[H1 [V ->]]|[Ndn [Nv [de [A ->]]]]]].
      * left. apply D1. exact H.
      * right. left. apply F1. split; [exact H1|]. split; [exact V|symmetry; apply Ffile; exact H1].
      * right. right. apply in_map_iff. exists (name, de). split; [reflexivity|]. apply M. rewrite (F3 name Nv), (D3 name Ndn). exact A.
Qed.

(* C07, one directory: the handler is invoked exactly for the items that do not verify, once each, in order *)
Section DirLog.
  Variable L : hashlib.

  Definition failing (w : world) (c : vctx) (dp rp : list N) (it : item) : list call :=
    match verify_path L w (pjoin dp (fst it)) (snd it) (vc_dev c) (vc_lm c) with
    | Ok (false, diff) => [(pjoin rp (fst it), diff)]
    | _ => []
    end.

  Lemma verify_one_log w c dp rp (it : item) lg b lg' : vc_pol c <> PolThrow ->
    verify_one L w c (pjoin dp (fst it)) (pjoin rp (fst it)) (snd it) lg = Ok (b, lg') ->
    lg' = lg ++ failing w c dp rp it.
  Proof.
    intros Hp. unfold verify_one, failing.
    destruct (verify_path L w (pjoin dp (fst it)) (snd it) (vc_dev c) (vc_lm c)) as [[ok diff]|e]; cbn [bind]; [|discriminate].
    destruct ok; [intros H; inversion H; subst; rewrite app_nil_r; reflexivity|].
    destruct (apply_policy (vc_pol c) (pjoin rp (fst it))) as [|bb|] eqn:E.
    - intros H. inversion H; subst. reflexivity.
    - intros H. inversion H; subst. reflexivity.
    - exfalso. destruct (vc_pol c); try discriminate. apply Hp. reflexivity.
  Qed.

  Theorem verify_items_log w c dp rp : vc_pol c <> PolThrow ->
    forall its ret log b log', verify_items L w c dp rp its (Ok (ret, log)) = Ok (b, log') ->
    log' = log ++ flat_map (failing w c dp rp) its.
  Proof.
    intros Hp. induction its as [|it r IH]; intros ret log b log' H.
    - cbn in H. inversion H; subst. cbn. rewrite app_nil_r. reflexivity.
    - cbn [verify_items fold_left bind] in H. cbn [flat_map].
      destruct (verify_one L w c (pjoin dp (fst it)) (pjoin rp (fst it)) (snd it) log) as [[b1 lg1]|e] eqn:E1; cbn [bind] in H.
      + fold (verify_items L w c dp rp r (Ok (ret && b1, lg1))) in H. apply IH in H.
        rewrite (verify_one_log _ _ _ _ _ _ _ _ Hp E1) in H. rewrite H, <- app_assoc. reflexivity.
      + fold (verify_items L w c dp rp r (Err e)) in H. rewrite verify_items_err in H. discriminate.
  Qed.
End DirLog.
