(* load (dump es) = es at the level of whole Manifest texts. *)
From Coq Require Import List NArith ZArith Bool Lia ZifyBool ZifyN Arith Permutation.
From Gemato Require Import Py.PyStr Py.PyTime Gen.PyFacts Gen.Tables Gen.Util Model.Entry Model.Text.
From Gemato Require Import Proofs.Basics Proofs.Codec Proofs.IntStr Proofs.Lines Proofs.EntryRT.
Import ListNotations.
Open Scope N_scope.

(* ---- strftime writes a whitespace-free word --------------------------------------- *)
Lemma pad_digits_dig w : forall n acc, Forall isdig acc -> Forall isdig (pad_digits w n acc).
Proof.
  induction w as [|w IH]; intros n acc H; [exact H|].
  cbn [pad_digits]. apply IH. constructor; [|exact H]. unfold isdig. pose proof (N.mod_lt n 10). lia.
Qed.
Lemma zpad_dig w n : Forall isdig (zpad w n).
Proof.
  unfold zpad. destruct (Nat.leb w (length (str_of_N n))).
  - destruct (str_of_N_spec n) as [ds [-> [_ [H _]]]]. exact H.
  - apply pad_digits_dig. constructor.
Qed.
Definition ts_char (c : cp) : Prop := isdig c \/ c = 45 \/ c = 84 \/ c = 58 \/ c = 90.
Lemma strftime_chars d : Forall ts_char (strftime d).
Proof.
  unfold strftime.
  repeat (apply Forall_app; split);
    try (eapply Forall_impl; [|apply zpad_dig]; intros c Hc; left; exact Hc);
    constructor; try constructor; unfold ts_char; tauto.
Qed.
Lemma pad_digits_len w : forall n acc, length (pad_digits w n acc) = (w + length acc)%nat.
Proof. induction w as [|w IH]; intros n acc; [reflexivity|]. cbn [pad_digits]. rewrite IH. cbn [length]. lia. Qed.
Lemma strftime_word d : wf_word (strftime d).
Proof.
  split.
  - unfold strftime. intros H. apply (f_equal (@length _)) in H. rewrite !app_length in H. cbn in H. lia.
  - intros c Hc. pose proof (strftime_chars d) as H. rewrite Forall_forall in H. specialize (H c Hc).
    destruct H as [H|[->|[->|[->| ->]]]]; [apply isdig_not_space; exact H|reflexivity..].
Qed.

(* ---- one written line is read back as its entry --------------------------------------- *)
Lemma join_words_nlfree l : Forall wf_word l -> nlfree (join [32] l).
Proof.
  induction l as [|w l IH]; intros H c Hc; [destruct Hc|].
  inversion H as [|? ? [_ Hw] Hl]; subst.
  destruct l as [|w2 l].
  - cbn in Hc. apply (spacefree_nlfree w Hw). exact Hc.
  - change (join [32] (w :: w2 :: l)) with (w ++ [32] ++ join [32] (w2 :: l)) in Hc.
    apply in_app_or in Hc. destruct Hc as [Hc|Hc]; [apply (spacefree_nlfree w Hw); exact Hc|].
    apply in_app_or in Hc. destruct Hc as [[<-|[]]|Hc]; [split; discriminate|].
    apply IH; assumption.
Qed.

Lemma line_hd_tag t r : exists c s, join [32] (tag_str t :: r) ++ [nl] = c :: s /\ c <> 45.
Proof.
  assert (H : exists c s, tag_str t = c :: s /\ c <> 45).
  { destruct t; vm_compute; eexists; eexists; (split; [reflexivity|discriminate]). }
  destruct H as [c [s [E Hc]]]. destruct r as [|w r].
  - cbn [join]. rewrite E. exists c. eexists. split; [reflexivity|exact Hc].
  - change (join [32] (tag_str t :: w :: r)) with (tag_str t ++ [32] ++ join [32] (w :: r)).
    rewrite E. exists c. eexists. split; [reflexivity|exact Hc].
Qed.

Section WithTime.
  Hypothesis strptime_strftime : forall d, dt_valid d = true -> strptime nd_starts (strftime d) = Some d.

  Lemma load_step_line verify e es pgp l : wf_entry e -> to_list e = Ok l ->
    load_step verify (mk_ls SData es pgp) (join [32] l ++ [nl]) = Ok (mk_ls SData (norm e :: es) pgp).
  Proof.
    intros Hwf Hl.
    destruct (entry_roundtrip strptime_strftime e Hwf) as [l' [E1 [E2 [Hw [r Hr]]]]].
    { destruct e; [apply strftime_word|exact I..]. }
    assert (El : l' = l) by congruence. rewrite El in *. clear El E1.
    destruct (line_hd_tag (e_tag e) r) as [c [s [Ec Hc]]]. rewrite <- Hr in Ec.
    unfold load_step. cbn [ls_state ls_entries ls_pgp].
    assert (ustr_eqb (join [32] l ++ [nl]) l_begin_signed = false) as ->.
    { rewrite Ec. unfold l_begin_signed, dashes5. cbn [app ustr_eqb].
      assert (c =? 45 = false) as -> by lia. reflexivity. }
    unfold step_tail.
    assert (is_armor_line (join [32] l ++ [nl]) = false) as ->.
    { unfold is_armor_line. rewrite Ec. unfold dashes5. cbn [py_startswith].
      assert (c =? 45 = false) as -> by lia. reflexivity. }
    unfold nl. rewrite split_line by (try exact Hw; rewrite Hr; discriminate).
    rewrite Hr. rewrite lookup_tag_str. rewrite <- Hr, E2. reflexivity.
  Qed.

  Lemma dump_entries_lines es : Forall wf_entry es ->
    exists ls, Forall2 (fun e l => to_list e = Ok l) es ls /\
               dump_entries es = Ok (concat (map (fun l => join [32] l ++ [nl]) ls)).
  Proof.
    induction es as [|e es IH]; intros H.
    - exists []. split; [constructor|reflexivity].
    - inversion H as [|? ? He Hes]; subst. destruct (IH Hes) as [ls [F E]].
      destruct (entry_roundtrip strptime_strftime e He) as [l [E1 _]].
      { destruct e; [apply strftime_word|exact I..]. }
      exists (l :: ls). split; [constructor; assumption|].
      cbn [dump_entries]. rewrite E1, E. cbn [bind map concat]. rewrite <- app_assoc. reflexivity.
  Qed.

  Lemma load_lines_dumped verify es : forall ls acc pgp, Forall wf_entry es ->
    Forall2 (fun e l => to_list e = Ok l) es ls ->
    load_lines verify (mk_ls SData acc pgp) (map (fun l => join [32] l ++ [nl]) ls)
    = Ok (mk_ls SData (rev (map norm es) ++ acc) pgp).
  Proof.
    induction es as [|e es IH]; intros ls acc pgp Hwf F.
    - inversion F; subst. reflexivity.
    - inversion F as [|? l ? ls' Hl F']; subst. inversion Hwf as [|? ? He Hes]; subst.
      cbn [map load_lines]. rewrite (load_step_line verify e acc pgp l) by assumption. cbn [bind].
      rewrite IH by assumption. cbn [map rev]. rewrite <- app_assoc. reflexivity.
  Qed.

  (* C08, file level: whatever the writer produces for well-formed entries is read back
     as the same entries, and nothing else *)
  Theorem load_dump es verify : Forall wf_entry es ->
    exists t, dump es false = Ok t /\ load t verify = Ok (map norm es, None).
  Proof.
    intros H. destruct (dump_entries_lines es H) as [ls [F E]].
    exists (concat (map (fun l => join [32] l ++ [nl]) ls)). split; [exact E|].
    unfold load.
    assert (Hnl : Forall nlfree (map (fun l => join [32] l) ls)).
    { clear E. induction F as [|e l es ls Hl F IH]; [constructor|].
      inversion H as [|? ? He Hes]; subst. constructor; [|apply IH; exact Hes].
      destruct (entry_roundtrip strptime_strftime e He) as [l' [E1 [_ [Hw _]]]].
      { destruct e; [apply strftime_word|exact I..]. }
      rewrite Hl in E1. inversion E1; subst. apply join_words_nlfree. exact Hw. }
    replace (map (fun l => join [32] l ++ [nl]) ls)
      with (map (fun l => l ++ [10]) (map (fun l => join [32] l) ls)) by (rewrite map_map; reflexivity).
    rewrite py_lines_concat by exact Hnl. rewrite map_map.
    change (fun x : list ustr => join [32] x ++ [10]) with (fun l : list ustr => join [32] l ++ [nl]).
    rewrite (load_lines_dumped verify es ls [] []) by assumption. cbn [bind ls_state ls_entries].
    rewrite app_nil_r, rev_involutive. reflexivity.
  Qed.

  (* one line per entry, fields separated by single spaces: the text is exactly the
     concatenation of ' '.join(fields) + '\n' with whitespace-free fields *)
  Theorem dump_shape es : Forall wf_entry es ->
    exists ls, length ls = length es /\ Forall (Forall wf_word) ls /\
               dump es false = Ok (concat (map (fun l => join [32] l ++ [nl]) ls)).
  Proof.
    intros H. destruct (dump_entries_lines es H) as [ls [F E]]. exists ls.
    split; [clear E H; induction F; [reflexivity|cbn [length]; congruence]|]. split; [|exact E].
    clear E. induction F as [|e l es ls Hl F IH]; [constructor|].
    inversion H as [|? ? He Hes]; subst. constructor; [|apply IH; exact Hes].
    destruct (entry_roundtrip strptime_strftime e He) as [l' [E1 [_ [Hw _]]]].
    { destruct e; [apply strftime_word|exact I..]. }
    rewrite Hl in E1. inversion E1; subst. exact Hw.
  Qed.
End WithTime.
