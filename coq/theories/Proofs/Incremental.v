(* C11 core: what --incremental changes for one entry.  With a last-update time, update_entry_for_path either
   performs exactly the computation of the full update, or it skips the file - and it skips only a regular file
   that is not newer than that time, is not empty and has the size the entry records.  Hence: a file modified
   after the TIMESTAMP, or whose size changed, is re-hashed; and skipping an entry that is up to date gives
   the result of the full update. *)
From Coq Require Import List NArith ZArith Bool Lia ZifyBool ZifyN.
From Gemato Require Import Py.PyStr Py.PyPath Py.PyTime Gen.Tables Model.Entry Model.Hash Model.FS Model.Verify.
From Gemato Require Import Proofs.Basics Proofs.Refresh.
Import ListNotations.
Open Scope N_scope.

Section Inc.
  Variable L : hashlib.

  Theorem inc_cases w path t p a esize ecks hashes dev lm :
    update_entry_for_path L w path (EFile t p a esize ecks) hashes dev (Some lm)
      = update_entry_for_path L w path (EFile t p a esize ecks) hashes dev None
    \/ (exists o st, gfm_open w path = Ok o /\ gfm_stat w path o = Ok st /\ st_type st = FTReg /\
          (st_mtime st <= lm)%Z /\ st_size st <> 0 /\ Z.of_N (st_size st) = esize /\
          update_entry_for_path L w path (EFile t p a esize ecks) hashes dev (Some lm) = Ok (false, esize, ecks)).
  Proof.
    unfold update_entry_for_path.
    destruct (gfm_open w path) as [o|] eqn:Eo; cbn [bind]; [|left; reflexivity].
    destruct o as [|i|]; [left; reflexivity| |].
    - destruct (gfm_stat w path (OOpened i)) as [st|] eqn:Es; cbn [bind]; [|left; reflexivity].
      destruct (match dev with Some d => negb (st_dev st =? d) | None => false end); [left; reflexivity|].
      destruct (st_type st) eqn:Et; try (left; reflexivity).
      destruct ((st_mtime st <=? lm)%Z && negb (st_size st =? 0) && (Z.of_N (st_size st) =? esize)%Z) eqn:C.
      + right. exists (OOpened i), st. apply andb_true_iff in C. destruct C as [C C3]. apply andb_true_iff in C. destruct C as [C1 C2].
        repeat split; try assumption; try reflexivity; lia.
      + left. reflexivity.
    - destruct (gfm_stat w path ONotOpened) as [st|] eqn:Es; cbn [bind]; [|left; reflexivity].
      destruct (match dev with Some d => negb (st_dev st =? d) | None => false end); [left; reflexivity|].
      destruct (st_type st) eqn:Et; try (left; reflexivity).
      destruct ((st_mtime st <=? lm)%Z && negb (st_size st =? 0) && (Z.of_N (st_size st) =? esize)%Z) eqn:C.
      + right. exists ONotOpened, st. apply andb_true_iff in C. destruct C as [C C3]. apply andb_true_iff in C. destruct C as [C1 C2].
        repeat split; try assumption; try reflexivity; lia.
      + left. reflexivity.
  Qed.

  (* a file modified after the previous TIMESTAMP is treated exactly as by the full update *)
  Theorem inc_newer_is_full w path t p a esize ecks hashes dev lm :
    (forall o st, gfm_open w path = Ok o -> gfm_stat w path o = Ok st -> (lm < st_mtime st)%Z) ->
    update_entry_for_path L w path (EFile t p a esize ecks) hashes dev (Some lm)
    = update_entry_for_path L w path (EFile t p a esize ecks) hashes dev None.
  Proof.
    intros H. destruct (inc_cases w path t p a esize ecks hashes dev lm) as [E|[o [st [Ho [Hs [_ [Hm _]]]]]]]; [exact E|].
    specialize (H o st Ho Hs). lia.
  Qed.

  (* ... and so is a file whose size differs from the recorded one, whatever its mtime *)
  Theorem inc_size_changed_is_full w path t p a esize ecks hashes dev lm :
    (forall o st, gfm_open w path = Ok o -> gfm_stat w path o = Ok st -> Z.of_N (st_size st) <> esize) ->
    update_entry_for_path L w path (EFile t p a esize ecks) hashes dev (Some lm)
    = update_entry_for_path L w path (EFile t p a esize ecks) hashes dev None.
  Proof.
    intros H. destruct (inc_cases w path t p a esize ecks hashes dev lm) as [E|[o [st [Ho [Hs [_ [_ [_ [Hz _]]]]]]]]]; [exact E|].
    specialize (H o st Ho Hs). contradiction.
  Qed.

  (* skipping an entry the full update would leave unchanged gives the full update's result *)
  Theorem inc_unchanged_is_full w path t p a esize ecks hashes dev lm size' cks' :
    update_entry_for_path L w path (EFile t p a esize ecks) (Some hashes) dev None = Ok (false, size', cks') ->
    update_entry_for_path L w path (EFile t p a esize ecks) (Some hashes) dev (Some lm) = Ok (false, size', cks').
  Proof.
    intros F. destruct (inc_cases w path t p a esize ecks (Some hashes) dev lm) as [E|[o [st [_ [_ [_ [_ [_ [_ E]]]]]]]]].
    - rewrite E. exact F.
    - rewrite E. apply refresh_true in F.
      destruct F as (i & st' & got & size & _ & _ & _ & _ & _ & _ & _ & Hsz & [[C _]|(_ & Hc & He & _)]).
      + discriminate C.
      + subst. reflexivity.
  Qed.
End Inc.

(* the TIMESTAMP is read as UTC: its epoch value is a function of the six fields alone (no local-time input) and
   strictly monotone in the ordering of valid timestamps used everywhere else *)
Theorem utc_epoch_second_steps y mo d h mi s :
  utc_epoch (mkdt y mo d h mi (s + 1)) = (utc_epoch (mkdt y mo d h mi s) + 1)%Z.
Proof. unfold utc_epoch. cbn [dt_y dt_mo dt_d dt_h dt_mi dt_s]. lia. Qed.
Theorem utc_epoch_known : utc_epoch (mkdt 1970 1 1 0 0 0) = 0%Z /\ utc_epoch (mkdt 2017 10 22 18 6 41) = 1508695601%Z.
Proof. split; vm_compute; reflexivity. Qed.
