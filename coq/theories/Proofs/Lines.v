(* str.split(), ' '.join and universal-newline line iteration: the writer's lines are read
   back field by field. *)
From Coq Require Import List NArith ZArith Bool Lia ZifyBool ZifyN Arith.
From Gemato Require Import Py.PyStr.
Import ListNotations.
Open Scope N_scope.

Definition spacefree (w : ustr) : Prop := forall c, In c w -> is_space c = false.
Definition nlfree (w : ustr) : Prop := forall c, In c w -> c <> 10 /\ c <> 13.

Lemma spacefree_nlfree w : spacefree w -> nlfree w.
Proof.
  intros H c Hc. specialize (H c Hc). unfold is_space in H. split; intros ->; vm_compute in H; discriminate.
Qed.

Lemma split_ws_aux_word w : spacefree w -> forall s cur,
  split_ws_aux (w ++ s) cur = split_ws_aux s (rev w ++ cur).
Proof.
  induction w as [|c w IH]; intros Hw s cur; [reflexivity|].
  cbn [app split_ws_aux]. rewrite (Hw c) by (left; reflexivity).
  rewrite IH by (intros x Hx; apply Hw; right; exact Hx).
  cbn [rev]. rewrite <- app_assoc. reflexivity.
Qed.

Lemma split_ws_aux_join fields : Forall (fun w => w <> [] /\ spacefree w) fields -> fields <> [] ->
  split_ws_aux (join [32] fields) [] = fields.
Proof.
  induction fields as [|w fs IH]; intros Hf Hne; [congruence|].
  inversion Hf as [|? ? [Hw1 Hw2] Hfs]; subst.
  destruct fs as [|w2 fs].
  - cbn [join]. rewrite <- (app_nil_r w) at 1. rewrite split_ws_aux_word by exact Hw2.
    cbn [split_ws_aux]. rewrite app_nil_r.
    destruct (rev w) eqn:E; [apply (f_equal (@rev _)) in E; rewrite rev_involutive in E; simpl in E; congruence|].
    rewrite <- E, rev_involutive. reflexivity.
  - change (join [32] (w :: w2 :: fs)) with (w ++ [32] ++ join [32] (w2 :: fs)).
    rewrite split_ws_aux_word by exact Hw2. cbn [app split_ws_aux].
    assert (is_space 32 = true) as -> by reflexivity. rewrite app_nil_r.
    destruct (rev w) eqn:E; [apply (f_equal (@rev _)) in E; rewrite rev_involutive in E; simpl in E; congruence|].
    rewrite <- E, rev_involutive. f_equal. apply IH; [exact Hfs|discriminate].
Qed.

Lemma join_first_last fields : Forall (fun w => w <> [] /\ spacefree w) fields -> fields <> [] ->
  exists c s, join [32] fields = c :: s /\ is_space c = false /\
              exists d t, rev (join [32] fields) = d :: t /\ is_space d = false.
Proof.
  intros Hf Hne. destruct fields as [|w fs]; [congruence|].
  inversion Hf as [|? ? [Hw1 Hw2] Hfs]; subst.
  assert (Hj : exists r, join [32] (w :: fs) = w ++ r).
  { destruct fs; [exists []; cbn; rewrite app_nil_r; reflexivity|eexists; reflexivity]. }
  destruct Hj as [r Hj]. destruct w as [|c w']; [congruence|].
  exists c, (w' ++ r). split; [rewrite Hj; reflexivity|]. split; [apply Hw2; left; reflexivity|].
  (* last character: last of the last field *)
  clear Hj r Hne. revert c w' Hw1 Hw2 Hfs Hf. induction fs as [|w2 fs IH]; intros c w' Hw1 Hw2 Hfs Hf.
  - cbn [join]. destruct (rev (c :: w')) as [|d t] eqn:E.
    + apply (f_equal (@rev _)) in E. rewrite rev_involutive in E. discriminate.
    + exists d, t. split; [reflexivity|]. apply Hw2. apply in_rev. rewrite E. left; reflexivity.
  - change (join [32] ((c :: w') :: w2 :: fs)) with ((c :: w') ++ [32] ++ join [32] (w2 :: fs)).
    inversion Hfs as [|? ? [Hv1 Hv2] Hfs']; subst.
    destruct w2 as [|c2 w2']; [congruence|].
    destruct (IH c2 w2' Hv1 Hv2 Hfs' Hfs) as [d [t [E Hd]]].
    rewrite rev_app_distr. cbn [app rev]. rewrite E. cbn [app]. exists d. eexists. split; [reflexivity|exact Hd].
Qed.

Lemma strip_ws_join fields : Forall (fun w => w <> [] /\ spacefree w) fields -> fields <> [] ->
  strip_ws (join [32] fields) = join [32] fields.
Proof.
  intros Hf Hne. destruct (join_first_last fields Hf Hne) as [c [s [E [Hc [d [t [Er Hd]]]]]]].
  unfold strip_ws, rstrip_ws. rewrite E. cbn [lstrip_ws]. rewrite Hc. rewrite <- E, Er.
  cbn [lstrip_ws]. rewrite Hd. rewrite <- Er. apply rev_involutive.
Qed.

(* trailing newline of a line is whitespace and is stripped *)
Lemma strip_ws_line s : strip_ws (s ++ [10]) = strip_ws s.
Proof.
  unfold strip_ws, rstrip_ws.
  assert (H : forall t, lstrip_ws (rev (t ++ [10])) = lstrip_ws (rev t)).
  { intros t. rewrite rev_app_distr. reflexivity. }
  induction s as [|c s IH].
  - reflexivity.
  - cbn [app lstrip_ws]. destruct (is_space c) eqn:Ec; [exact IH|].
    change (c :: s ++ [10]) with ((c :: s) ++ [10]). rewrite H. reflexivity.
Qed.

Theorem split_line fields : Forall (fun w => w <> [] /\ spacefree w) fields -> fields <> [] ->
  split_ws (strip_ws (join [32] fields ++ [10])) = fields.
Proof.
  intros Hf Hne. rewrite strip_ws_line, strip_ws_join by assumption.
  apply split_ws_aux_join; assumption.
Qed.

(* line iteration *)
Lemma lines_aux_word w : nlfree w -> forall s cur,
  lines_aux (w ++ s) cur = lines_aux s (rev w ++ cur).
Proof.
  induction w as [|c w IH]; intros Hw s cur; [reflexivity|].
  cbn [app lines_aux]. destruct (Hw c (or_introl eq_refl)) as [H1 H2].
  assert (c =? 10 = false) as -> by lia. assert (c =? 13 = false) as -> by lia.
  rewrite IH by (intros x Hx; apply Hw; right; exact Hx).
  cbn [rev]. rewrite <- app_assoc. reflexivity.
Qed.

Theorem py_lines_concat ls : Forall nlfree ls ->
  py_lines (concat (map (fun l => l ++ [10]) ls)) = map (fun l => l ++ [10]) ls.
Proof.
  unfold py_lines. induction ls as [|l ls IH]; intros H; [reflexivity|].
  inversion H as [|? ? Hl Hls]; subst. cbn [map concat].
  rewrite <- app_assoc, lines_aux_word by exact Hl. cbn [app lines_aux N.eqb Pos.eqb].
  rewrite app_nil_r. cbn [rev]. rewrite rev_involutive.
  f_equal. apply IH. exact Hls.
Qed.
