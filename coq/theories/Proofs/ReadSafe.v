(* C18 for the reading side of the loader.  None of the operations that only read - constructing the loader, loading
   the Manifest chain, entry lookups, single-path verification, get_file_entry_dict, assert_directory_verifies with any
   failure handler - can end with an internal error (attribute / key / index / type / assertion / overflow / not
   implemented), whatever the tree and whatever the Manifest texts: the exceptions that escape are gemato's own, OS
   errors, the codec's, and the two classes that a path with a NUL or a lone surrogate (findings D23, D13) or Manifest
   bytes that are not UTF-8 (outside the quantifier) provoke: ValueError / UnicodeError ([IValue], [IUnicode]).
   The hash library, the decompressor and the OpenPGP environment are arbitrary; they are assumed not to raise
   internal errors themselves. *)
From Coq Require Import List NArith ZArith Bool Lia.
From Gemato Require Import Py.PyStr Py.PyPath Py.PyTime Gen.PyFacts Gen.Tables Gen.Util Gen.Profile
  Model.Entry Model.Text Model.OpenPGP Model.Hash Model.FS Model.Verify Model.Loader.
From Gemato Require Import Proofs.Basics Proofs.SortTheory Proofs.Reject Proofs.HashStream Proofs.VerifyPath Proofs.RefreshIdem Proofs.NoInternal.
Import ListNotations.
Open Scope N_scope.

Definition benign (e : exn) : Prop := forall k, e = XInternal k -> k = IValue \/ k = IUnicode.
Definition safe {A} (r : res A) : Prop := forall e, r = Err e -> benign e.

Lemma safe_ok {A} (a : A) : safe (Ok a).
Proof. intros e H. discriminate. Qed.
Lemma safe_err {A} e : benign e -> safe (@Err A e).
Proof. intros B e' H. inversion H; subst. exact B. Qed.
Lemma safe_bind {A B} (r : res A) (f : A -> res B) : safe r -> (forall a, r = Ok a -> safe (f a)) -> safe (bind r f).
Proof. intros Hr Hf. destruct r as [a|e]; cbn [bind]; [apply Hf; reflexivity|]. intros e' H. inversion H; subst. apply (Hr e' eq_refl). Qed.
Lemma safe_cast {A B} e : safe (@Err A e) -> safe (@Err B e).
Proof. intros H e' E. inversion E; subst. apply (H e' eq_refl). Qed.
Lemma benign_value : benign (XInternal IValue). Proof. intros k H. inversion H. left. reflexivity. Qed.
Lemma benign_unicode : benign (XInternal IUnicode). Proof. intros k H. inversion H. right. reflexivity. Qed.
Ltac bn := let k := fresh "k" in let H := fresh "H" in intros k H; discriminate H.
Lemma safe_parser {A} (r : res A) : only_parser r -> safe r.
Proof. destruct r as [a|e]; [intros _; apply safe_ok|]. intros [->| ->]; apply safe_err; bn. Qed.

(* ---- the filesystem primitives ----------------------------------------------------------------------------- *)
Lemma resolve_comps_safe w : forall cs i, safe (resolve_comps w i cs).
Proof.
  intros cs i e H k Hk. subst e. exfalso. revert i H. induction cs as [|c r IH]; intros i H.
  - cbn in H. discriminate.
  - cbn [resolve_comps] in H.
    repeat match type of H with
           | context [match ?x with _ => _ end] => destruct x eqn:?; try discriminate
           | context [if ?x then _ else _] => destruct x eqn:?; try discriminate
           end; eauto.
Qed.
Lemma resolve_safe w p : safe (resolve w p).
Proof.
  unfold resolve. destruct (existsb (N.eqb 0) p); [apply safe_err, benign_value|].
  destruct (existsb bad_surrogate p); [apply safe_err, benign_unicode|].
  apply safe_bind; [apply resolve_comps_safe|]. intros i _.
  destruct (py_endswith _ _); [|apply safe_ok]. destruct (node w i) as [[]|]; first [apply safe_ok|apply safe_err; bn].
Qed.
Lemma p_stat_safe w p : safe (p_stat w p).
Proof.
  unfold p_stat. apply safe_bind; [apply resolve_safe|]. intros i _. destruct (fault w PStat i); [apply safe_err; bn|].
  destruct (node w i); [apply safe_ok|apply safe_err; bn].
Qed.
Lemma p_open_safe w p : safe (p_open w p).
Proof.
  unfold p_open. apply safe_bind; [apply resolve_safe|]. intros i _. destruct (fault w POpen i); [apply safe_err; bn|].
  destruct (node w i) as [[| |? []]|]; first [apply safe_ok|apply safe_err; bn].
Qed.
Lemma p_fstat_safe w i : safe (p_fstat w i).
Proof. unfold p_fstat. destruct (fault w PFstat i); [apply safe_err; bn|]. destruct (node w i); [apply safe_ok|apply safe_err; bn]. Qed.
Lemma p_read_safe w i : safe (p_read w i).
Proof. unfold p_read. destruct (fault w PRead i); [apply safe_err; bn|]. destruct (node w i) as [[]|]; first [apply safe_ok|apply safe_err; bn]. Qed.
Lemma p_open_file_safe w p : safe (p_open_file w p).
Proof.
  unfold p_open_file. apply safe_bind; [apply p_open_safe|]. intros i _. destruct (fault w PMOpen i); [apply safe_err; bn|].
  destruct (node w i) as [[]|]; first [apply safe_ok|apply safe_err; bn].
Qed.
Lemma p_scandir_safe w p : safe (p_scandir w p).
Proof.
  unfold p_scandir. apply safe_bind; [apply resolve_safe|]. intros i _. destruct (fault w PScandir i); [apply safe_err; bn|].
  destruct (node w i) as [[]|]; first [apply safe_ok|apply safe_err; bn].
Qed.

(* ---- hashing ------------------------------------------------------------------------------------------------- *)
Section Hashing.
  Variable L : hashlib.
  Hypothesis L_safe : forall s, safe (hl_hexdigest L s).
  Variable av : list ustr.

  Lemma make_hashes_safe names : forall acc, safe (make_hashes L av names acc).
  Proof.
    induction names as [|n r IH]; intros acc; [apply safe_ok|]. cbn [make_hashes]. apply safe_bind; [|intros o _; apply IH].
    unfold get_hash_by_name. destruct (ustr_eqb n s_size); [apply safe_ok|]. destruct (mem_str n av); [apply safe_ok|apply safe_err; bn].
  Qed.
  Lemma finish_safe hs : safe (finish L hs).
  Proof.
    induction hs as [|[k o] r IH]; [apply safe_ok|]. cbn [finish]. apply safe_bind.
    - destruct o as [n|s]; cbn [obj_hex]; [apply safe_ok|]. apply safe_bind; [apply L_safe|intros; apply safe_ok].
    - intros v _. apply safe_bind; [exact IH|intros; apply safe_ok].
  Qed.
  Lemma hash_file_safe names sched whole hint : safe (hash_file L av names sched whole hint).
  Proof.
    unfold hash_file. apply safe_bind; [apply make_hashes_safe|]. intros hs _. destruct (_ && _); apply finish_safe.
  Qed.

  (* every requested name is a key of the result *)
  Lemma finish_keys hs : forall r, finish L hs = Ok r -> map fst r = map fst hs.
  Proof.
    induction hs as [|[k o] hs IH]; intros r H; [inversion H; reflexivity|]. cbn [finish] in H.
    destruct (obj_hex L o); cbn [bind] in H; [|discriminate]. destruct (finish L hs) as [t|]; cbn [bind] in H; [|discriminate].
    inversion H; subst. cbn. f_equal. apply IH. reflexivity.
  Qed.
  Lemma update_all_keys hs b : map fst (update_all L hs b) = map fst hs.
  Proof. unfold update_all. rewrite map_map. reflexivity. Qed.
  Lemma feed_keys sched : forall hs, map fst (feed L hs sched) = map fst hs.
  Proof.
    induction sched as [|b r IH]; intros hs; [reflexivity|]. cbn [feed]. destruct b; [reflexivity|]. rewrite IH. apply update_all_keys.
  Qed.
  Lemma make_hashes_keys names : forall acc hs, make_hashes L av names acc = Ok hs ->
    forall n, In n names \/ In n (map fst acc) -> In n (map fst hs).
  Proof.
    induction names as [|m names IH]; intros acc hs H n Hn.
    - inversion H; subst. destruct Hn as [[]|Hn]; exact Hn.
    - cbn [make_hashes] in H. destruct (get_hash_by_name L av m) as [o|]; cbn [bind] in H; [|discriminate].
      apply (IH _ _ H). destruct Hn as [[->|Hn]|Hn]; [right|left; exact Hn|right].
      + destruct (assoc n acc) as [v|] eqn:E.
        * rewrite dict_set_keys; apply assoc_in in E; apply (in_map fst) in E; exact E.
        * apply assoc_none in E. rewrite dict_set_fresh by exact E. rewrite map_app. apply in_or_app. right. left. reflexivity.
      + destruct (in_dec (list_eq_dec N.eq_dec) m (map fst acc)) as [Hi|Hi].
        * rewrite dict_set_keys by exact Hi. exact Hn.
        * rewrite dict_set_fresh by exact Hi. rewrite map_app. apply in_or_app. left. exact Hn.
  Qed.
  Lemma hash_file_keys names sched whole hint r : hash_file L av names sched whole hint = Ok r ->
    forall n, In n names -> exists v, assoc n r = Some v.
  Proof.
    unfold hash_file. destruct (make_hashes L av names []) as [hs|] eqn:Em; cbn [bind]; [|discriminate].
    intros H n Hn. pose proof (make_hashes_keys _ _ _ Em n (or_introl Hn)) as Hk.
    assert (K : map fst r = map fst hs).
    { destruct (_ && _); apply finish_keys in H; rewrite H; [apply update_all_keys|apply feed_keys]. }
    rewrite <- K in Hk. destruct (assoc n r) as [v|] eqn:E; [exists v; reflexivity|]. apply assoc_none in E. contradiction.
  Qed.
End Hashing.

Lemma mh2h_safe hs : safe (manifest_hashes_to_hashlib hs).
Proof.
  induction hs as [|h r IH]; [apply safe_ok|]. cbn [manifest_hashes_to_hashlib]. destruct (assoc h manifest_hash_mapping); [|apply safe_err; bn].
  apply safe_bind; [exact IH|intros; apply safe_ok].
Qed.
Lemma mh2h_length hs : forall libs, manifest_hashes_to_hashlib hs = Ok libs -> length libs = length hs.
Proof.
  induction hs as [|h r IH]; intros libs H; [inversion H; reflexivity|]. cbn [manifest_hashes_to_hashlib] in H.
  destruct (assoc h manifest_hash_mapping); [|discriminate]. destruct (manifest_hashes_to_hashlib r) as [t|]; cbn [bind] in H; [|discriminate].
  inversion H; subst. cbn. f_equal. apply IH. reflexivity.
Qed.

Section VerifyPath.
  Variable L : hashlib.
  Hypothesis L_safe : forall s, safe (hl_hexdigest L s).

  (* the checksum dictionary of get_file_metadata: never a KeyError, and it has a value for every requested name and __size__ *)
  Lemma zipret_ok cks : forall eks ks acc, length eks = length ks -> (forall k, In k ks -> exists v, assoc k cks = Some v) ->
    exists r, zipret cks eks ks acc = Ok r /\ forall x, In x eks \/ In x (map fst acc) -> In x (map fst r).
  Proof.
    induction eks as [|ek er IH]; intros ks acc Hl Hk.
    - destruct ks; [|discriminate]. exists acc. split; [reflexivity|]. intros x [[]|H]; exact H.
    - destruct ks as [|k kr]; [discriminate|]. cbn [zipret]. destruct (Hk k (or_introl eq_refl)) as [v Ev]. rewrite Ev.
      destruct (IH kr (dict_set ek v acc)) as [r [Hr Hin]]; [cbn in Hl; lia|intros k' Hk'; apply Hk; right; exact Hk'|].
      exists r. split; [exact Hr|]. intros x Hx. apply Hin. destruct Hx as [[->|Hx]|Hx]; [right|left; exact Hx|right].
      + destruct (in_dec (list_eq_dec N.eq_dec) x (map fst acc)) as [Hi|Hi].
        * rewrite dict_set_keys by exact Hi. exact Hi.
        * rewrite dict_set_fresh by exact Hi. rewrite map_app. apply in_or_app. right. left. reflexivity.
      + destruct (in_dec (list_eq_dec N.eq_dec) ek (map fst acc)) as [Hi|Hi].
        * rewrite dict_set_keys by exact Hi. exact Hx.
        * rewrite dict_set_fresh by exact Hi. rewrite map_app. apply in_or_app. left. exact Hx.
  Qed.

  Lemma gfm_checksums_safe w i st hs : safe (gfm_checksums L w i st hs) /\
    forall got, gfm_checksums L w i st hs = Ok got -> forall x, In x (sorted_strs hs ++ [s_size]) -> exists v, assoc x got = Some v.
  Proof.
    unfold gfm_checksums.
    destruct (manifest_hashes_to_hashlib (sorted_strs hs)) as [libs|e] eqn:Em; cbn [bind].
    2:{ split; [|discriminate]. intros e' H. inversion H; subst. exact (mh2h_safe _ _ Em). }
    destruct (make_hashes L (w_avail w) (libs ++ [s_size]) []) as [hh|e] eqn:Eh; cbn [bind].
    2:{ split; [|discriminate]. intros e' H. inversion H; subst. exact (make_hashes_safe L _ _ _ _ Eh). }
    destruct (p_read w i) as [data|e] eqn:Er; cbn [bind].
    2:{ split; [|discriminate]. intros e' H. inversion H; subst. exact (p_read_safe _ _ _ Er). }
    destruct (hash_file L (w_avail w) (libs ++ [s_size]) _ data (st_size st)) as [cks|e] eqn:Ec; cbn [bind].
    2:{ split; [|discriminate]. intros e' H. inversion H; subst. exact (hash_file_safe L L_safe _ _ _ _ _ _ Ec). }
    destruct (zipret_ok cks (sorted_strs hs ++ [s_size]) (libs ++ [s_size]) []) as [r [Hr Hin]].
    - rewrite !app_length. rewrite (mh2h_length _ _ Em). reflexivity.
    - intros k Hk. eapply hash_file_keys; [exact Ec|exact Hk].
    - fold (zipret cks (sorted_strs hs ++ [s_size]) (libs ++ [s_size]) []). rewrite Hr. split; [apply safe_ok|].
      intros got H x Hx. inversion H; subst. specialize (Hin x (or_introl Hx)).
      destruct (assoc x got) as [v|] eqn:E; [exists v; reflexivity|]. apply assoc_none in E. contradiction.
  Qed.

  Lemma gfm_open_safe w p : safe (gfm_open w p).
  Proof.
    unfold gfm_open. pose proof (p_open_safe w p) as H. destruct (p_open w p) as [i|e]; [apply safe_ok|].
    destruct e; try (eapply safe_cast; exact H). match goal with e0 : errno |- _ => destruct e0 end; first [apply safe_ok|eapply safe_cast; exact H].
  Qed.
  Lemma gfm_stat_safe w p o : safe (gfm_stat w p o).
  Proof. destruct o; cbn [gfm_stat]; first [apply p_stat_safe|apply p_fstat_safe]. Qed.

  Lemma cmp_loop_safe ecks cks hs : (forall h, In h hs -> exists a b, assoc h ecks = Some a /\ assoc h cks = Some b) ->
    safe (cmp_loop ecks cks hs).
  Proof.
    induction hs as [|h r IH]; intros H; [apply safe_ok|]. cbn [cmp_loop].
    destruct (H h (or_introl eq_refl)) as [a [b [E1 E2]]]. rewrite E1, E2. fold (cmp_loop ecks cks r).
    apply safe_bind; [apply IH; intros h' Hh; apply H; right; exact Hh|intros; apply safe_ok].
  Qed.

  (* the kernel answers ENXIO / EOPNOTSUPP to open() for sockets and devices only, never for a regular file *)
  Definition sane_faults (w : world) : Prop := forall i e, fault w POpen i = Some e -> e <> ENXIO /\ e <> EOPNOTSUPP.

  Lemma not_opened_not_regular w p st : sane_faults w -> gfm_open w p = Ok ONotOpened -> p_stat w p = Ok st -> st_type st <> FTReg.
  Proof.
    intros Hs Ho Hst. unfold gfm_open, p_open in Ho. unfold p_stat in Hst.
    destruct (resolve w p) as [i|e] eqn:Er; cbn [bind] in *; [|discriminate].
    destruct (fault w POpen i) as [e|] eqn:Ef.
    - destruct (Hs i e Ef) as [N1 N2]. destruct e; try discriminate; congruence.
    - destruct (fault w PStat i); [discriminate|]. destruct (node w i) as [[| |d []]|]; try discriminate.
      inversion Hst; subst. cbn. discriminate.
  Qed.

  Theorem verify_path_safe w path e dev lm : sane_faults w -> (forall d, e <> Some (ETs d)) -> safe (verify_path L w path e dev lm).
  Proof.
    intros Hsf Hts. unfold verify_path.
    assert (Body : forall esize ecks expect, safe (
      o <- gfm_open w path ;;
      (let exists_ := match o with ONone => false | _ => true end in
       if negb (Bool.eqb exists_ expect) then Ok (false, [s_exists])
       else if negb exists_ then Ok (true, [])
       else st <- gfm_stat w path o ;;
            (if match dev with Some d => negb (st_dev st =? d) | None => false end then Err (XCrossDevice path)
             else match st_type st with
                  | FTReg =>
                      if negb (st_size st =? 0) && negb (Z.of_N (st_size st) =? esize)%Z then Ok (false, [s_size])
                      else if match lm with Some lm0 => (st_mtime st <=? lm0)%Z | None => false end && negb (st_size st =? 0) then Ok (true, [])
                      else match o with
                           | OOpened i =>
                               cks <- gfm_checksums L w i st (map fst ecks) ;;
                               match assoc s_size cks with
                               | None => Err (XInternal IKey)
                               | Some sz =>
                                   let d1 := if hval_eqb_Z sz esize then [] else [s_size] in
                                   dl <- cmp_loop ecks cks (sorted_strs (map fst ecks)) ;;
                                   (let diff := d1 ++ dl in Ok (match diff with [] => true | _ => false end, diff))
                               end
                           | _ => Err (XInternal IAssertion)
                           end
                  | _ => Ok (false, [s_type])
                  end)))).
    { intros esize ecks expect. apply safe_bind; [apply gfm_open_safe|]. intros o Ho. cbv zeta.
      destruct (negb (Bool.eqb _ expect)); [apply safe_ok|].
      destruct o as [|i|]; cbn [negb]; [apply safe_ok| |].
      - apply safe_bind; [apply p_fstat_safe|]. intros st Hst.
        destruct (match dev with Some _ => _ | None => _ end); [apply safe_err; bn|].
        destruct (st_type st); try apply safe_ok.
        destruct (_ && _); [apply safe_ok|]. destruct (_ && _); [apply safe_ok|].
        destruct (gfm_checksums_safe w i st (map fst ecks)) as [S1 S2].
        apply safe_bind; [exact S1|]. intros cks Hc. specialize (S2 cks Hc).
        destruct (S2 s_size) as [sz Esz]; [apply in_or_app; right; left; reflexivity|]. rewrite Esz.
        apply safe_bind; [|intros; apply safe_ok]. apply cmp_loop_safe. intros h Hh.
        destruct (S2 h) as [b Eb]; [apply in_or_app; left; exact Hh|].
        apply (proj1 (in_sorted_strs _ _)) in Hh. destruct (assoc h ecks) as [a|] eqn:Ea; [exists a, b; split; [reflexivity|exact Eb]|].
        exfalso. apply (proj1 (assoc_none _ _) Ea). exact Hh.
      - apply safe_bind; [apply p_stat_safe|]. intros st Hst. cbn [gfm_stat] in Hst.
        destruct (match dev with Some _ => _ | None => _ end); [apply safe_err; bn|].
        pose proof (not_opened_not_regular w path st Hsf Ho Hst) as Hn.
        destruct (st_type st); try apply safe_ok. congruence. }
    destruct e as [[d|p|t p a esize ecks]|]; [exfalso; exact (Hts d eq_refl)|apply safe_ok| |].
    - exact (Body esize ecks true).
    - exact (Body 0%Z [] false).
  Qed.
End VerifyPath.

(* ---- what the parser returns: the IGNORE and TIMESTAMP tags only in their own classes ------------------------- *)
Definition shape (e : entry) : Prop :=
  match e with EFile TTIMESTAMP _ _ _ _ | EFile TIGNORE _ _ _ _ => False | _ => True end.

Lemma from_list_shape t data e : from_list t data = Ok e -> shape e.
Proof.
  assert (File : forall tg, tg <> TTIMESTAMP -> tg <> TIGNORE ->
            (p <- process_path (firstn 2 data) ;; '(sz, c) <- process_checksums data ;; Ok (mk_file tg p sz c)) = Ok e -> shape e).
  { intros tg N1 N2 H. destruct (process_path (firstn 2 data)); cbn [bind] in H; [|discriminate].
    destruct (process_checksums data) as [[z c]|]; cbn [bind] in H; [|discriminate].
    inversion H; subst. destruct tg; cbn; try exact I; congruence. }
  destruct t; cbn [from_list]; intros H.
  - destruct data as [|a [|v [|x data]]]; try discriminate. destruct (strptime nd_starts v); [|discriminate]. inversion H; subst. exact I.
  - apply (File TMANIFEST); [discriminate|discriminate|exact H].
  - destruct (process_path data); cbn [bind] in H; [|discriminate]. inversion H; subst. exact I.
  - apply (File TDATA); [discriminate|discriminate|exact H].
  - destruct (process_path (firstn 2 data)) as [pp|]; cbn [bind] in H; [|discriminate]. destruct (contains_cp slash pp); [discriminate|].
    destruct (process_checksums data) as [[z c]|]; cbn [bind] in H; [|discriminate]. inversion H; subst. exact I.
  - apply (File TEBUILD); [discriminate|discriminate|exact H].
  - apply (File TMISC); [discriminate|discriminate|exact H].
  - apply (File TAUX); [discriminate|discriminate|exact H].
Qed.

Lemma step_tail_shape verify st es pgp line s' : Forall shape es ->
  step_tail verify st es pgp line = Ok s' -> Forall shape (ls_entries s').
Proof.
  intros Hes. unfold step_tail. destruct (is_armor_line line); [discriminate|].
  assert (Keep : forall st', Ok (mk_ls st' es pgp) = Ok s' -> Forall shape (ls_entries s')).
  { intros st' H. inversion H; subst. exact Hes. }
  assert (Parse : forall st', match split_ws (strip_ws line) with
            | [] => Ok (mk_ls st' es pgp)
            | t :: rest => match lookup_tag t with
                           | None => Err XSyntax
                           | Some tg => e <- from_list tg (t :: rest) ;; Ok (mk_ls st' (e :: es) pgp)
                           end
            end = Ok s' -> Forall shape (ls_entries s')).
  { intros st'. destruct (split_ws (strip_ws line)) as [|t rest]; [apply Keep|].
    destruct (lookup_tag t) as [tg|]; [|discriminate].
    destruct (from_list tg (t :: rest)) as [e|] eqn:E; cbn [bind]; [|discriminate].
    intros H. inversion H; subst. cbn [ls_entries]. constructor; [eapply from_list_shape; eassumption|exact Hes]. }
  destruct st.
  - apply Parse.
  - apply Keep.
  - apply Parse.
  - apply Keep.
  - destruct (split_ws (strip_ws line)); [apply Keep|discriminate].
Qed.
Lemma load_step_shape verify s line s' : Forall shape (ls_entries s) ->
  load_step verify s line = Ok s' -> Forall shape (ls_entries s').
Proof.
  intros Hes. unfold load_step. destruct (ls_state s).
  - destruct (ustr_eqb line l_begin_signed).
    + destruct (ls_entries s) eqn:E; [|discriminate]. intros H. inversion H; subst. cbn. constructor.
    + apply step_tail_shape; assumption.
  - destruct (strip_ws line); [apply step_tail_shape; assumption|intros H; inversion H; subst; exact Hes].
  - destruct (ustr_eqb line l_begin_sig); [intros H; inversion H; subst; exact Hes|]. apply step_tail_shape; exact Hes.
  - destruct (ustr_eqb line l_end_sig); [intros H; inversion H; subst; exact Hes|apply step_tail_shape; assumption].
  - apply step_tail_shape; assumption.
Qed.
Theorem load_shape text verify es o : load text verify = Ok (es, o) -> Forall shape es.
Proof.
  unfold load.
  assert (G : forall ls s s', Forall shape (ls_entries s) -> load_lines verify s ls = Ok s' -> Forall shape (ls_entries s')).
  { induction ls as [|l ls IH]; intros s s' Hs H; [inversion H; subst; exact Hs|].
    cbn [load_lines] in H. destruct (load_step verify s l) as [s1|] eqn:E; [|discriminate].
    cbn [bind] in H. eapply IH; [|exact H]. eapply load_step_shape; eassumption. }
  destruct (load_lines verify _ (py_lines text)) as [s|] eqn:E; cbn [bind]; [|discriminate].
  specialize (G _ (mk_ls SData [] []) s (Forall_nil _) E).
  destruct (ls_state s); try discriminate; intros H; inversion H; subst; apply Forall_rev; exact G.
Qed.

(* ---- the loader ------------------------------------------------------------------------------------------------ *)
Lemma In_dict_set' {A} k (v : A) l x : In x (dict_set k v l) -> x = (k, v) \/ In x l.
Proof.
  induction l as [|[k' v'] l IH]; cbn [dict_set]; [intros [H|[]]; left; symmetry; exact H|].
  destruct (ustr_eqb k k'); [intros [H|H]; [left; symmetry; exact H|right; right; exact H]|].
  intros [H|H]; [right; left; exact H|]. destruct (IH H) as [E|E]; [left; exact E|right; right; exact E].
Qed.

Section ReadSide.
  Variable L : hashlib.
  Variable decompress : list N -> list N -> res (list N).
  Variable pgp_verify : list N -> res sigdata.
  Hypothesis L_safe : forall s, safe (hl_hexdigest L s).
  Hypothesis dec_safe : forall f d, safe (decompress f d).
  Hypothesis pgp_safe : forall t, safe (pgp_verify t).
  Variable w : world.
  Hypothesis w_sane : sane_faults w.

  Definition lshape (l : loader) : Prop := forall mp m, In (mp, m) (l_loaded l) -> Forall shape (entries_of m).

  Lemma number_entries_snd es : forall next, map snd (fst (number_entries es next)) = es.
  Proof.
    induction es as [|e r IH]; intros next; [reflexivity|]. cbn [number_entries].
    specialize (IH (next + 1)). destruct (number_entries r (next + 1)) as [t n']. cbn in *. f_equal. exact IH.
  Qed.

  Lemma read_manifest_safe path v : safe (read_manifest decompress pgp_verify w path v) /\
    forall es sg st, read_manifest decompress pgp_verify w path v = Ok (es, sg, st) -> Forall shape es.
  Proof.
    unfold read_manifest.
    destruct (p_open_file w path) as [i|e] eqn:Eo; cbn [bind].
    2:{ split; [|discriminate]. intros e' H. inversion H; subst. exact (p_open_file_safe _ _ _ Eo). }
    destruct (p_read w i) as [data|e] eqn:Er; cbn [bind].
    2:{ split; [|discriminate]. intros e' H. inversion H; subst. exact (p_read_safe _ _ _ Er). }
    destruct (match compressed_suffix path with None => Ok data | Some fmt => _ end) as [plain|e] eqn:Ep; cbn [bind].
    2:{ split; [|discriminate]. intros e' H. inversion H; subst. destruct (compressed_suffix path) as [fmt|]; [|discriminate].
        destruct (mem_str fmt codec_suffixes); [exact (dec_safe _ _ _ Ep)|]. inversion Ep; subst. bn. }
    destruct (utf8_decode plain) as [text|]; cbn [bind]; [|split; [apply safe_err, benign_unicode|discriminate]].
    unfold load_with_env. destruct (load text v) as [[es o]|e] eqn:El; cbn [bind].
    2:{ split; [|discriminate]. apply safe_err. pose proof (load_total text v) as T. rewrite El in T. destruct T as [-> | ->]; bn. }
    pose proof (load_shape _ _ _ _ El) as Hs.
    destruct o as [t|]; cbn [bind].
    - destruct (pgp_verify t) as [d|e] eqn:Eg; cbn [bind].
      2:{ split; [|discriminate]. intros e' H. inversion H; subst. exact (pgp_safe _ _ Eg). }
      destruct (p_fstat w i) as [st|e] eqn:Ef; cbn [bind].
      2:{ split; [|discriminate]. intros e' H. inversion H; subst. exact (p_fstat_safe _ _ _ Ef). }
      split; [apply safe_ok|]. intros es' sg st' H. inversion H; subst. exact Hs.
    - destruct (p_fstat w i) as [st|e] eqn:Ef; cbn [bind].
      2:{ split; [|discriminate]. intros e' H. inversion H; subst. exact (p_fstat_safe _ _ _ Ef). }
      split; [apply safe_ok|]. intros es' sg st' H. inversion H; subst. exact Hs.
  Qed.

  Definition not_ts (ve : option entry) : Prop := forall d, ve <> Some (ETs d).

  Lemma verify_and_load_safe l relpath ve : not_ts ve ->
    safe (verify_and_load L decompress pgp_verify w l relpath ve) /\
    forall es sg st, verify_and_load L decompress pgp_verify w l relpath ve = Ok (es, sg, st) -> Forall shape es.
  Proof.
    intros Hv. unfold verify_and_load.
    destruct (read_manifest_safe (pjoin rootdir relpath) (o_verify_openpgp (l_opts l))) as [R1 R2].
    destruct ve as [e|]; cbn [bind].
    - pose proof (verify_path_safe L L_safe w (pjoin rootdir relpath) (Some e) None None w_sane Hv) as V.
      destruct (Verify.verify_path L w (pjoin rootdir relpath) (Some e) None None) as [[ok diff]|x] eqn:E; cbn [bind].
      + destruct ok; cbn [bind]; [split; [exact R1|exact R2]|]. split; [apply safe_err; bn|discriminate].
      + split; [|discriminate]. intros e' H. inversion H; subst. exact (V _ eq_refl).
    - split; [exact R1|exact R2].
  Qed.

  Lemma lshape_set_loaded l x : (forall mp m, In (mp, m) x -> Forall shape (entries_of m)) -> lshape (set_loaded l x).
  Proof. intros H. exact H. Qed.

  Lemma load_manifest_safe l relpath ve ac sd : not_ts ve -> lshape l ->
    safe (load_manifest L decompress pgp_verify w l relpath ve ac sd) /\
    forall l' m, load_manifest L decompress pgp_verify w l relpath ve ac sd = Ok (l', m) -> lshape l'.
  Proof.
    intros Hv Hl. unfold load_manifest.
    destruct (verify_and_load_safe l relpath ve Hv) as [V1 V2].
    destruct (verify_and_load L decompress pgp_verify w l relpath ve) as [[[es sg] st]|e] eqn:E.
    - specialize (V2 _ _ _ eq_refl). pose proof (number_entries_snd es (l_next l)) as Hn.
      destruct (number_entries es (l_next l)) as [ids nx]. cbn [bind fst] in *. split; [apply safe_ok|].
      intros l' m H. inversion H; subst. clear H.
      assert (G : forall l2, l_loaded l2 = l_loaded l -> lshape (set_loaded l2 (dict_set relpath (mk_mf ids sg) (l_loaded l2)))).
      { intros l2 E2 mp m Hin. cbn in Hin. rewrite E2 in Hin. apply In_dict_set' in Hin. destruct Hin as [Hin|Hin].
        - inversion Hin; subst. unfold entries_of. cbn [mf_entries]. first [exact V2|rewrite Hn; exact V2].
        - exact (Hl mp m Hin). }
      destruct sd; apply G; reflexivity.
    - assert (Se : benign e) by (apply V1; reflexivity).
      assert (Dflt : safe (@Err (loader * mfile * statinfo) e)) by (apply safe_err; exact Se).
      destruct e; cbn [bind]; try (split; [eapply safe_cast; exact Dflt|discriminate]).
      match goal with e0 : errno |- _ => destruct e0 end; cbn [bind]; try (split; [eapply safe_cast; exact Dflt|discriminate]).
      destruct ac; cbn [bind]; [|split; [apply safe_err; bn|discriminate]].
      destruct (p_stat w (dirname (pjoin rootdir relpath))) as [st|x] eqn:Es; cbn [bind].
      2:{ split; [|discriminate]. intros e' H. inversion H; subst. exact (p_stat_safe _ _ _ Es). }
      set (igs := if ustr_eqb relpath _ then _ else _).
      assert (Hig : Forall shape igs).
      { subst igs. destruct (ustr_eqb relpath _); [|constructor]. apply Forall_forall. intros x Hx. apply in_map_iff in Hx.
        destruct Hx as [p [<- _]]. exact I. }
      pose proof (number_entries_snd igs (l_next (add_updated l relpath))) as Hn.
      destruct (number_entries igs (l_next (add_updated l relpath))) as [ids nx]. cbn [bind fst] in *. split; [apply safe_ok|].
      intros l' m H. inversion H; subst. clear H.
      assert (Lu : l_loaded (add_updated l relpath) = l_loaded l) by (unfold add_updated; destruct (mem_str _ _); reflexivity).
      assert (G : forall l2, l_loaded l2 = l_loaded l -> lshape (set_loaded l2 (dict_set relpath (mk_mf ids false) (l_loaded l2)))).
      { intros l2 E2 mp m Hin. cbn in Hin. rewrite E2 in Hin. apply In_dict_set' in Hin. destruct Hin as [Hin|Hin].
        - inversion Hin; subst. unfold entries_of. cbn [mf_entries]. first [exact Hig|rewrite Hn; exact Hig].
        - exact (Hl mp m Hin). }
      destruct sd; apply G; cbn; exact Lu.
  Qed.

  Lemma to_load_not_ts l path rc v : Forall (fun x => not_ts (snd x)) (to_load l path rc v).
  Proof.
    unfold to_load. apply Forall_forall. intros [mp ve] Hin. apply in_flat_map in Hin. destruct Hin as [[[cur rel] m] [_ Hin]].
    apply in_flat_map in Hin. destruct Hin as [e [_ Hin]]. destruct e as [d|p|t p a s c]; try destruct Hin.
    destruct t; try destruct Hin. destruct (_ || _); [destruct Hin|]. destruct (_ || _); [|destruct Hin].
    destruct Hin as [H|[]]. inversion H; subst. cbn [snd]. intros d. destruct v; discriminate.
  Qed.

  Lemma load_list_safe tl : forall l, Forall (fun x => not_ts (snd x)) tl -> lshape l ->
    safe (load_list L decompress pgp_verify w l tl) /\ forall l', load_list L decompress pgp_verify w l tl = Ok l' -> lshape l'.
  Proof.
    induction tl as [|[mp ve] r IH]; intros l Ht Hl; [split; [apply safe_ok|intros l' H; inversion H; subst; exact Hl]|].
    inversion Ht; subst. cbn [load_list]. destruct (load_manifest_safe l mp ve false false H1 Hl) as [M1 M2].
    destruct (load_manifest L decompress pgp_verify w l mp ve false false) as [[l1 m]|e] eqn:E; cbn [bind].
    - apply IH; [exact H2|]. eapply M2. reflexivity.
    - split; [|discriminate]. intros e' H. inversion H; subst. exact (M1 _ eq_refl).
  Qed.

  Lemma load_manifests_safe fuel : forall l path rc v, lshape l ->
    safe (load_manifests_for_path L decompress pgp_verify fuel w l path rc v) /\
    forall l', load_manifests_for_path L decompress pgp_verify fuel w l path rc v = Ok l' -> lshape l'.
  Proof.
    induction fuel as [|f IH]; intros l path rc v Hl; [split; [apply safe_err; bn|discriminate]|].
    cbn [load_manifests_for_path]. pose proof (to_load_not_ts l path rc v) as Ht.
    destruct (to_load l path rc v) as [|x tl] eqn:E; [split; [apply safe_ok|intros l' H; inversion H; subst; exact Hl]|].
    destruct (load_list_safe (x :: tl) l Ht Hl) as [S1 S2].
    destruct (load_list L decompress pgp_verify w l (x :: tl)) as [l1|e] eqn:El; cbn [bind].
    - apply IH. apply S2. reflexivity.
    - split; [|discriminate]. intros e' H. inversion H; subst. exact (S1 _ eq_refl).
  Qed.

  Theorem new_loader_safe top opts ac ax : safe (new_loader L decompress pgp_verify w top opts ac ax) /\
    forall l, new_loader L decompress pgp_verify w top opts ac ax = Ok l -> lshape l.
  Proof.
    unfold new_loader. set (l0 := mk_loader top [] [] None 0 opts false []).
    assert (H0 : lshape l0) by (intros mp m []).
    destruct (load_manifest_safe l0 top None ac (negb ax) ltac:(intros d; discriminate) H0) as [M1 M2].
    destruct (load_manifest L decompress pgp_verify w l0 top None ac (negb ax)) as [[l1 m]|e] eqn:E; cbn [bind].
    - split; [apply safe_ok|]. intros l H. inversion H; subst. exact (M2 _ _ eq_refl).
    - split; [|discriminate]. intros e' H. inversion H; subst. exact (M1 _ eq_refl).
  Qed.

  (* ---- lookups ---- *)
  Lemma first_some_prop {A B} (f : A -> option B) (P : B -> Prop) l b :
    (forall a b, In a l -> f a = Some b -> P b) -> first_some f l = Some b -> P b.
  Proof.
    induction l as [|x r IH]; intros H E; [discriminate|]. cbn [first_some] in E. destruct (f x) as [b'|] eqn:Ef.
    - inversion E; subst. apply (H x b (or_introl eq_refl) Ef).
    - apply IH; [intros a b0 Ha; apply H; right; exact Ha|exact E].
  Qed.

  Lemma find_path_entry_safe l path : lshape l ->
    safe (find_path_entry_l L decompress pgp_verify w l path) /\
    forall l' e, find_path_entry_l L decompress pgp_verify w l path = Ok (l', e) -> lshape l' /\ not_ts e.
  Proof.
    intros Hl. unfold find_path_entry_l. destruct (load_manifests_safe rounds_fuel l path false true Hl) as [S1 S2].
    destruct (load_manifests_for_path L decompress pgp_verify rounds_fuel w l path false true) as [l1|e] eqn:E; cbn [bind].
    - split; [apply safe_ok|]. intros l' e H. inversion H; subst. split; [apply S2; reflexivity|].
      intros d Hd. refine (first_some_prop _ (fun b => b <> ETs d) _ _ _ Hd eq_refl).
      intros [[mp rel] m] b _. apply (first_some_prop _ (fun b => b <> ETs d)). intros e b0 _. destruct e as [d0|p|t p a sz c]; [discriminate| |].
      + destruct (path_starts_with _ _); [intros H1; inversion H1; discriminate|discriminate].
      + destruct (tag_eqb t TDIST); [discriminate|]. destruct (ustr_eqb _ _); [intros H1; inversion H1; discriminate|discriminate].
    - split; [|discriminate]. intros e' H. inversion H; subst. exact (S1 _ eq_refl).
  Qed.

  Theorem verify_path_l_safe l relpath : lshape l -> safe (verify_path_l L decompress pgp_verify w l relpath).
  Proof.
    intros Hl. unfold verify_path_l. destruct (find_path_entry_safe l relpath Hl) as [F1 F2].
    apply safe_bind; [exact F1|]. intros [l' e] H. destruct (F2 _ _ H) as [_ Hn].
    apply safe_bind; [apply verify_path_safe; assumption|intros; apply safe_ok].
  Qed.
  Theorem assert_path_verifies_safe l relpath : lshape l -> safe (assert_path_verifies L decompress pgp_verify w l relpath).
  Proof.
    intros Hl. unfold assert_path_verifies. destruct (find_path_entry_safe l relpath Hl) as [F1 F2].
    apply safe_bind; [exact F1|]. intros [l' e] H. destruct (F2 _ _ H) as [_ Hn].
    apply safe_bind; [apply verify_path_safe; assumption|]. intros [ok diff] _. destruct ok; [apply safe_ok|apply safe_err; bn].
  Qed.
  Theorem find_dist_entry_safe l f relpath : lshape l -> safe (find_dist_entry_l L decompress pgp_verify w l f relpath).
  Proof.
    intros Hl. unfold find_dist_entry_l. apply safe_bind; [apply load_manifests_safe; exact Hl|intros; apply safe_ok].
  Qed.
  Theorem find_timestamp_safe l : lshape l -> safe (find_timestamp_l L decompress pgp_verify w l).
  Proof.
    intros Hl. unfold find_timestamp_l. apply safe_bind; [apply load_manifests_safe; exact Hl|intros; apply safe_ok].
  Qed.

  (* ---- the entry dictionary of a directory verification ---- *)
  Lemma shape_parsed e : shape e -> e_tag e <> TTIMESTAMP -> parsed_shape e.
  Proof. destruct e as [d|p|t p a s c]; cbn; [congruence|tauto|]. destruct t; tauto. Qed.

  Lemma merge_entry_safe old e : parsed_shape old -> parsed_shape e ->
    safe (merge_entry old e) /\ forall e', merge_entry old e = Ok e' -> parsed_shape e'.
  Proof.
    intros Ho He. unfold merge_entry. destruct (compat_total old e Ho He) as [ok [diff E]]. rewrite E. cbn [bind].
    destruct ok; cbn [negb]; [|split; [apply safe_err; bn|discriminate]].
    destruct diff as [|d0 dr]; [split; [apply safe_ok|intros e' H; inversion H; subst; exact He]|].
    destruct e as [d|p|t p a s c]; try (split; [apply safe_ok|intros e' H; inversion H; subst; exact He]).
    split; [apply safe_ok|]. intros e' H. inversion H; subst. destruct t; cbn in *; tauto.
  Qed.

  Definition dshape (ed : edict) : Prop := forall d dd f e, In (d, dd) ed -> In (f, e) dd -> parsed_shape e.

  Lemma dshape_set ed dirpath dirout filename e : dshape ed ->
    (forall f x, In (f, x) dirout -> parsed_shape x) -> parsed_shape e ->
    dshape (dict_set dirpath (dict_set filename e dirout) ed).
  Proof.
    intros Hd Ho He d dd f x H1 H2. apply In_dict_set' in H1. destruct H1 as [H1|H1].
    - inversion H1; subst. apply In_dict_set' in H2. destruct H2 as [H2|H2]; [inversion H2; subst; exact He|exact (Ho _ _ H2)].
    - exact (Hd _ _ _ _ H1 H2).
  Qed.
  Lemma dirout_shape ed dirpath : dshape ed ->
    forall f x, In (f, x) (match assoc dirpath ed with Some d => d | None => [] end) -> parsed_shape x.
  Proof.
    intros Hd f x H. destruct (assoc dirpath ed) as [d|] eqn:E; [|destruct H]. apply assoc_in in E. exact (Hd _ _ _ _ E H).
  Qed.

  Theorem get_file_entry_dict_safe l path v : lshape l ->
    safe (get_file_entry_dict L decompress pgp_verify w l path None v) /\
    forall l' ed, get_file_entry_dict L decompress pgp_verify w l path None v = Ok (l', ed) -> lshape l' /\ dshape ed.
  Proof.
    intros Hl. unfold get_file_entry_dict. destruct (load_manifests_safe rounds_fuel l path true v Hl) as [S1 S2].
    destruct (load_manifests_for_path L decompress pgp_verify rounds_fuel w l path true v) as [l1|e] eqn:E; cbn [bind].
    2:{ split; [|discriminate]. intros e' H. inversion H; subst. exact (S1 _ eq_refl). }
    specialize (S2 _ eq_refl).
    (* invariant of the two nested folds *)
    set (P := fun (r : res edict) => safe r /\ forall ed, r = Ok ed -> dshape ed).
    assert (Hitems : forall kdv, In kdv (iter_manifests l1 path true) -> Forall shape (entries_of (snd kdv))).
    { intros [[mp rel] m] Hin. unfold iter_manifests in Hin.
      apply (Permutation.Permutation_in _ (py_sorted_perm _ _)) in Hin. apply in_rev in Hin. apply in_flat_map in Hin.
      destruct Hin as [[k m'] [Hk Hin]]. cbn [fst snd] in Hin.
      destruct (path_starts_with path (dirname k)); [|destruct (_ && _)].
      - destruct Hin as [Hin|[]]. inversion Hin; subst. exact (S2 _ _ Hk).
      - destruct Hin as [Hin|[]]. inversion Hin; subst. exact (S2 _ _ Hk).
      - destruct Hin. }
    assert (P0 : P (Ok [])) by (split; [apply safe_ok|intros ed H; inversion H; subst; intros d dd f e []]).
    match goal with |- context [bind (fold_left ?F ?items ?init) _] =>
      set (FF := F); assert (GG : forall its acc, P acc -> (forall kdv, In kdv its -> Forall shape (entries_of (snd kdv))) -> P (fold_left FF its acc)) end.
    { induction its as [|[[mp rel0] m] its IH]; intros acc Pacc Hits; [exact Pacc|].
      cbn [fold_left]. apply IH; [|intros kdv Hk; apply Hits; right; exact Hk].
      specialize (Hits _ (or_introl eq_refl)). cbn [snd] in Hits. subst FF. cbv beta iota.
      match goal with |- P (snd (fold_left ?F2 _ _)) => set (F2' := F2) end.
      assert (Hcarry : forall es' rel' x, snd (fold_left F2' es' (rel', @Err edict x)) = Err x).
      { induction es' as [|e1 es' IH']; intros rel' x; [reflexivity|]. cbn [fold_left]. subst F2'. cbv beta iota. apply IH'. }
      revert Hits. generalize (entries_of m). intros es. revert acc Pacc. generalize rel0.
      induction es as [|e es IHe]; intros rel acc Pacc Hes; [exact Pacc|].
      cbn [fold_left]. inversion Hes; subst.
      destruct acc as [out|x]; [|unfold F2' at 2; cbv beta iota; rewrite Hcarry; exact Pacc].
      destruct Pacc as [_ Pd]. specialize (Pd out eq_refl).
      unfold F2' at 2. cbv beta iota.
      destruct (e_tag e) eqn:Et; try (apply IHe; [split; [apply safe_ok|intros ed H; inversion H; subst; exact Pd]|assumption]).
      all: cbv zeta.
      all: destruct (path_starts_with (pjoin rel (e_path e)) path); [|apply IHe; [split; [apply safe_ok|intros ed H; inversion H; subst; exact Pd]|assumption]].
      all: assert (Pe : parsed_shape e) by (apply shape_parsed; [assumption|congruence]).
      all: destruct (assoc (basename (e_path e)) _) as [old|] eqn:Ea.
      all: try (apply IHe; [split; [apply safe_ok|intros ed H; inversion H; subst; apply dshape_set; [exact Pd|apply dirout_shape; exact Pd|exact Pe]]|assumption]).
      all: assert (Po : parsed_shape old) by (apply assoc_in in Ea; eapply dirout_shape; [exact Pd|exact Ea]).
      all: destruct (merge_entry_safe old e Po Pe) as [M1 M2].
      all: destruct (merge_entry old e) as [e'|x] eqn:Em.
      all: try (apply IHe; [split; [apply safe_ok|intros ed H; inversion H; subst; apply dshape_set; [exact Pd|apply dirout_shape; exact Pd|apply M2; reflexivity]]|assumption]).
      all: apply IHe; [split; [intros e0 H; inversion H; subst; exact (M1 _ eq_refl)|discriminate]|assumption]. }
    pose proof (GG _ _ P0 Hitems) as G.
    destruct G as [G1 G2].
    match goal with |- context [bind ?r _] => destruct r as [out|x] eqn:Ef end; cbn [bind].
    - split; [apply safe_ok|]. intros l' ed H. inversion H; subst. split; [exact S2|apply G2; reflexivity].
    - split; [|discriminate]. intros e' H. inversion H; subst. exact (G1 _ eq_refl).
  Qed.

  (* ---- the directory verification ---- *)
  Lemma fold_safe {A S} (f : res S -> A -> res S) (I : S -> Prop) :
    (forall r a, (safe r /\ forall s, r = Ok s -> I s) -> (safe (f r a) /\ forall s, f r a = Ok s -> I s)) ->
    forall l r, (safe r /\ forall s, r = Ok s -> I s) -> (safe (fold_left f l r) /\ forall s, fold_left f l r = Ok s -> I s).
  Proof. intros Hf l. induction l as [|a l IH]; intros r Hr; [exact Hr|]. cbn [fold_left]. apply IH. apply Hf. exact Hr. Qed.

  Lemma In_dict_del {B} k (l : list (ustr * B)) x : In x (dict_del k l) -> In x l.
  Proof.
    induction l as [|[k' v] l IH]; [intros []|]. cbn [dict_del]. destruct (ustr_eqb k k'); [intros H; right; exact H|].
    intros [H|H]; [left; exact H|right; apply IH; exact H].
  Qed.

  Definition ddshape (dd : list (list N * entry)) : Prop := forall f e, In (f, e) dd -> parsed_shape e.
  Lemma parsed_not_ts e : parsed_shape e -> not_ts (Some e).
  Proof. intros H d E. inversion E; subst. exact H. Qed.
  Lemma ddshape_assoc dd f : ddshape dd -> not_ts (assoc f dd).
  Proof. intros H d E. apply assoc_in in E. exact (H _ _ E). Qed.
  Lemma ddshape_del dd f : ddshape dd -> ddshape (dict_del f dd).
  Proof. intros H g e Hin. apply In_dict_del in Hin. exact (H _ _ Hin). Qed.

  Lemma verify_one_safe c path relpath e log : not_ts e -> safe (verify_one L w c path relpath e log).
  Proof.
    intros He. unfold verify_one. apply safe_bind; [apply verify_path_safe; assumption|]. intros [ok diff] _.
    destruct ok; [apply safe_ok|]. destruct (apply_policy _ _); first [apply safe_ok|apply safe_err; bn].
  Qed.

  Lemma verify_dir_safe c dirpath relpath dirnames filenames dirdict log : ddshape dirdict ->
    safe (verify_dir L w c dirpath relpath dirnames filenames dirdict log).
  Proof.
    intros Hd. unfold verify_dir.
    set (I3 := fun s : bool * list call * list (list N * entry) => ddshape (snd s)).
    match goal with |- safe (bind (fold_left ?F1 dirnames ?i1) _) =>
      assert (S1 : safe (fold_left F1 dirnames i1) /\ forall s, fold_left F1 dirnames i1 = Ok s -> I3 s) end.
    { apply fold_safe; [|split; [apply safe_ok|intros s H; inversion H; subst; exact Hd]].
      intros r a [R1 R2]. destruct r as [[[ret lg] dd]|x]; cbn [bind]; [|split; [exact R1|discriminate]].
      specialize (R2 _ eq_refl). unfold I3 in R2. cbn [snd] in R2.
      destruct (assoc a dd) as [de|] eqn:Ea; [|split; [apply safe_ok|intros s H; inversion H; subst; exact R2]].
      pose proof (verify_one_safe c (pjoin dirpath a) (pjoin relpath a) (Some de) lg) as V.
      destruct (verify_one L w c (pjoin dirpath a) (pjoin relpath a) (Some de) lg) as [[b lg']|x]; cbn [bind].
      - split; [apply safe_ok|]. intros s H. inversion H; subst. apply ddshape_del. exact R2.
      - split; [|discriminate]. intros e' H. inversion H; subst. apply V; [|reflexivity]. apply parsed_not_ts. apply assoc_in in Ea. exact (R2 _ _ Ea). }
    destruct S1 as [S1 S1'].
    apply safe_bind; [exact S1|]. intros r1 Hr1. specialize (S1' _ Hr1).
    match goal with |- safe (bind (fold_left ?F2 filenames ?i2) _) =>
      assert (S2 : safe (fold_left F2 filenames i2) /\ forall s, fold_left F2 filenames i2 = Ok s -> I3 s) end.
    { apply fold_safe; [|split; [apply safe_ok|intros s H; inversion H; subst; exact S1']].
      intros r a [R1 R2]. destruct r as [[[ret lg] dd]|x]; cbn [bind]; [|split; [exact R1|discriminate]].
      specialize (R2 _ eq_refl). unfold I3 in R2. cbn [snd] in R2.
      destruct (py_startswith a [46]); [split; [apply safe_ok|intros s H; inversion H; subst; exact R2]|].
      destruct (ustr_eqb _ _); [split; [apply safe_ok|intros s H; inversion H; subst; exact R2]|].
      pose proof (verify_one_safe c (pjoin dirpath a) (pjoin relpath a) (assoc a dd) lg (ddshape_assoc _ _ R2)) as V.
      destruct (verify_one L w c (pjoin dirpath a) (pjoin relpath a) (assoc a dd) lg) as [[b lg']|x]; cbn [bind].
      - split; [apply safe_ok|]. intros s H. inversion H; subst. apply ddshape_del. exact R2.
      - split; [|discriminate]. intros e' H. inversion H; subst. apply V. reflexivity. }
    destruct S2 as [S2 S2'].
    apply safe_bind; [exact S2|]. intros [[ret2 lg2] dd2] Hr2. specialize (S2' _ Hr2). unfold I3 in S2'. cbn [snd] in S2'.
    (* missing files *)
    assert (G : forall items acc, (forall fe, In fe items -> parsed_shape (snd fe)) -> safe acc ->
              safe (fold_left (fun (acc : res (bool * list call)) fe =>
                      '(ret, lg) <- acc ;;
                      '(b, lg') <- verify_one L w c (pjoin dirpath (fst fe)) (pjoin relpath (fst fe)) (Some (snd fe)) lg ;;
                      Ok (ret && b, lg')) items acc)).
    { induction items as [|fe items IH]; intros acc Hi Ha; [exact Ha|]. cbn [fold_left]. apply IH; [intros x Hx; apply Hi; right; exact Hx|].
      apply safe_bind; [exact Ha|]. intros [ret lg] _. apply safe_bind; [|intros [b lg'] _; apply safe_ok].
      apply verify_one_safe. apply parsed_not_ts. apply Hi. left. reflexivity. }
    apply G; [|apply safe_ok]. intros [f e] Hin. exact (S2' _ _ Hin).
  Qed.

  Lemma dshape_del ed k : dshape ed -> dshape (dict_del k ed).
  Proof. intros H d dd f e H1 H2. apply In_dict_del in H1. exact (H _ _ _ _ H1 H2). Qed.

  Lemma walk_verify_safe c fuel : forall dirpath rel ids ed ret log, dshape ed ->
    safe (walk_verify L fuel w c dirpath rel ids ed ret log) /\
    forall i e r lg, walk_verify L fuel w c dirpath rel ids ed ret log = Ok (i, e, r, lg) -> dshape e.
  Proof.
    induction fuel as [|f IH]; intros dirpath rel ids ed ret log Hd; [split; [apply safe_err; bn|discriminate]|].
    cbn [walk_verify].
    destruct (p_scandir w dirpath) as [ents|x] eqn:Es; cbn [bind].
    2:{ split; [|discriminate]. intros e' H. inversion H; subst. exact (p_scandir_safe _ _ _ Es). }
    destruct (p_stat w dirpath) as [dst|x] eqn:Et; cbn [bind].
    2:{ split; [|discriminate]. intros e' H. inversion H; subst. exact (p_stat_safe _ _ _ Et). }
    destruct (match vc_dev c with Some _ => _ | None => _ end); [split; [apply safe_err; bn|discriminate]|].
    destruct (existsb _ _); [split; [apply safe_err; bn|discriminate]|].
    set (dirdict := match assoc rel ed with Some d => d | None => [] end).
    assert (Hdd : ddshape dirdict) by (intros g e Hin; exact (dirout_shape ed rel Hd g e Hin)).
    clearbody dirdict.
    match goal with |- context [fold_left ?Fp ?dn ([], dirdict)] =>
      assert (Hp : forall dns kp dd, ddshape dd -> ddshape (snd (fold_left Fp dns (kp, dd)))) end.
    { induction dns as [|d dns IHd]; intros kp dd Hdd0; [exact Hdd0|].
      cbn [fold_left]. destruct (py_startswith d [46]); [apply IHd; exact Hdd0|].
      destruct (assoc d dd) as [[dte|pi|t p a sz cc]|]; apply IHd; first [exact Hdd0|apply ddshape_del; exact Hdd0]. }
    match goal with |- context [fold_left ?Fp ?dn ([], dirdict)] => pose proof (Hp dn [] dirdict Hdd) as Hprune end. clear Hp.
    match goal with |- context [fold_left ?Fp ?dn ([], dirdict)] => destruct (fold_left Fp dn ([], dirdict)) as [keep dirdict1] end.
    cbn [snd] in Hprune.
    pose proof (verify_dir_safe c dirpath rel keep (map fst (filter (fun x => negb (snd x)) ents)) dirdict1 log Hprune) as V.
    destruct (verify_dir L w c dirpath rel keep _ dirdict1 log) as [[b log1]|x] eqn:Ev; cbn [bind].
    2:{ split; [|discriminate]. intros e' H. inversion H; subst. exact (V _ eq_refl). }
    set (I4 := fun s : ids_map * edict * bool * list call => dshape (snd (fst (fst s)))).
    match goal with |- safe (fold_left ?Fr keep ?i0) /\ _ =>
      assert (R : safe (fold_left Fr keep i0) /\ forall s, fold_left Fr keep i0 = Ok s -> I4 s) end.
    { apply fold_safe; [|split; [apply safe_ok|intros s H; inversion H; subst; unfold I4; cbn; apply dshape_del; exact Hd]].
      intros r a [R1 R2]. destruct r as [[[[i e] r0] lg]|x]; cbn [bind]; [|split; [exact R1|discriminate]].
      specialize (R2 _ eq_refl). unfold I4 in R2. cbn in R2.
      destruct (IH (pjoin dirpath a) (pjoin rel a) i e r0 lg R2) as [W1 W2]. split; [exact W1|].
      intros [[[i' e'] r'] lg'] H. unfold I4. cbn. exact (W2 _ _ _ _ H). }
    destruct R as [R1 R2]. split; [exact R1|]. intros i e r lg H. exact (R2 _ H).
  Qed.

  (* assert_directory_verifies with any failure handler, any last_mtime *)
  Theorem assert_directory_verifies_safe l path pol lm : lshape l ->
    safe (assert_directory_verifies L decompress pgp_verify w l path pol lm).
  Proof.
    intros Hl. unfold assert_directory_verifies. destruct (get_file_entry_dict_safe l path true Hl) as [D1 D2].
    apply safe_bind; [exact D1|]. intros [l' ed] Hg. destruct (D2 _ _ Hg) as [Hl' Hed].
    set (c := mk_vctx (l_top l') (l_dev l') pol lm).
    destruct (walk_verify_safe c (nodes_fuel w) (walk_top path) path [] ed true [] Hed) as [W1 W2].
    apply safe_bind; [exact W1|]. intros [[[i ed'] ret] log] Hw. specialize (W2 _ _ _ _ Hw).
    apply safe_bind; [|intros; apply safe_ok].
    assert (Inner : forall (d : list N) fes acc, ddshape fes -> safe acc ->
              safe (fold_left (fun (acc2 : res (bool * list call)) (fe : list N * entry) =>
                       '(rt, lg) <- acc2 ;;
                       let fpath := pjoin d (fst fe) in
                       '(b, lg') <- verify_one L w c (pjoin rootdir fpath) fpath (Some (snd fe)) lg ;;
                       Ok (rt && b, lg')) fes acc)).
    { intros d. induction fes as [|fe fes IHf]; intros acc Hs Ha; [exact Ha|]. cbn [fold_left].
      apply IHf; [intros g e Hin; apply (Hs g e); right; exact Hin|].
      apply safe_bind; [exact Ha|]. intros [rt lg] _. cbv zeta. apply safe_bind; [|intros [b lg'] _; apply safe_ok].
      apply verify_one_safe. apply parsed_not_ts. destruct fe as [g e]. apply (Hs g e). left. reflexivity. }
    assert (G : forall items acc, (forall dd, In dd items -> ddshape (snd dd)) -> safe acc ->
              safe (fold_left (fun (acc : res (bool * list call)) (dd : list N * list (list N * entry)) =>
                     fold_left (fun (acc2 : res (bool * list call)) (fe : list N * entry) =>
                       '(rt, lg) <- acc2 ;;
                       let fpath := pjoin (fst dd) (fst fe) in
                       '(b, lg') <- verify_one L w c (pjoin rootdir fpath) fpath (Some (snd fe)) lg ;;
                       Ok (rt && b, lg')) (snd dd) acc) items acc)).
    { induction items as [|dd items IHi]; intros acc Hi Ha; [exact Ha|]. cbn [fold_left]. apply IHi; [intros x Hx; apply Hi; right; exact Hx|].
      apply Inner; [apply Hi; left; reflexivity|exact Ha]. }
    apply G; [|apply safe_ok]. intros [d dd] Hin g e Hge. exact (W2 _ _ _ _ Hin Hge).
  Qed.

  (* ---- any sequence of reading operations on one loader object ---- *)
  Inductive rop :=
  | RFind (path : list N) | RVerifyPath (path : list N) | RAssertPath (path : list N)
  | RDist (filename relpath : list N) | RTimestamp | RVerifyDir (path : list N) (pol : policy) (lm : option Z).
  Definition run_rop (l : loader) (o : rop) : res loader :=
    match o with
    | RFind p => '(l', _) <- find_path_entry_l L decompress pgp_verify w l p ;; Ok l'
    | RVerifyPath p => '(l', _) <- verify_path_l L decompress pgp_verify w l p ;; Ok l'
    | RAssertPath p => assert_path_verifies L decompress pgp_verify w l p
    | RDist f p => '(l', _) <- find_dist_entry_l L decompress pgp_verify w l f p ;; Ok l'
    | RTimestamp => '(l', _) <- find_timestamp_l L decompress pgp_verify w l ;; Ok l'
    | RVerifyDir p pol lm => '(l', _, _) <- assert_directory_verifies L decompress pgp_verify w l p pol lm ;; Ok l'
    end.
  Fixpoint run_rops (l : loader) (ops : list rop) : res loader :=
    match ops with [] => Ok l | o :: r => l' <- run_rop l o ;; run_rops l' r end.

  Lemma run_rop_safe l o : lshape l -> safe (run_rop l o) /\ forall l', run_rop l o = Ok l' -> lshape l'.
  Proof.
    intros Hl. destruct o as [p|p|p|f p| |p pol lm]; cbn [run_rop].
    - destruct (find_path_entry_safe l p Hl) as [F1 F2]. split; [apply safe_bind; [exact F1|intros [? ?] _; apply safe_ok]|].
      intros l'. destruct (find_path_entry_l L decompress pgp_verify w l p) as [[l1 e]|]; cbn [bind]; [|discriminate].
      intros H. inversion H; subst. apply (F2 _ _ eq_refl).
    - split; [apply safe_bind; [apply verify_path_l_safe; exact Hl|intros [? ?] _; apply safe_ok]|].
      intros l'. unfold verify_path_l. destruct (find_path_entry_safe l p Hl) as [F1 F2].
      destruct (find_path_entry_l L decompress pgp_verify w l p) as [[l1 e]|]; cbn [bind]; [|discriminate].
      destruct (Verify.verify_path L w (pjoin rootdir p) e None None); cbn [bind]; [|discriminate].
      intros H. inversion H; subst. apply (F2 _ _ eq_refl).
    - split; [apply assert_path_verifies_safe; exact Hl|]. intros l'. unfold assert_path_verifies.
      destruct (find_path_entry_safe l p Hl) as [F1 F2].
      destruct (find_path_entry_l L decompress pgp_verify w l p) as [[l1 e]|]; cbn [bind]; [|discriminate].
      destruct (Verify.verify_path L w (pjoin rootdir p) e (l_dev l1) None) as [[[] d]|]; cbn [bind]; try discriminate.
      intros H. inversion H; subst. apply (F2 _ _ eq_refl).
    - split; [apply safe_bind; [apply find_dist_entry_safe; exact Hl|intros [? ?] _; apply safe_ok]|].
      intros l'. unfold find_dist_entry_l. destruct (load_manifests_safe rounds_fuel l (p ++ [sl]) false true Hl) as [S1 S2].
      destruct (load_manifests_for_path L decompress pgp_verify rounds_fuel w l (p ++ [sl]) false true); cbn [bind]; [|discriminate].
      intros H. inversion H; subst. apply S2. reflexivity.
    - split; [apply safe_bind; [apply find_timestamp_safe; exact Hl|intros [? ?] _; apply safe_ok]|].
      intros l'. unfold find_timestamp_l. destruct (load_manifests_safe rounds_fuel l [] false true Hl) as [S1 S2].
      destruct (load_manifests_for_path L decompress pgp_verify rounds_fuel w l [] false true); cbn [bind]; [|discriminate].
      intros H. inversion H; subst. apply S2. reflexivity.
    - split; [apply safe_bind; [apply assert_directory_verifies_safe; exact Hl|intros [[? ?] ?] _; apply safe_ok]|].
      intros l'. unfold assert_directory_verifies. destruct (get_file_entry_dict_safe l p true Hl) as [D1 D2].
      destruct (get_file_entry_dict L decompress pgp_verify w l p None true) as [[l1 ed]|]; cbn [bind]; [|discriminate].
      destruct (D2 _ _ eq_refl) as [Hl1 _].
      destruct (walk_verify L (nodes_fuel w) w _ (walk_top p) p [] ed true []) as [[[[i e] r] lg]|]; cbn [bind]; [|discriminate].
      destruct (fold_left _ e (Ok (r, lg))) as [rr|]; cbn [bind]; [|discriminate].
      intros H. inversion H; subst. exact Hl1.
  Qed.

  Theorem read_ops_safe ops : forall l, lshape l -> safe (run_rops l ops).
  Proof.
    induction ops as [|o r IH]; intros l Hl; [apply safe_ok|]. cbn [run_rops]. destruct (run_rop_safe l o Hl) as [R1 R2].
    apply safe_bind; [exact R1|]. intros l' H. apply IH. apply R2. exact H.
  Qed.

  (* from the construction of the loader on: ManifestRecursiveLoader(...) followed by any reading operations *)
  Theorem loader_reading_safe top opts ac ax ops :
    safe (l <- new_loader L decompress pgp_verify w top opts ac ax ;; run_rops l ops).
  Proof.
    destruct (new_loader_safe top opts ac ax) as [N1 N2]. apply safe_bind; [exact N1|]. intros l H. apply read_ops_safe. apply N2. exact H.
  Qed.
End ReadSide.
