(* The translated gemato/util.py predicates compare by whole path components. *)
From Coq Require Import List NArith Bool Lia.
From Gemato Require Import Py.PyStr Gen.Util.
From Gemato Require Import Proofs.Basics.
Import ListNotations.
Open Scope N_scope.

Lemma snoc_cases (A : Type) (r : list A) : r = [] \/ exists r' a, r = r' ++ [a].
Proof.
  induction r as [|x r IH]; [left; reflexivity|right].
  destruct IH as [->|[r' [a ->]]]; [exists [], x|exists (x :: r'), a]; reflexivity.
Qed.

Definition slash : N := 47.
Definition starts_with_spec (path prefix : list N) : Prop :=
  prefix = [] \/ let q := py_rstrip prefix [slash] in path = q \/ exists r, path = q ++ slash :: r.

(* path_starts_with(path, prefix): prefix is empty, or path equals prefix (trailing slashes of
   the prefix ignored), or path continues after it with a slash: whole components only *)
Theorem path_starts_with_spec path prefix :
  path_starts_with path prefix = true <-> starts_with_spec path prefix.
Proof.
  unfold path_starts_with, starts_with_spec. rewrite orb_true_iff, ustr_eqb_eq, startswith_iff.
  fold slash. set (q := py_rstrip prefix [slash]). cbv zeta. split.
  - intros [H|[r H]]; [left; exact H|right].
    destruct (snoc_cases _ r) as [->|[r' [a ->]]].
    + left. rewrite app_nil_r in H. apply app_inv_tail in H. exact H.
    + right. exists r'. rewrite !app_assoc in H. apply app_inj_tail in H. destruct H as [H _].
      rewrite H, <- app_assoc. reflexivity.
  - intros [H|[H|[r H]]]; [left; exact H|right; exists []; rewrite H, app_nil_r; reflexivity|right].
    exists (r ++ [slash]). rewrite H. rewrite <- !app_assoc. reflexivity.
Qed.

(* a string-prefix look-alike is not a prefix: "foobar" does not start with "foo" *)
Corollary lookalike_not_prefix path prefix c r :
  prefix <> [] -> py_rstrip prefix [slash] = prefix -> c <> slash ->
  path = prefix ++ c :: r -> path_starts_with path prefix = false.
Proof.
  intros Hne Hq Hc Hp. destruct (path_starts_with path prefix) eqn:E; [|reflexivity].
  apply path_starts_with_spec in E. unfold starts_with_spec in E. rewrite Hq in E.
  destruct E as [E|[E|[r' E]]]; [congruence| |].
  - rewrite Hp in E. rewrite <- (app_nil_r prefix) in E at 2. apply app_inv_head in E. discriminate.
  - rewrite Hp in E. apply app_inv_head in E. inversion E. congruence.
Qed.

Definition inside_dir_spec (path directory : list N) : Prop :=
  (directory = [] /\ path <> []) \/
  exists r, py_rstrip path [slash] = py_rstrip directory [slash] ++ slash :: r.

Theorem path_inside_dir_spec path directory :
  path_inside_dir path directory = true <-> inside_dir_spec path directory.
Proof.
  unfold path_inside_dir, inside_dir_spec. rewrite orb_true_iff, andb_true_iff, negb_true_iff,
    ustr_eqb_eq, ustr_eqb_neq, startswith_iff. fold slash.
  split; (intros [H|[r H]]; [left; exact H|right; exists r]).
  - rewrite H, <- app_assoc. reflexivity.
  - rewrite H, <- app_assoc. reflexivity.
Qed.
