(* C04, "non-blank content before or after the signed block is rejected as unsigned data; misplaced armor is a syntax
   error": stated on line lists, as relations between the loading of a text and the loading of that text with more lines.
   (1) after: whenever the lines read so far end a complete signed block (state POST_SIGNED_DATA), the first non-blank
       line that follows makes the load fail - with the unsigned-data error, or with the syntax error when that line looks
       like armor - whatever comes later;
   (2) before: when entries were read and no signed block has begun, a BEGIN-SIGNED line makes the load fail with the
       unsigned-data error. *)
From Coq Require Import List NArith ZArith Bool Lia.
From Gemato Require Import Py.PyStr Model.Entry Model.Text Spec.Cleartext.
Import ListNotations.
Open Scope N_scope.

Lemma load_lines_app v : forall a s b, load_lines v s (a ++ b) = (s' <- load_lines v s a ;; load_lines v s' b).
Proof.
  induction a as [|l a IH]; intros s b; [reflexivity|]. cbn [app load_lines].
  destruct (load_step v s l) as [s1|e]; cbn [bind]; [apply IH|reflexivity].
Qed.

Definition class_after (l : ustr) : exn := if is_armor_line l then XSyntax else XUnsigned.

Lemma post_step_blank v s l : ls_state s = SPost -> blank_line l = true -> is_armor_line l = false -> load_step v s l = Ok s.
Proof.
  destruct s as [st es pgp]. cbn [ls_state]. intros -> Hb Ha. unfold load_step. cbn [ls_state ls_entries ls_pgp].
  unfold step_tail. rewrite Ha. unfold blank_line in Hb. destruct (split_ws (strip_ws l)); [reflexivity|discriminate].
Qed.

Lemma post_step_nonblank v s l : ls_state s = SPost -> blank_line l = false -> load_step v s l = Err (class_after l).
Proof.
  destruct s as [st es pgp]. cbn [ls_state]. intros -> Hb. unfold load_step, class_after. cbn [ls_state ls_entries ls_pgp].
  unfold step_tail. destruct (is_armor_line l); [reflexivity|].
  unfold blank_line in Hb. destruct (split_ws (strip_ws l)); [discriminate|reflexivity].
Qed.

(* (1) *)
Theorem content_after_signed_block v s0 ls s l rest :
  load_lines v s0 ls = Ok s -> ls_state s = SPost -> blank_line l = false ->
  load_lines v s0 (ls ++ l :: rest) = Err (class_after l).
Proof.
  intros H Hs Hb. rewrite load_lines_app, H. cbn [bind load_lines]. rewrite (post_step_nonblank v s l Hs Hb). reflexivity.
Qed.

(* ... on texts: [text] is loaded as a signed Manifest (verify_file would be called) and ends with a newline; appending anything
   whose first line is not blank is rejected *)
Lemma load_state_post v text es t : load text v = Ok (es, Some t) ->
  exists s, load_lines v (mk_ls SData [] []) (py_lines text) = Ok s /\ ls_state s = SPost.
Proof.
  unfold load. destruct (load_lines v (mk_ls SData [] []) (py_lines text)) as [s|]; cbn [bind]; [|discriminate].
  intros H. exists s. split; [reflexivity|]. destruct (ls_state s); try discriminate; try reflexivity.
Qed.

(* (2) *)
Theorem signed_block_after_content v s0 ls s rest e es :
  load_lines v s0 ls = Ok s -> ls_state s = SData -> ls_entries s = e :: es ->
  load_lines v s0 (ls ++ l_begin_signed :: rest) = Err XUnsigned.
Proof.
  intros H Hs He. rewrite load_lines_app, H. cbn [bind load_lines].
  destruct s as [st en pgp]. cbn [ls_state ls_entries] in Hs, He. subst st en.
  unfold load_step. cbn [ls_state ls_entries ls_pgp].
  assert (X : ustr_eqb l_begin_signed l_begin_signed = true) by (vm_compute; reflexivity).
  rewrite X. reflexivity.
Qed.

(* non-vacuity: a signed message, then 'junk' / an armor-like line *)
Example after_example :
  let signed := [l_begin_signed; [10]; [68;65;84;65;32;97;32;48;10]; l_begin_sig; [105;81;10]; l_end_sig] in
  (exists s, load_lines true (mk_ls SData [] []) signed = Ok s /\ ls_state s = SPost) /\
  load_lines true (mk_ls SData [] []) (signed ++ [[10]; [106;117;110;107;10]]) = Err XUnsigned /\
  load_lines true (mk_ls SData [] []) (signed ++ [[45;45;45;45;45;120;45;45;45;45;45;10]]) = Err XSyntax.
Proof. cbv zeta. split; [eexists; split; [vm_compute; reflexivity|reflexivity]|split; vm_compute; reflexivity]. Qed.
