(* C16, through the whole walk: a directory verification that returns has met no directory whose identity (st_dev, st_ino) is that
   of one of its own ancestors on the way from the start - a symbolic link that leads back to an ancestor is never walked into and
   accepted: the walk ends with the symlink-loop error (or an earlier error) instead.  The directories are those reached from the
   start through listed sub-directories that are not hidden and have no entry ([reachc] also records the identities of the
   directories passed).  Stated for a start path without a trailing slash (a sub-directory of the tree); for the top directory the
   model, like os.walk's caller, keys the identity map by "<root>/" and the check of the first level starts one level lower
   (see WalkTerm.v, "start-directory key quirk": the loop is still raised, one level deeper). *)
From Coq Require Import List NArith ZArith Bool Lia Arith.
From Gemato Require Import Py.PyStr Py.PyPath Gen.Tables Model.Entry Model.Text Model.OpenPGP Model.Hash Model.FS
  Model.Verify Model.Loader.
From Gemato Require Import Proofs.Basics Proofs.DirSpec Proofs.OnlyOffending Proofs.WalkTerm Proofs.WalkComplete.
Import ListNotations.
Open Scope N_scope.

Section NL.
  Variable L : hashlib.
  Variable w : world.
  Hypothesis Hw : wf_world w.
  Variable c : vctx.
  Variable ed0 : edict.

  (* reach, with the identities of the directories passed on the way *)
  Inductive reachc : list N -> list N -> list (N * N) -> list N -> list N -> list (N * N) -> Prop :=
  | reachc_here dp rel anc : reachc dp rel anc dp rel anc
  | reachc_down dp rel anc ents st d dp' rel' anc' :
      p_scandir w dp = Ok ents -> p_stat w dp = Ok st -> In d (map fst (filter snd ents)) -> py_startswith d [46] = false ->
      no_entry_for ed0 rel d ->
      reachc (pjoin dp d) (pjoin rel d) (anc ++ [(st_dev st, st_ino st)]) dp' rel' anc' ->
      reachc dp rel anc dp' rel' anc'.

  Definition fresh_identity (dp : list N) (anc : list (N * N)) : Prop :=
    forall st, p_stat w dp = Ok st -> ~ In (st_dev st, st_ino st) anc.

  (* the entry dictionary only shrinks during the walk *)
  Lemma walk_ed_shrinks f : forall X rel ids ed ret log ids' ed' ret' log',
    walk_verify L f w c X rel ids ed ret log = Ok (ids', ed', ret', log') -> forall x, In x ed' -> In x ed.
  Proof.
    induction f as [|f IH]; intros X rel ids ed ret log ids' ed' ret' log' H; [discriminate|].
    cbn [walk_verify] in H.
    destruct (p_scandir w X) as [ents|]; cbn [bind] in H; [|discriminate].
    destruct (p_stat w X) as [dst|]; cbn [bind] in H; [|discriminate].
    destruct (match vc_dev c with Some d => negb (st_dev dst =? d) | None => false end); [discriminate|].
    destruct (existsb _ _); [discriminate|].
    destruct (fold_left _ (map fst (filter snd ents)) ([], _)) as [keep dirdict1].
    destruct (verify_dir L w c X rel keep _ dirdict1 log) as [[b log1]|]; cbn [bind] in H; [|discriminate].
    fold (child_fold L w f c X rel keep (Ok (match keep with [] => ids | _ :: _ => dict_set X (match assoc (dirname X) ids with Some x => x | None => [] end ++ [(st_dev dst, st_ino dst)]) ids end, dict_del rel ed, ret && b, log1))) in H.
    assert (G : forall ds i0 e0 r0 l0 i1 e1 r1 l1,
      child_fold L w f c X rel ds (Ok (i0, e0, r0, l0)) = Ok (i1, e1, r1, l1) -> forall x, In x e1 -> In x e0).
    { induction ds as [|d ds IHd]; intros i0 e0 r0 l0 i1 e1 r1 l1 Hd x Hx; [cbn in Hd; inversion Hd; subst; exact Hx|].
      cbn [child_fold fold_left bind] in Hd.
      destruct (walk_verify L f w c (pjoin X d) (pjoin rel d) i0 e0 r0 l0) as [[[[i2 e2] r2] l2]|e] eqn:Ew.
      - fold (child_fold L w f c X rel ds (Ok (i2, e2, r2, l2))) in Hd. eapply IH; [exact Ew|]. eapply IHd; eassumption.
      - fold (child_fold L w f c X rel ds (Err e)) in Hd. rewrite child_fold_err in Hd. discriminate. }
    intros x Hx. eapply in_dict_del_sub. eapply G; eassumption.
  Qed.

  Lemma walk_no_loop f : forall X rel ids ed ret log ids' ed' ret' log',
    walk_verify L f w c X rel ids ed ret log = Ok (ids', ed', ret', log') ->
    no_trailing_slash X -> ids_ok w ids -> sub_ed0 ed0 ed ->
    forall X' rel' anc', reachc X rel (plist ids X) X' rel' anc' -> fresh_identity X' anc'.
  Proof.
    induction f as [|f IH]; intros X rel ids ed ret log ids' ed' ret' log' H HX Hok Hsub X' rel' anc' Hr; [discriminate|].
    pose proof (proj1 HX) as HXne.
    cbn [walk_verify] in H.
    destruct (p_scandir w X) as [ents|] eqn:Es; cbn [bind] in H; [|discriminate].
    destruct (p_stat w X) as [dst|] eqn:Et; cbn [bind] in H; [|discriminate].
    destruct (match vc_dev c with Some d => negb (st_dev dst =? d) | None => false end); [discriminate|].
    set (id := (st_dev dst, st_ino dst)) in *.
    fold (plist ids X) in H. set (P := plist ids X) in *.
    destruct (existsb _ P) eqn:El; [discriminate|].
    set (dirdict := match assoc rel ed with Some d => d | None => [] end) in *.
    destruct (fold_left _ (map fst (filter snd ents)) ([], dirdict)) as [keep dirdict1] eqn:Ek.
    destruct (prune_spec _ _ _ _ _ Ek) as [_ [K2 _]].
    destruct (verify_dir L w c X rel keep _ dirdict1 log) as [[b log1]|]; cbn [bind] in H; [|discriminate].
    set (ids1 := match keep with [] => ids | _ :: _ => dict_set X (P ++ [id]) ids end) in *.
    assert (HP : NoDup P /\ incl P (dirids w)).
    { unfold P, plist. destruct (assoc (dirname X) ids) as [x|] eqn:E; [apply (Hok _ _ E)|split; [constructor|intros a []]]. }
    assert (Hok1 : ids_ok w ids1).
    { unfold ids1. destruct keep; [exact Hok|]. intros k Q Hk.
      destruct (ustr_eqb k X) eqn:E.
      - apply ustr_eqb_eq in E. subst k. rewrite dict_set_get in Hk. inversion Hk; subst Q. split.
        + apply NoDup_app_snoc. split; [apply HP|apply existsb_id_false; exact El].
        + intros a Ha. apply in_app_or in Ha. destruct Ha as [Ha|[<-|[]]]; [apply HP; exact Ha|].
          eapply scandir_stat_dirid; eassumption.
      - rewrite dict_set_other in Hk by exact E. apply (Hok _ _ Hk). }
    assert (Hnames : forall d, In d keep -> valid_name d).
    { intros d Hd. destruct (keep_subset _ _ _ _ _ Ek d Hd) as [[]|Hin].
      apply in_map_iff in Hin. destruct Hin as [[n b0] [E Hin]]. cbn in E. subst n. apply filter_In in Hin.
      eapply scandir_names; [exact Hw|exact Es|apply Hin]. }
    fold (child_fold L w f c X rel keep (Ok (ids1, dict_del rel ed, ret && b, log1))) in H.
    (* the recursion: every kept child is walked with the identities of X's ancestors and of X recorded for it *)
    assert (G : forall ds i0 e0 r0 l0 i1 e1 r1 l1,
      (forall d, In d ds -> valid_name d) -> ids_ok w i0 -> sub_ed0 ed0 e0 -> (ds <> [] -> assoc X i0 = Some (P ++ [id])) ->
      child_fold L w f c X rel ds (Ok (i0, e0, r0, l0)) = Ok (i1, e1, r1, l1) ->
      forall d, In d ds -> forall X' rel' anc', reachc (pjoin X d) (pjoin rel d) (P ++ [id]) X' rel' anc' -> fresh_identity X' anc').
    { induction ds as [|d ds IHd]; intros i0 e0 r0 l0 i1 e1 r1 l1 Hn Hoki Hsubi HXi Hd; [intros d []|].
      cbn [child_fold fold_left bind] in Hd.
      destruct (walk_verify L f w c (pjoin X d) (pjoin rel d) i0 e0 r0 l0) as [[[[i2 e2] r2] l2]|e] eqn:Ew.
      2:{ fold (child_fold L w f c X rel ds (Err e)) in Hd. rewrite child_fold_err in Hd. discriminate. }
      fold (child_fold L w f c X rel ds (Ok (i2, e2, r2, l2))) in Hd.
      assert (Hvd : valid_name d) by (apply Hn; left; reflexivity).
      assert (HX' : no_trailing_slash (pjoin X d)) by (apply pjoin_no_trailing; assumption).
      assert (Hpl : plist i0 (pjoin X d) = P ++ [id]).
      { unfold plist. rewrite (dirname_pjoin X d HX Hvd). rewrite HXi by discriminate. reflexivity. }
      destruct (walk_ids L w Hw f _ _ _ _ _ _ _ _ _ _ _ Ew (proj1 HX') Hoki) as [Hok2 Hk2].
      intros d' [<-|Hin] X'' rel'' anc'' Hr'.
      - rewrite <- Hpl in Hr'. eapply IH; [exact Ew|exact HX'|exact Hoki|exact Hsubi|exact Hr'].
      - eapply (IHd i2 e2 r2 l2 i1 e1 r1 l1); [intros d0 H0; apply Hn; right; exact H0|exact Hok2| | |exact Hd|exact Hin|exact Hr'].
        + intros x Hx. apply Hsubi. eapply walk_ed_shrinks; eassumption.
        + intros _. rewrite Hk2; [apply HXi; discriminate|]. pose proof (pjoin_longer X d HXne Hvd). lia. }
    inversion Hr as [|? ? ? ents' st' d ? ? ? R1 R0 R2 R3 R4 R5]; subst.
    - intros st Hst. rewrite Et in Hst. inversion Hst; subst st. apply existsb_id_false. exact El.
    - rewrite Es in R1. inversion R1; subst ents'. rewrite Et in R0. inversion R0; subst st'.
      assert (Hdk : In d keep).
      { apply K2; [exact R2|exact R3|]. unfold dirdict. destruct (assoc rel ed) as [dd|] eqn:Ea; [|reflexivity].
        apply R4. apply Hsub. apply assoc_in. exact Ea. }
      eapply (G keep _ _ _ _ _ _ _ _ Hnames Hok1); [| |exact H|exact Hdk|exact R5].
      + intros x Hx. apply Hsub. eapply in_dict_del_sub. exact Hx.
      + intros _. unfold ids1. destruct keep; [destruct Hdk|]. apply dict_set_get.
  Qed.
End NL.

(* the whole operation, for a sub-directory of the tree *)
Theorem verification_walks_into_no_loop (L : hashlib) decompress pgp_verify w l path pol lm l' b log :
  wf_world w -> no_trailing_slash (walk_top path) ->
  assert_directory_verifies L decompress pgp_verify w l path pol lm = Ok (l', b, log) ->
  exists ed, get_file_entry_dict L decompress pgp_verify w l path None true = Ok (l', ed) /\
    forall dp rel anc, reachc w ed (walk_top path) path [] dp rel anc ->
      forall st, p_stat w dp = Ok st -> ~ In (st_dev st, st_ino st) anc.
Proof.
  intros Hw Hp. unfold assert_directory_verifies.
  destruct (get_file_entry_dict L decompress pgp_verify w l path None true) as [[l1 ed]|]; cbn [bind]; [|discriminate].
  set (c := mk_vctx (l_top l1) (l_dev l1) pol lm).
  destruct (walk_verify L (nodes_fuel w) w c _ path [] ed true []) as [[[[ids' ed'] ret] lg]|] eqn:Ew; cbn [bind]; [|discriminate].
  match goal with |- context [bind ?x _] => destruct x as [[r9 l9]|] end; cbn [bind]; [|discriminate].
  intros H. inversion H; subst. exists ed. split; [reflexivity|].
  intros dp rel anc Hr. eapply (walk_no_loop L w Hw c ed _ _ _ _ _ _ _ _ _ _ _ Ew Hp); [intros k P Hk; discriminate|intros x Hx; exact Hx|exact Hr].
Qed.
