(* C12 (canonical output): sorted() of two permutations of the same elements is the same list, provided the
   order is a strict weak order under which no two distinct elements are equivalent.  Instantiated for the
   string order (checksum names) and for Manifest entries ordered by (tag, path | timestamp). *)
From Coq Require Import List NArith ZArith Bool Lia Permutation Sorted.
From Gemato Require Import Py.PyStr Py.PyTime Gen.Tables Model.Entry Proofs.Basics.
Import ListNotations.
Open Scope N_scope.

Section Generic.
  Variable A : Type.
  Variable ltb : A -> A -> bool.
  Variable P : A -> Prop.                 (* the elements the order is well-behaved on *)
  Definition le (a b : A) : Prop := ltb b a = false.
  Hypothesis asym : forall a b, P a -> P b -> ltb a b = true -> ltb b a = false.
  Hypothesis le_trans : forall a b c, P a -> P b -> P c -> le a b -> le b c -> le a c.

  Lemma insert_in x l y : In y (insert_sorted ltb x l) <-> y = x \/ In y l.
  Proof.
    induction l as [|z r IH]; cbn [insert_sorted]; [cbn; intuition|].
    destruct (ltb z x); cbn [In]; [rewrite IH|]; intuition.
  Qed.
  Lemma insert_P x l : P x -> Forall P l -> Forall P (insert_sorted ltb x l).
  Proof.
    intros Hx Hl. apply Forall_forall. intros y Hy. apply insert_in in Hy. destruct Hy as [->|Hy]; [exact Hx|].
    rewrite Forall_forall in Hl. auto.
  Qed.
  Lemma insert_sorted_ok x l : P x -> Forall P l -> StronglySorted le l -> StronglySorted le (insert_sorted ltb x l).
  Proof.
    intros Hx. induction l as [|y r IH]; intros HP Hs; cbn [insert_sorted].
    - constructor; constructor.
    - inversion Hs as [|? ? Hs' Hall]; subst. inversion HP as [|? ? Py Pr]; subst.
      destruct (ltb y x) eqn:E.
      + constructor; [apply IH; assumption|]. apply Forall_forall. intros z Hz. apply insert_in in Hz.
        destruct Hz as [->|Hz]; [apply asym; assumption|]. rewrite Forall_forall in Hall. auto.
      + constructor; [exact Hs|]. constructor; [exact E|].
        apply Forall_forall. intros z Hz. rewrite Forall_forall in Hall, Pr.
        apply (le_trans x y z); auto.
  Qed.
  Lemma py_sorted_P l : Forall P l -> Forall P (py_sorted ltb l).
  Proof.
    intros H. apply Forall_forall. intros y Hy. rewrite Forall_forall in H. apply H.
    eapply Permutation_in; [apply py_sorted_perm|exact Hy].
  Qed.
  Theorem py_sorted_sorted l : Forall P l -> StronglySorted le (py_sorted ltb l).
  Proof.
    induction l as [|x l IH]; intros H; [constructor|].
    inversion H; subst. unfold py_sorted. cbn [fold_right]. apply insert_sorted_ok; [assumption|apply py_sorted_P; assumption|apply IH; assumption].
  Qed.

  (* two sorted arrangements of the same elements coincide when equivalent elements are equal *)
  Theorem sorted_unique l1 : forall l2,
    StronglySorted le l1 -> StronglySorted le l2 -> Permutation l1 l2 ->
    (forall a b, In a l1 -> In b l1 -> le a b -> le b a -> a = b) -> l1 = l2.
  Proof.
    induction l1 as [|a r1 IH]; intros l2 S1 S2 Hp Hanti.
    - apply Permutation_nil in Hp. subst. reflexivity.
    - destruct l2 as [|b r2]; [apply Permutation_sym, Permutation_nil in Hp; discriminate|].
      inversion S1 as [|? ? S1' F1]; subst. inversion S2 as [|? ? S2' F2]; subst.
      assert (a = b) as ->.
      { assert (Hb : In b (a :: r1)) by (eapply Permutation_in; [apply Permutation_sym; exact Hp|left; reflexivity]).
        assert (Ha : In a (b :: r2)) by (eapply Permutation_in; [exact Hp|left; reflexivity]).
        destruct Hb as [->|Hb]; [reflexivity|]. destruct Ha as [->|Ha]; [reflexivity|].
        rewrite Forall_forall in F1, F2. apply Hanti; [left; reflexivity|right; exact Hb|apply F1; exact Hb|apply F2; exact Ha]. }
      f_equal. apply IH; [assumption|assumption|eapply Permutation_cons_inv; exact Hp|].
      intros x y Hx Hy. apply Hanti; right; assumption.
  Qed.

  Theorem py_sorted_canonical l1 l2 :
    Forall P l1 -> Permutation l1 l2 ->
    (forall a b, In a l1 -> In b l1 -> le a b -> le b a -> a = b) ->
    py_sorted ltb l1 = py_sorted ltb l2.
  Proof.
    intros HP Hp Hanti. assert (HP2 : Forall P l2).
    { apply Forall_forall. intros y Hy. rewrite Forall_forall in HP. apply HP. eapply Permutation_in; [apply Permutation_sym; exact Hp|exact Hy]. }
    apply sorted_unique; [apply py_sorted_sorted; assumption|apply py_sorted_sorted; assumption| |].
    - eapply Permutation_trans; [apply py_sorted_perm|]. eapply Permutation_trans; [exact Hp|apply Permutation_sym, py_sorted_perm].
    - intros a b Ha Hb. apply Hanti; [apply (Permutation_in _ (py_sorted_perm ltb l1)); exact Ha|apply (Permutation_in _ (py_sorted_perm ltb l1)); exact Hb].
  Qed.

  (* sorting a sorted list changes nothing: a second sorted dump is identical *)
  Theorem py_sorted_idem l : Forall P l ->
    (forall a b, In a l -> In b l -> le a b -> le b a -> a = b) ->
    py_sorted ltb (py_sorted ltb l) = py_sorted ltb l.
  Proof.
    intros HP Hanti. symmetry. apply py_sorted_canonical; [assumption|apply Permutation_sym, py_sorted_perm|assumption].
  Qed.
End Generic.

(* ---- the string order ---- *)
Lemma ustr_ltb_irrefl a : ustr_ltb a a = false.
Proof. induction a as [|x a IH]; [reflexivity|]. cbn [ustr_ltb]. rewrite N.ltb_irrefl, N.eqb_refl, IH. reflexivity. Qed.
Lemma ustr_ltb_asym a : forall b, ustr_ltb a b = true -> ustr_ltb b a = false.
Proof.
  induction a as [|x a IH]; intros [|y b] H; try reflexivity; try discriminate.
  cbn [ustr_ltb] in *. destruct (x <? y) eqn:E1.
  - assert (y <? x = false) as -> by lia. assert (y =? x = false) as -> by lia. reflexivity.
  - cbn [orb] in H. apply andb_true_iff in H. destruct H as [E2 H]. apply N.eqb_eq in E2. subst y.
    rewrite N.ltb_irrefl, N.eqb_refl. cbn. apply IH. exact H.
Qed.
Lemma ustr_tricho a : forall b, ustr_ltb a b = false -> ustr_ltb b a = false -> a = b.
Proof.
  induction a as [|x a IH]; intros [|y b] H1 H2; try reflexivity; try discriminate.
  cbn [ustr_ltb] in *. apply orb_false_iff in H1, H2. destruct H1 as [A1 B1], H2 as [A2 B2].
  assert (x = y) by lia. subst y. rewrite N.eqb_refl in B1, B2. cbn in B1, B2. f_equal. apply IH; assumption.
Qed.
Lemma ustr_ltb_trans a : forall b c, ustr_ltb a b = true -> ustr_ltb b c = true -> ustr_ltb a c = true.
Proof.
  induction a as [|x a IH]; intros [|y b] [|z c] H1 H2; try reflexivity; try discriminate.
  cbn [ustr_ltb] in *. apply orb_true_iff in H1, H2. apply orb_true_iff.
  destruct H1 as [H1|H1], H2 as [H2|H2].
  - left. lia.
  - apply andb_true_iff in H2. destruct H2 as [E _]. left. lia.
  - apply andb_true_iff in H1. destruct H1 as [E _]. left. lia.
  - apply andb_true_iff in H1, H2. destruct H1 as [E1 H1], H2 as [E2 H2]. right. apply andb_true_iff. split; [lia|eapply IH; eassumption].
Qed.
Lemma ustr_le_trans a b c : ustr_ltb b a = false -> ustr_ltb c b = false -> ustr_ltb c a = false.
Proof.
  intros H1 H2. destruct (ustr_ltb c a) eqn:E; [|reflexivity]. exfalso.
  (* c < a, not b < a, not c < b:  a <= b <= c < a *)
  destruct (ustr_ltb a b) eqn:E1.
  - pose proof (ustr_ltb_trans _ _ _ E E1) as T. congruence.
  - assert (a = b) by (apply ustr_tricho; assumption). subst b. congruence.
Qed.
Lemma ustr_eqb_eq a b : ustr_eqb a b = true <-> a = b.
Proof.
  split.
  - revert b. induction a as [|x a IH]; intros [|y b] H; try reflexivity; try discriminate.
    cbn in H. apply andb_true_iff in H. destruct H as [E H]. apply N.eqb_eq in E. subst. f_equal. auto.
  - intros <-. induction a as [|x a IH]; [reflexivity|]. cbn. rewrite N.eqb_refl, IH. reflexivity.
Qed.

(* sorted() of strings is canonical: e.g. the checksum names of an entry *)
Theorem sorted_strs_canonical l1 l2 : Permutation l1 l2 -> py_sorted ustr_ltb l1 = py_sorted ustr_ltb l2.
Proof.
  intros Hp. apply (py_sorted_canonical _ ustr_ltb (fun _ => True)).
  - intros a b _ _. apply ustr_ltb_asym.
  - intros a b c _ _ _. unfold le. apply ustr_le_trans.
  - apply Forall_forall. intros; exact I.
  - exact Hp.
  - intros a b _ _. unfold le. intros H1 H2. apply ustr_tricho; assumption.
Qed.

(* ---- Manifest entries ---- *)
(* entries as the sort sees them: tag text, then timestamp (TIMESTAMP) or path *)
Definition ekey (e : entry) : ustr * (N + ustr) :=
  (tag_str (e_tag e), match e with ETs d => inl (dt_key d) | _ => inr (e_path e) end).
(* entry values the parser can produce: the TIMESTAMP tag only on timestamp entries *)
Definition wfe (e : entry) : Prop := match e with EFile TTIMESTAMP _ _ _ _ => False | _ => True end.

Definition k2_ltb (a b : N + ustr) : bool :=
  match a, b with
  | inl x, inl y => x <? y
  | inr p, inr q => ustr_ltb p q
  | inl _, inr _ => true
  | inr _, inl _ => false
  end.
Definition key_ltb (a b : ustr * (N + ustr)) : bool :=
  ustr_ltb (fst a) (fst b) || (ustr_eqb (fst a) (fst b) && k2_ltb (snd a) (snd b)).

Lemma tag_str_inj t1 t2 : ustr_eqb (tag_str t1) (tag_str t2) = true -> t1 = t2.
Proof. destruct t1, t2; vm_compute; intros H; try reflexivity; discriminate H. Qed.

Lemma entry_ltb_key a b : wfe a -> wfe b -> entry_ltb a b = key_ltb (ekey a) (ekey b).
Proof.
  intros Wa Wb. unfold entry_ltb, key_ltb, ekey. cbn [fst snd].
  destruct (ustr_ltb (tag_str (e_tag a)) (tag_str (e_tag b))); [reflexivity|]. cbn [orb].
  destruct (ustr_eqb (tag_str (e_tag a)) (tag_str (e_tag b))) eqn:E; [|reflexivity]. cbn [andb].
  apply tag_str_inj in E.
  destruct a as [x|p|t p ax s c], b as [y|q|t' q ay s' c']; cbn [k2_ltb e_path e_tag] in *; try reflexivity; try discriminate E;
    subst; contradiction.
Qed.

Lemma k2_asym a b : k2_ltb a b = true -> k2_ltb b a = false.
Proof. destruct a, b; cbn; intros H; try reflexivity; try discriminate; [lia|apply ustr_ltb_asym; exact H]. Qed.
Lemma k2_tricho a b : k2_ltb a b = false -> k2_ltb b a = false -> a = b.
Proof. destruct a, b; cbn; intros H1 H2; try discriminate; [f_equal; lia|f_equal; apply ustr_tricho; assumption]. Qed.
Lemma k2_le_trans a b c : k2_ltb b a = false -> k2_ltb c b = false -> k2_ltb c a = false.
Proof.
  destruct a, b, c; cbn; intros H1 H2; try reflexivity; try discriminate; [lia|eapply ustr_le_trans; eassumption].
Qed.

Lemma key_asym a b : key_ltb a b = true -> key_ltb b a = false.
Proof.
  destruct a as [a1 a2], b as [b1 b2]. unfold key_ltb. cbn [fst snd]. intros H.
  apply orb_true_iff in H. apply orb_false_iff. destruct H as [H|H].
  - split; [apply ustr_ltb_asym; exact H|]. destruct (ustr_eqb b1 a1) eqn:E; [|reflexivity].
    apply ustr_eqb_eq in E. subst. rewrite ustr_ltb_irrefl in H. discriminate.
  - apply andb_true_iff in H. destruct H as [E H]. apply ustr_eqb_eq in E. subst.
    rewrite ustr_ltb_irrefl. split; [reflexivity|]. rewrite (proj2 (ustr_eqb_eq b1 b1) eq_refl). cbn. apply k2_asym. exact H.
Qed.
Lemma key_le_inv a b : key_ltb b a = false ->
  ustr_ltb (fst b) (fst a) = false /\ (fst a = fst b -> k2_ltb (snd b) (snd a) = false).
Proof.
  unfold key_ltb. intros H. apply orb_false_iff in H. destruct H as [H1 H2]. split; [exact H1|].
  intros E. rewrite E in H2. rewrite (proj2 (ustr_eqb_eq _ _) eq_refl) in H2. exact H2.
Qed.
Lemma key_le_trans a b c : key_ltb b a = false -> key_ltb c b = false -> key_ltb c a = false.
Proof.
  intros H1 H2. apply key_le_inv in H1, H2. destruct H1 as [A1 B1], H2 as [A2 B2].
  unfold key_ltb. apply orb_false_iff. split; [eapply ustr_le_trans; eassumption|].
  destruct (ustr_eqb (fst c) (fst a)) eqn:E; [|reflexivity]. cbn [andb]. apply ustr_eqb_eq in E.
  (* fst a <= fst b <= fst c = fst a: all equal *)
  assert (Hab : fst a = fst b) by (apply ustr_tricho; [rewrite <- E; exact A2|exact A1]).
  eapply k2_le_trans; [apply B1; exact Hab|apply B2; congruence].
Qed.
Lemma key_tricho a b : key_ltb a b = false -> key_ltb b a = false -> a = b.
Proof.
  intros H1 H2. apply key_le_inv in H1, H2. destruct H1 as [A1 B1], H2 as [A2 B2].
  assert (E : fst a = fst b) by (apply ustr_tricho; assumption).
  destruct a, b; cbn [fst snd] in *. subst. f_equal. apply k2_tricho; [apply B1|apply B2]; reflexivity.
Qed.

Definition cmp_ie (a b : N * entry) : bool := entry_ltb (snd a) (snd b).

(* the sorted dump is canonical: two arrangements of the same entries (with whatever object identities) are
   dumped in the same order, provided no two distinct entries share (tag, path | timestamp) *)
Theorem sorted_entries_canonical (l1 l2 : list (N * entry)) :
  Forall (fun ie => wfe (snd ie)) l1 -> Permutation l1 l2 ->
  (forall a b, In a l1 -> In b l1 -> ekey (snd a) = ekey (snd b) -> a = b) ->
  py_sorted cmp_ie l1 = py_sorted cmp_ie l2.
Proof.
  intros HP Hp Hk. apply (py_sorted_canonical _ cmp_ie (fun ie => wfe (snd ie))); try assumption.
  - intros a b Pa Pb. unfold cmp_ie. rewrite !entry_ltb_key by assumption. apply key_asym.
  - intros a b c Pa Pb Pc. unfold le, cmp_ie. rewrite !entry_ltb_key by assumption. apply key_le_trans.
  - intros a b Ha Hb. unfold le, cmp_ie. rewrite Forall_forall in HP. rewrite !entry_ltb_key by (apply HP; assumption).
    intros H1 H2. apply Hk; [assumption|assumption|]. apply key_tricho; assumption.
Qed.

Theorem sorted_entries_idem (l : list (N * entry)) :
  Forall (fun ie => wfe (snd ie)) l ->
  (forall a b, In a l -> In b l -> ekey (snd a) = ekey (snd b) -> a = b) ->
  py_sorted cmp_ie (py_sorted cmp_ie l) = py_sorted cmp_ie l.
Proof.
  intros HP Hk. symmetry. apply sorted_entries_canonical; [assumption|apply Permutation_sym, py_sorted_perm|assumption].
Qed.

(* ---- object identities do not matter: sorting (id, entry) pairs by the entry and forgetting the ids is sorting the entries ---- *)
Lemma map_insert_sorted (x : N * entry) l :
  map snd (insert_sorted cmp_ie x l) = insert_sorted entry_ltb (snd x) (map snd l).
Proof.
  induction l as [|y l IH]; [reflexivity|]. cbn [insert_sorted map]. unfold cmp_ie at 1.
  destruct (entry_ltb (snd y) (snd x)); cbn [map]; [rewrite IH|]; reflexivity.
Qed.
Lemma map_py_sorted l : map snd (py_sorted cmp_ie l) = py_sorted entry_ltb (map snd l).
Proof.
  unfold py_sorted. induction l as [|x l IH]; [reflexivity|]. cbn [fold_right map].
  rewrite map_insert_sorted, IH. reflexivity.
Qed.

Lemma entry_order_swo :
  (forall a b, wfe a -> wfe b -> entry_ltb a b = true -> entry_ltb b a = false) /\
  (forall a b c, wfe a -> wfe b -> wfe c -> le entry entry_ltb a b -> le entry entry_ltb b c -> le entry entry_ltb a c).
Proof.
  split.
  - intros a b Wa Wb. rewrite !entry_ltb_key by assumption. apply key_asym.
  - intros a b c Wa Wb Wc. unfold le. rewrite !entry_ltb_key by assumption. apply key_le_trans.
Qed.

(* the entries written by a sorted save: a function of the multiset of entries alone *)
Theorem sorted_entry_list_canonical (l1 l2 : list (N * entry)) :
  Forall wfe (map snd l1) -> Permutation (map snd l1) (map snd l2) ->
  (forall a b, In a (map snd l1) -> In b (map snd l1) -> ekey a = ekey b -> a = b) ->
  map snd (py_sorted cmp_ie l1) = map snd (py_sorted cmp_ie l2).
Proof.
  intros HP Hp Hk. rewrite !map_py_sorted.
  destruct entry_order_swo as [Has Htr].
  apply (py_sorted_canonical _ entry_ltb wfe Has Htr); [assumption|assumption|].
  intros a b Ha Hb. unfold le. rewrite Forall_forall in HP. rewrite !entry_ltb_key by (apply HP; assumption).
  intros H1 H2. apply Hk; [assumption|assumption|]. apply key_tricho; assumption.
Qed.
