(* Path escaping: decode_path (encode_path p) = Ok p, and the encoded text is free of
   whitespace and control characters.  Depends on the generated tables
   (disallowed_path_char, escape_forms, encode_forms): a change to either regex or to
   encode_char in manifest.py regenerates them and these proofs are re-checked. *)
From Coq Require Import List NArith ZArith Bool Lia ZifyBool ZifyN Arith.
From Gemato Require Import Py.PyStr Gen.Tables Model.Entry.
Import ListNotations.
Open Scope N_scope.
Ltac Zify.zify_post_hook ::= Z.to_euclidean_division_equations.

Definition valid_cp (c : cp) : Prop := c <= max_cp.

Lemma hexval_hexdig n : n < 16 -> hexval (hexdig n) = Some n.
Proof.
  intros H.
  assert (E : forallb (fun k => match hexval (hexdig k) with Some v => v =? k | None => false end)
                      (map N.of_nat (seq 0 16)) = true) by (vm_compute; reflexivity).
  rewrite forallb_forall in E. specialize (E n).
  assert (Hin : In n (map N.of_nat (seq 0 16))).
  { apply in_map_iff. exists (N.to_nat n). split; [lia|]. apply in_seq. lia. }
  specialize (E Hin). destruct (hexval (hexdig n)); [|discriminate].
  apply N.eqb_eq in E. congruence.
Qed.

Lemma hexparse_fmt k : forall j n acc r, n < 16 ^ (N.of_nat k) ->
  hexparse (k + j) (hexfmt k n ++ r) acc = hexparse j r (acc * 16 ^ (N.of_nat k) + n).
Proof.
  induction k as [|k IH]; intros j n acc r Hn.
  - simpl in *. f_equal. lia.
  - cbn [hexfmt]. rewrite <- app_assoc. cbn [app].
    replace (S k + j)%nat with (k + S j)%nat by lia.
    replace (N.of_nat (S k)) with (N.succ (N.of_nat k)) in * by lia.
    rewrite N.pow_succ_r' in *.
    rewrite IH by (apply N.div_lt_upper_bound; lia).
    cbn [hexparse]. rewrite hexval_hexdig by (apply N.mod_lt; lia).
    f_equal. pose proof (N.div_mod n 16). lia.
Qed.

Lemma hexparse_fmt0 k n r : n < 16 ^ (N.of_nat k) -> hexparse k (hexfmt k n ++ r) 0 = Some (n, r).
Proof.
  intros H. replace k with (k + 0)%nat at 1 by lia.
  rewrite hexparse_fmt by exact H. simpl. f_equal.
Qed.

(* hexfmt produces upper-case hex digits: none of them is a letter used to introduce an
   escape form, whitespace, a control character or a backslash *)
Definition clean_cp (c : cp) : bool :=
  negb (disallowed_path_char c).

Lemma hexdig_clean n : n < 16 -> clean_cp (hexdig n) = true.
Proof.
  intros H.
  assert (E : forallb (fun k => clean_cp (hexdig k)) (map N.of_nat (seq 0 16)) = true)
    by (vm_compute; reflexivity).
  rewrite forallb_forall in E. apply E.
  apply in_map_iff. exists (N.to_nat n). split; [lia|]. apply in_seq. lia.
Qed.

Lemma hexfmt_clean k : forall n c, In c (hexfmt k n) -> clean_cp c = true.
Proof.
  induction k as [|k IH]; intros n c Hin; [destruct Hin|].
  cbn [hexfmt] in Hin. apply in_app_or in Hin. destruct Hin as [Hin|[<-|[]]].
  - eapply IH; eassumption.
  - apply hexdig_clean. apply N.mod_lt. lia.
Qed.

(* the escape of one character decodes to it: tied to encode_forms / escape_forms *)
Lemma encode_char_shape c :
  exists letter t, encode_char c = 92 :: letter :: t.
Proof.
  unfold encode_char, encode_forms. cbn [encode_char_with].
  destruct (c <=? 127); [|destruct (c <=? 65535)]; eexists; eexists; reflexivity.
Qed.

Lemma try_forms_encode c r : valid_cp c ->
  try_forms escape_forms (tl (encode_char c) ++ r) = Some (c, r).
Proof.
  unfold valid_cp, max_cp, encode_char, encode_forms, escape_forms. intros Hc.
  cbn [encode_char_with].
  destruct (c <=? 127) eqn:E1; [|destruct (c <=? 65535) eqn:E2];
    cbn [tl app try_forms N.eqb Pos.eqb];
    rewrite hexparse_fmt0 by (simpl; lia); reflexivity.
Qed.

Lemma encode_char_le c : valid_cp c -> forall v r, try_forms escape_forms (tl (encode_char c) ++ r) = Some (v, r) -> v <= max_cp.
Proof. intros Hc v r H. rewrite try_forms_encode in H by exact Hc. inversion H; subst. exact Hc. Qed.

Lemma decode_encode_fuel p : Forall valid_cp p ->
  forall f, (length (encode_path p) <= f)%nat -> decode_fuel (S f) (encode_path p) = Ok p.
Proof.
  induction p as [|c p IH]; intros Hv f Hf; [reflexivity|].
  inversion Hv as [|? ? Hc Hp]; subst.
  unfold encode_path in *. cbn [flat_map] in *.
  destruct (disallowed_path_char c) eqn:Hd.
  - assert (Et : encode_char c = 92 :: tl (encode_char c)).
    { destruct (encode_char_shape c) as [l [t Et]]. rewrite Et. reflexivity. }
    remember (tl (encode_char c)) as T eqn:ET.
    rewrite Et in Hf |- *. cbn [app decode_fuel]. cbn [N.eqb Pos.eqb].
    subst T. rewrite try_forms_encode by exact Hc.
    assert (c <=? max_cp = true) as -> by (unfold valid_cp in Hc; lia).
    cbn [app length] in Hf. rewrite app_length in Hf.
    destruct f as [|f]; [lia|]. rewrite IH; [reflexivity|exact Hp|lia].
  - cbn [app decode_fuel].
    assert (c =? 92 = false) as ->.
    { unfold disallowed_path_char in Hd. lia. }
    cbn [app length] in Hf. destruct f as [|f]; [lia|].
    rewrite IH; [reflexivity|exact Hp|lia].
Qed.

Theorem decode_encode p : Forall valid_cp p -> decode_path (encode_path p) = Ok p.
Proof. intros H. unfold decode_path. apply decode_encode_fuel; [exact H|lia]. Qed.

(* the encoded path contains only "clean" characters and backslashes *)
Lemma encode_char_chars c x : In x (encode_char c) -> x = 92 \/ clean_cp x = true.
Proof.
  unfold encode_char, encode_forms. cbn [encode_char_with].
  destruct (c <=? 127); [|destruct (c <=? 65535)]; cbn [In];
    (intros [<-|[<-|H]]; [left; reflexivity|right; vm_compute; reflexivity|right; eapply hexfmt_clean; exact H]).
Qed.

Lemma encode_path_chars p x : In x (encode_path p) -> x = 92 \/ clean_cp x = true.
Proof.
  unfold encode_path. rewrite in_flat_map. intros [c [_ Hx]].
  destruct (disallowed_path_char c) eqn:Hd.
  - eapply encode_char_chars; exact Hx.
  - destruct Hx as [<-|[]]. right. unfold clean_cp. rewrite Hd. reflexivity.
Qed.

Lemma clean_not_space x : clean_cp x = true -> is_space x = false.
Proof. unfold clean_cp, disallowed_path_char. intros H. destruct (is_space x); [|reflexivity]. lia. Qed.

(* no whitespace, so the encoded path is exactly one field of a line *)
Theorem encode_path_no_space p x : In x (encode_path p) -> is_space x = false.
Proof.
  intros H. destruct (encode_path_chars _ _ H) as [->|Hc]; [reflexivity|apply clean_not_space; exact Hc].
Qed.
(* no control characters (in particular no line terminator) *)
Theorem encode_path_no_control p x : In x (encode_path p) ->
  (32 <= x) /\ ~ (127 <= x <= 159).
Proof.
  intros H. destruct (encode_path_chars _ _ H) as [->|Hc]; [lia|].
  unfold clean_cp, disallowed_path_char in Hc. lia.
Qed.
Lemma encode_path_nonempty p : p <> [] -> encode_path p <> [].
Proof.
  destruct p as [|c p]; [congruence|intros _]. unfold encode_path. cbn [flat_map].
  destruct (disallowed_path_char c).
  - destruct (encode_char_shape c) as [l [t ->]]. discriminate.
  - discriminate.
Qed.
(* the first character of the encoded path is '/' only if the path starts with '/' *)
Lemma encode_path_hd p : hd 0 (encode_path p) = 47 -> hd 0 p = 47.
Proof.
  destruct p as [|c p]; [intros H; exact H|]. unfold encode_path. cbn [flat_map].
  destruct (disallowed_path_char c) eqn:Hd.
  - destruct (encode_char_shape c) as [l [t ->]]. cbn. discriminate.
  - cbn. trivial.
Qed.
