(* C19: the profile policy as translated from gemato/profile.py on this run (Gen/Profile.v), characterised on
   repository-shaped paths: where Manifests are wanted, how entries are typed, which options are defaulted. *)
From Coq Require Import List NArith ZArith Bool Lia ZifyBool ZifyNat.
From Gemato Require Import Py.PyStr Py.PyPath Gen.Tables Gen.Util Gen.Profile.
Import ListNotations.
Open Scope N_scope.

Definition s_metadata_xml : ustr := [109; 101; 116; 97; 100; 97; 116; 97; 46; 120; 109; 108].
Definition s_ebuild_sfx : ustr := [46; 101; 98; 117; 105; 108; 100].
Definition s_files_dir : ustr := [102; 105; 108; 101; 115].
Definition noslash (s : ustr) : Prop := forall c, In c s -> c <> 47.

(* ---- loader options ---- *)
Theorem ebuild_loader_defaults :
  EbuildRepositoryProfile_set_loader_options (mk_lo None None None None)
  = mk_lo (Some [[66; 76; 65; 75; 69; 50; 66]; [83; 72; 65; 53; 49; 50]]) (Some true) (Some 128%Z) (Some [103; 122]).
Proof. reflexivity. Qed.
Theorem ebuild_loader_fieldwise o :
  let o' := EbuildRepositoryProfile_set_loader_options o in
  lo_hashes o' = match lo_hashes o with Some h => Some h | None => Some [[66; 76; 65; 75; 69; 50; 66]; [83; 72; 65; 53; 49; 50]] end /\
  lo_sort o' = match lo_sort o with Some b => Some b | None => Some true end /\
  lo_compress_watermark o' = match lo_compress_watermark o with Some w => Some w | None => Some 128%Z end /\
  lo_compress_format o' = match lo_compress_format o with Some f => Some f | None => Some [103; 122] end.
Proof. destruct o as [[h|] [s|] [w|] [f|]]; cbn; repeat split; reflexivity. Qed.
Theorem old_ebuild_loader_same o :
  BackwardsCompatEbuildRepositoryProfile_set_loader_options o = EbuildRepositoryProfile_set_loader_options o.
Proof. reflexivity. Qed.
Theorem default_loader_untouched o : DefaultProfile_set_loader_options o = o.
Proof. reflexivity. Qed.

(* ---- default IGNORE entries of new Manifests ---- *)
Theorem ebuild_default_ignores :
  EbuildRepositoryProfile_get_ignore_paths_for_new_manifest [] =
    [[100;105;115;116;102;105;108;101;115]; [108;111;99;97;108]; [108;111;115;116;43;102;111;117;110;100]; [112;97;99;107;97;103;101;115]] /\
  EbuildRepositoryProfile_get_ignore_paths_for_new_manifest [109;101;116;97;100;97;116;97] =
    [[116;105;109;101;115;116;97;109;112]; [116;105;109;101;115;116;97;109;112;46;99;104;107];
     [116;105;109;101;115;116;97;109;112;46;99;111;109;109;105;116]; [116;105;109;101;115;116;97;109;112;46;120]] /\
  forall sub, In sub [[100;116;100]; [103;108;115;97]; [110;101;119;115]; [120;109;108;45;115;99;104;101;109;97]] ->
    EbuildRepositoryProfile_get_ignore_paths_for_new_manifest ([109;101;116;97;100;97;116;97;47] ++ sub) =
      [[116;105;109;101;115;116;97;109;112;46;99;104;107]; [116;105;109;101;115;116;97;109;112;46;99;111;109;109;105;116]].
Proof.
  split; [reflexivity|split; [reflexivity|]].
  intros sub H. cbn in H. destruct H as [<-|[<-|[<-|[<-|[]]]]]; reflexivity.
Qed.

(* ---- where Manifests are wanted ---- *)
Theorem want_manifest_with_metadata_xml relpath dirnames filenames :
  mem_str s_metadata_xml filenames = true ->
  EbuildRepositoryProfile_want_manifest_in_directory relpath dirnames filenames = true.
Proof. intros H. unfold EbuildRepositoryProfile_want_manifest_in_directory. fold s_metadata_xml. rewrite H. reflexivity. Qed.

Lemma split_aux_nosep s : forall cur, noslash s -> split_sep_aux 47 s cur = [rev cur ++ s].
Proof.
  induction s as [|x s IH]; intros cur H; cbn [split_sep_aux]; [rewrite app_nil_r; reflexivity|].
  destruct (x =? 47) eqn:E; [apply N.eqb_eq in E; exfalso; exact (H x (or_introl eq_refl) E)|].
  rewrite IH; [cbn [rev]; rewrite <- app_assoc; reflexivity|]. intros c Hc. apply H. right. exact Hc.
Qed.
Lemma split_nosep s : noslash s -> split_sep s 47 = [s].
Proof. intros H. unfold split_sep. rewrite split_aux_nosep by exact H. reflexivity. Qed.
Lemma split_aux_cons a b : forall cur, noslash a -> split_sep_aux 47 (a ++ 47 :: b) cur = (rev cur ++ a) :: split_sep_aux 47 b [].
Proof.
  induction a as [|x a IH]; intros cur H; cbn [app split_sep_aux].
  - rewrite N.eqb_refl, app_nil_r. reflexivity.
  - destruct (x =? 47) eqn:E; [apply N.eqb_eq in E; exfalso; exact (H x (or_introl eq_refl) E)|].
    rewrite IH; [cbn [rev]; rewrite <- app_assoc; reflexivity|]. intros c Hc. apply H. right. exact Hc.
Qed.
Lemma split_two a b : noslash a -> noslash b -> split_sep (a ++ 47 :: b) 47 = [a; b].
Proof. intros Ha Hb. unfold split_sep. rewrite split_aux_cons by exact Ha. rewrite split_aux_nosep by exact Hb. reflexivity. Qed.
Lemma split_three a b c : noslash a -> noslash b -> noslash c -> split_sep (a ++ 47 :: b ++ 47 :: c) 47 = [a; b; c].
Proof.
  intros Ha Hb Hc. unfold split_sep. rewrite split_aux_cons by exact Ha. rewrite split_aux_cons by exact Hb.
  rewrite split_aux_nosep by exact Hc. reflexivity.
Qed.
Lemma split_four a b c d : noslash a -> noslash b -> noslash c ->
  exists rest, split_sep (a ++ 47 :: b ++ 47 :: c ++ 47 :: d) 47 = a :: b :: c :: rest /\ rest <> [].
Proof.
  intros Ha Hb Hc. unfold split_sep. rewrite split_aux_cons by exact Ha. rewrite split_aux_cons by exact Hb.
  rewrite split_aux_cons by exact Hc. exists (split_sep_aux 47 d []). split; [reflexivity|].
  clear. generalize (@nil N). induction d as [|x d IH]; intros cur; cbn [split_sep_aux]; [discriminate|]. destruct (x =? 47); [discriminate|apply IH].
Qed.

(* a top-level directory with sub-directories (categories, metadata, profiles, ...) *)
Theorem want_manifest_top_level_with_subdirs relpath d dirnames filenames :
  noslash relpath -> EbuildRepositoryProfile_want_manifest_in_directory relpath (d :: dirnames) filenames = true.
Proof.
  intros H. unfold EbuildRepositoryProfile_want_manifest_in_directory.
  destruct (mem_str _ filenames); [reflexivity|]. rewrite (split_nosep relpath H). reflexivity.
Qed.
(* the unconditional standard directories *)
Theorem want_manifest_standard_dirs relpath dirnames filenames :
  In relpath [[101;99;108;97;115;115]; [108;105;99;101;110;115;101;115]; [109;101;116;97;100;97;116;97]; [112;114;111;102;105;108;101;115]] ->
  EbuildRepositoryProfile_want_manifest_in_directory relpath dirnames filenames = true.
Proof.
  intros H. unfold EbuildRepositoryProfile_want_manifest_in_directory.
  destruct (mem_str _ filenames); [reflexivity|].
  cbn in H. destruct H as [<-|[<-|[<-|[<-|[]]]]]; cbn; destruct dirnames; reflexivity.
Qed.
(* a package directory: cat/pkg holding an ebuild *)
Theorem want_manifest_package cat pkg dirnames filenames :
  noslash cat -> noslash pkg -> existsb (fun f => py_endswith f s_ebuild_sfx) filenames = true ->
  EbuildRepositoryProfile_want_manifest_in_directory (cat ++ 47 :: pkg) dirnames filenames = true.
Proof.
  intros Hc Hp He. unfold EbuildRepositoryProfile_want_manifest_in_directory.
  destruct (mem_str _ filenames); [reflexivity|]. rewrite (split_two cat pkg Hc Hp). fold s_ebuild_sfx.
  cbn [len length Z.of_nat Z.eqb Pos.of_succ_nat Pos.succ Pos.eqb]. rewrite He. reflexivity.
Qed.
(* a files/ directory of a package (and anything else three levels deep outside metadata/md5-cache) never gets a
   Manifest of its own unless it holds a metadata.xml *)
Theorem no_manifest_in_files_dir cat pkg dirnames filenames :
  noslash cat -> noslash pkg -> mem_str s_metadata_xml filenames = false ->
  ustr_eqb cat [109;101;116;97;100;97;116;97] = false ->
  EbuildRepositoryProfile_want_manifest_in_directory (cat ++ 47 :: pkg ++ 47 :: s_files_dir) dirnames filenames = false.
Proof.
  intros Hc Hp Hm Hcat. unfold EbuildRepositoryProfile_want_manifest_in_directory. fold s_metadata_xml. rewrite Hm.
  rewrite (split_three cat pkg s_files_dir Hc Hp) by (intros c Hin; cbn in Hin; intuition (subst; discriminate)).
  cbn [len length Z.of_nat Z.eqb Pos.of_succ_nat Pos.succ Pos.eqb slice]. 
  unfold strlist_eqb. cbn. rewrite Hcat. reflexivity.
Qed.

(* ---- entry types of the backwards-compatible profile ---- *)
Theorem old_ebuild_types_ebuild cat pkg name :
  noslash cat -> noslash pkg -> noslash name ->
  py_endswith (cat ++ 47 :: pkg ++ 47 :: name) s_ebuild_sfx = true ->
  BackwardsCompatEbuildRepositoryProfile_get_entry_type_for_path (cat ++ 47 :: pkg ++ 47 :: name) = [69; 66; 85; 73; 76; 68].
Proof.
  intros Hc Hp Hn He. unfold BackwardsCompatEbuildRepositoryProfile_get_entry_type_for_path.
  rewrite (split_three cat pkg name Hc Hp Hn). fold s_ebuild_sfx. cbn [len length Z.of_nat Z.eqb Pos.of_succ_nat Pos.succ Pos.eqb].
  rewrite He. reflexivity.
Qed.
Lemma metadata_xml_not_ebuild pre : py_endswith (pre ++ s_metadata_xml) s_ebuild_sfx = false.
Proof. unfold py_endswith. rewrite rev_app_distr. reflexivity. Qed.

Theorem old_ebuild_types_metadata_xml cat pkg :
  noslash cat -> noslash pkg ->
  BackwardsCompatEbuildRepositoryProfile_get_entry_type_for_path (cat ++ 47 :: pkg ++ 47 :: s_metadata_xml) = [77; 73; 83; 67].
Proof.
  intros Hc Hp. unfold BackwardsCompatEbuildRepositoryProfile_get_entry_type_for_path.
  rewrite (split_three cat pkg s_metadata_xml Hc Hp) by (intros c Hin; cbn in Hin; intuition (subst; discriminate)).
  cbn [len length Z.of_nat Z.eqb Pos.of_succ_nat Pos.succ Pos.eqb].
  replace (cat ++ 47 :: pkg ++ 47 :: s_metadata_xml) with ((cat ++ 47 :: pkg ++ [47]) ++ s_metadata_xml)
    by (rewrite <- !app_assoc; cbn; rewrite <- app_assoc; reflexivity).
  fold s_ebuild_sfx. rewrite metadata_xml_not_ebuild. reflexivity.
Qed.

(* anything below cat/pkg/files/ is an AUX entry *)
Theorem old_ebuild_types_aux cat pkg rest :
  noslash cat -> noslash pkg ->
  BackwardsCompatEbuildRepositoryProfile_get_entry_type_for_path (cat ++ 47 :: pkg ++ 47 :: s_files_dir ++ 47 :: rest) = [65; 85; 88].
Proof.
  intros Hc Hp. unfold BackwardsCompatEbuildRepositoryProfile_get_entry_type_for_path.
  destruct (split_four cat pkg s_files_dir rest Hc Hp) as [r [E Hr]]; [intros c Hin; cbn in Hin; intuition (subst; discriminate)|].
  rewrite E. destruct r as [|r0 r]; [contradiction|].
  assert (L3 : (len (cat :: pkg :: s_files_dir :: r0 :: r) =? 3)%Z = false) by (unfold len; cbn [length]; lia).
  rewrite L3. reflexivity.
Qed.
