(* C10: who writes.  (1) Of all operations of the executable loader model only "save" returns a
   different filesystem; verification, lookups, update, set_timestamp and reload leave it untouched -
   also when they fail.  (2) Writing or unlinking one path changes no other file: every regular-file
   inode other than the one the path names keeps its device, mtime, size and content. *)
From Coq Require Import List NArith ZArith Bool Lia String.
From Gemato Require Import Py.PyStr Py.PyLit Py.PyPath Gen.Tables Model.Entry Model.Text Model.OpenPGP
  Model.Hash Model.FS Model.Verify Model.Loader Model.Update Gen.Profile Exec.Sx Exec.Oracles Exec.Tree.
Import ListNotations.
Open Scope N_scope.

Section OnlySave.
  Variable dt : otable.
  Variable ct : ctable.
  Variable wmtime : Z.
  Variable reload : world -> res loader.

  Definition is_save (op : sx) : bool :=
    match x_list op with SS c :: _ => ustr_eqb c (u "save") | _ => false end.

  Theorem only_save_writes w l op :
    is_save op = false -> fst (fst (run_op dt ct wmtime reload w l op)) = w.
  Proof.
    unfold is_save, run_op. destruct (x_list op) as [|h args]; [reflexivity|]. destruct h as [z|c|xs]; try reflexivity.
    intros Hs. rewrite Hs.
    repeat (match goal with |- context [if ustr_eqb c ?s then _ else _] => destruct (ustr_eqb c s) end);
      try reflexivity;
      repeat (match goal with |- context [match ?x with _ => _ end] => destruct x end; try reflexivity).
  Qed.

  (* a failing save returns the filesystem it was given (the model does not expose partial saves: see DESIGN) *)
  Fixpoint worlds_of (w : world) (l : loader) (ops : list sx) : list world :=
    match ops with
    | [] => [w]
    | op :: r => let '(w', l', _) := run_op dt ct wmtime reload w l op in w :: worlds_of w' l' r
    end.
  Theorem no_save_no_write ops : forall w l,
    forallb (fun op => negb (is_save op)) ops = true -> forall w', In w' (worlds_of w l ops) -> w' = w.
  Proof.
    induction ops as [|op r IH]; intros w l H w' Hin.
    - destruct Hin as [<-|[]]. reflexivity.
    - cbn [forallb] in H. apply andb_true_iff in H. destruct H as [H1 H2]. apply negb_true_iff in H1.
      cbn [worlds_of] in Hin. pose proof (only_save_writes w l op H1) as Hw.
      destruct (run_op dt ct wmtime reload w l op) as [[w1 l1] out]. cbn in Hw. subst w1.
      destruct Hin as [<-|Hin]; [reflexivity|]. eapply IH; eassumption.
  Qed.
End OnlySave.

(* ---- frame of the two writing primitives ---- *)
Lemma lookup_replace_other nodes i n j : j <> i -> lookup_ino (replace_node nodes i n) j = lookup_ino nodes j.
Proof.
  intros Hj. induction nodes as [|[k m] r IH]; [reflexivity|].
  cbn [replace_node map fst]. destruct (k =? i) eqn:E.
  - cbn [lookup_ino]. apply N.eqb_eq in E. subst k. destruct (j =? i) eqn:E2; [apply N.eqb_eq in E2; contradiction|].
    fold (replace_node r i n). exact IH.
  - cbn [lookup_ino]. destruct (j =? k); [reflexivity|]. fold (replace_node r i n). exact IH.
Qed.
Lemma lookup_app_some nodes extra j n : lookup_ino nodes j = Some n -> lookup_ino (nodes ++ extra) j = Some n.
Proof.
  induction nodes as [|[k m] r IH]; [discriminate|]. cbn [lookup_ino app]. destruct (j =? k); [auto|exact IH].
Qed.

Definition names (w : world) (path : list N) (j : N) : Prop :=
  exists di dev par ents, resolve w (dirname path) = Ok di /\ node w di = Some (IDir dev par ents) /\
                          lookup_name ents (basename path) = Some (TIno j).

Theorem write_file_frame w path data mt w' :
  write_file w path data mt = Ok w' ->
  forall j dev m s x, node w j = Some (IFile dev m s x) -> ~ names w path j -> node w' j = Some (IFile dev m s x).
Proof.
  unfold write_file. destruct (resolve w (dirname path)) as [di|] eqn:Er; cbn [bind]; [|discriminate].
  destruct (node w di) as [[dev par ents| |]|] eqn:En; try discriminate.
  destruct (lookup_name ents (basename path)) as [[i|e]|] eqn:El; try discriminate.
  - destruct (node w i) as [[| fdev fm fs fx |]|] eqn:Ei; try discriminate.
    intros H j d m s x Hj Hn. inversion H; subst. unfold node. cbn [w_nodes].
    rewrite lookup_replace_other; [exact Hj|].
    intros ->. apply Hn. exists di, dev, par, ents. repeat split; assumption.
  - intros H j d m s x Hj Hn. inversion H; subst. unfold node. cbn [w_nodes].
    apply lookup_app_some. rewrite lookup_replace_other; [exact Hj|].
    intros ->. rewrite En in Hj. discriminate.
Qed.

Theorem unlink_file_frame w path w' :
  unlink_file w path = Ok w' ->
  forall j dev m s x, node w j = Some (IFile dev m s x) -> node w' j = Some (IFile dev m s x).
Proof.
  unfold unlink_file. destruct (resolve w (dirname path)) as [di|] eqn:Er; cbn [bind]; [|discriminate].
  destruct (node w di) as [[dev par ents| |]|] eqn:En; try discriminate.
  destruct (lookup_name ents (basename path)); [|discriminate].
  intros H j d m s x Hj. inversion H; subst. unfold node. cbn [w_nodes].
  rewrite lookup_replace_other; [exact Hj|]. intros ->. rewrite En in Hj. discriminate.
Qed.

(* the in-place refresh keeps what the entry is: tag (entry type), path and AUX name *)
Theorem refresh_keeps_type e size c :
  e_tag (with_size_cks e size c) = e_tag e /\ e_path (with_size_cks e size c) = e_path e /\
  match e, with_size_cks e size c with
  | EFile _ _ a _ _, EFile _ _ a' _ _ => a' = a
  | ETs d, ETs d' => d = d'
  | EIgn p, EIgn p' => p = p'
  | _, _ => False
  end.
Proof. destruct e; cbn; repeat split; reflexivity. Qed.

(* ---- resolution is stable under the writes of save_manifest, hence: save_manifest touches one file ---- *)
From Gemato Require Import Proofs.SortTheory.

Lemma lookup_replace_same nodes i n m : lookup_ino nodes i = Some m -> lookup_ino (replace_node nodes i n) i = Some n.
Proof.
  induction nodes as [|[k x] r IH]; [discriminate|]. cbn [lookup_ino replace_node map fst].
  destruct (i =? k) eqn:E.
  - apply N.eqb_eq in E. subst k. rewrite N.eqb_refl. cbn [lookup_ino]. rewrite N.eqb_refl. reflexivity.
  - intros H. destruct (k =? i) eqn:E2; [apply N.eqb_eq in E2; subst; rewrite N.eqb_refl in E; discriminate|].
    cbn [lookup_ino]. rewrite E. fold (replace_node r i n). apply IH. exact H.
Qed.
Lemma lookup_app_none nodes extra j : lookup_ino nodes j = None -> lookup_ino (nodes ++ extra) j = lookup_ino extra j.
Proof.
  induction nodes as [|[k m] r IH]; [reflexivity|]. cbn [lookup_ino app]. destruct (j =? k); [discriminate|exact IH].
Qed.
Lemma fresh_above nodes : forall acc j n, lookup_ino nodes j = Some n ->
  j < fold_left (fun a kn => N.max a (fst kn + 1)) nodes acc.
Proof.
  induction nodes as [|[k m] r IH]; intros acc j n H; [discriminate|]. cbn [lookup_ino] in H. cbn [fold_left fst].
  destruct (j =? k) eqn:E.
  - apply N.eqb_eq in E. subst k. clear H IH.
    assert (G : forall (l : list (N * inode)) a, a <= fold_left (fun a kn => N.max a (fst kn + 1)) l a).
    { induction l as [|[k2 m2] l IHl]; intros a; cbn [fold_left fst]; [lia|]. specialize (IHl (N.max a (k2 + 1))). lia. }
    specialize (G r (N.max acc (j + 1))). lia.
  - eapply IH. exact H.
Qed.
Lemma fresh_not_in w : node w (fresh_ino w) = None.
Proof.
  unfold node, fresh_ino. destruct (lookup_ino (w_nodes w) _) as [n|] eqn:E; [|reflexivity].
  pose proof (fresh_above (w_nodes w) 1 _ n E). lia.
Qed.

Definition same_dirs (w w0 : world) (i : N) : Prop :=
  w_root w0 = w_root w /\ (forall k, k <> i -> node w0 k = node w k) /\
  (exists d m s x d' m' s' x', node w i = Some (IFile d m s x) /\ node w0 i = Some (IFile d' m' s' x')).

Lemma resolve_comps_same w w0 i : same_dirs w w0 i ->
  forall comps cur, resolve_comps w0 cur comps = resolve_comps w cur comps.
Proof.
  intros [_ [Ho [d [m [s [x [d' [m' [s' [x' [Hi Hi0]]]]]]]]]]]. induction comps as [|c r IH]; intros cur; [reflexivity|].
  cbn [resolve_comps]. destruct (N.eq_dec cur i) as [->|Hne].
  - rewrite Hi, Hi0. reflexivity.
  - rewrite (Ho cur Hne). destruct (node w cur) as [[dv par ents| |]|]; try reflexivity.
    destruct c; [apply IH|]. destruct (is_dot _); [apply IH|]. destruct (is_dotdot _); [apply IH|].
    destruct (lookup_name ents _) as [[k|e]|]; [apply IH|reflexivity|reflexivity].
Qed.
Lemma resolve_same w w0 i : same_dirs w w0 i -> forall p, resolve w0 p = resolve w p.
Proof.
  intros H p. pose proof H as [Hr [Ho [d [m [s [x [d' [m' [s' [x' [Hi Hi0]]]]]]]]]]]. unfold resolve.
  destruct (existsb (N.eqb 0) p); [reflexivity|]. destruct (existsb bad_surrogate p); [reflexivity|].
  rewrite Hr, (resolve_comps_same w w0 i H). destruct (resolve_comps w (w_root w) _) as [k|]; cbn [bind]; [|reflexivity].
  destruct (py_endswith _ _); [|reflexivity]. destruct (N.eq_dec k i) as [->|Hne]; [rewrite Hi, Hi0; reflexivity|rewrite (Ho k Hne); reflexivity].
Qed.

(* after creating a new file [name] in directory [di]: whatever still resolves to an old inode resolved to it before *)
Definition created (w w0 : world) (di : N) (dev par : N) (ents : list (list N * target)) (name : list N) : Prop :=
  node w di = Some (IDir dev par ents) /\ lookup_name ents name = None /\ w_root w0 = w_root w /\
  node w0 di = Some (IDir dev par (ents ++ [(name, TIno (fresh_ino w))])) /\
  (exists fd fm fs fx, node w0 (fresh_ino w) = Some (IFile fd fm fs fx)) /\
  (forall k, k <> di -> k <> fresh_ino w -> node w0 k = node w k).

Lemma lookup_name_app ents name t c : lookup_name ents name = None ->
  lookup_name (ents ++ [(name, t)]) c = if ustr_eqb c name then (match lookup_name ents c with Some x => Some x | None => Some t end) else lookup_name ents c.
Proof.
  intros Hn. induction ents as [|[m x] r IH]; cbn [app lookup_name].
  - destruct (ustr_eqb c name); reflexivity.
  - cbn [lookup_name] in Hn. destruct (ustr_eqb name m) eqn:E1; [discriminate|]. destruct (ustr_eqb c m) eqn:E2.
    + destruct (ustr_eqb c name); reflexivity.
    + apply IH. exact Hn.
Qed.

Lemma resolve_comps_created w w0 di dev par ents name : created w w0 di dev par ents name ->
  forall comps cur k, resolve_comps w0 cur comps = Ok k -> k <> fresh_ino w -> resolve_comps w cur comps = Ok k.
Proof.
  intros [Hd [Hn [_ [Hd0 [[fd [fm [fs [fx Hf]]]] Ho]]]]]. induction comps as [|c r IH]; intros cur k H Hk.
  - cbn in *. exact H.
  - cbn [resolve_comps] in *. destruct (N.eq_dec cur (fresh_ino w)) as [->|Hnf].
    + rewrite Hf in H. discriminate.
    + destruct (N.eq_dec cur di) as [->|Hnd].
      * rewrite Hd0 in H. rewrite Hd. destruct c as [|c0 c']; [apply IH; assumption|].
        destruct (is_dot _); [apply IH; assumption|]. destruct (is_dotdot _); [apply IH; assumption|].
        rewrite (lookup_name_app ents name _ (c0 :: c') Hn) in H.
        destruct (ustr_eqb (c0 :: c') name) eqn:E.
        -- apply ustr_eqb_eq in E. rewrite E in *. rewrite Hn in *.
           (* the step goes through the new file: it cannot end at an old inode *)
           exfalso. destruct r as [|c2 r2]; cbn [resolve_comps] in H; [inversion H; subst; apply Hk; reflexivity|].
           rewrite Hf in H. discriminate.
        -- destruct (lookup_name ents (c0 :: c')) as [[j|e]|]; [apply IH; assumption|exact H|exact H].
      * rewrite (Ho cur Hnd Hnf) in H. destruct (node w cur) as [[dv pr es| |]|]; try exact H.
        destruct c as [|c0 c']; [apply IH; assumption|].
        destruct (is_dot _); [apply IH; assumption|]. destruct (is_dotdot _); [apply IH; assumption|].
        destruct (lookup_name es (c0 :: c')) as [[j|e]|]; [apply IH; assumption|exact H|exact H].
Qed.

Lemma resolve_created w w0 di dev par ents name : created w w0 di dev par ents name ->
  forall p k, resolve w0 p = Ok k -> k <> fresh_ino w -> resolve w p = Ok k.
Proof.
  intros C p k H Hk. pose proof C as [Hd [Hn [Hr [Hd0 [[fd [fm [fs [fx Hf]]]] Ho]]]]]. unfold resolve in *.
  destruct (existsb (N.eqb 0) p); [discriminate|]. destruct (existsb bad_surrogate p); [discriminate|].
  rewrite Hr in H. destruct (resolve_comps w0 (w_root w) _) as [k0|] eqn:E; cbn [bind] in H; [|discriminate].
  assert (Hk0 : k0 = k).
  { destruct (py_endswith _ _); [|inversion H; reflexivity]. destruct (node w0 k0) as [[| |]|]; inversion H; reflexivity. }
  subst k0. rewrite (resolve_comps_created w w0 di dev par ents name C _ _ _ E Hk). cbn [bind].
  destruct (py_endswith _ _); [|exact H].
  destruct (N.eq_dec k di) as [->|Hnd]; [rewrite Hd0 in H; rewrite Hd; exact H|]. rewrite (Ho k Hnd Hk) in H. exact H.
Qed.

Lemma existsb_lookup_none ents name : lookup_name ents name = None ->
  existsb (fun e : list N * target => ustr_eqb (fst e) name) ents = false.
Proof.
  induction ents as [|[m x] r IH]; [reflexivity|]. cbn [lookup_name existsb fst].
  destruct (ustr_eqb name m) eqn:E; [discriminate|]. intros H. rewrite (IH H), orb_false_r.
  destruct (ustr_eqb m name) eqn:E2; [|reflexivity]. apply ustr_eqb_eq in E2. subst m.
  rewrite (proj2 (ustr_eqb_eq name name) eq_refl) in E. discriminate.
Qed.
Lemma lookup_replace_none nodes i n j : lookup_ino nodes j = None -> lookup_ino (replace_node nodes i n) j = None.
Proof.
  induction nodes as [|[k m] r IH]; [reflexivity|]. cbn [lookup_ino replace_node map fst].
  destruct (j =? k) eqn:E; [discriminate|]. intros H. destruct (k =? i) eqn:E2.
  - apply N.eqb_eq in E2. subst k. cbn [lookup_ino]. rewrite E. apply IH. exact H.
  - cbn [lookup_ino]. rewrite E. apply IH. exact H.
Qed.

(* one write: afterwards the path names no file that existed before and was not named by it *)
Lemma write_names_stable w path data mt w0 :
  write_file w path data mt = Ok w0 ->
  forall j d m s x, node w j = Some (IFile d m s x) -> names w0 path j -> names w path j.
Proof.
  unfold write_file. destruct (resolve w (dirname path)) as [di|] eqn:Er; cbn [bind]; [|discriminate].
  destruct (node w di) as [[dev par ents| |]|] eqn:En; try discriminate.
  destruct (lookup_name ents (basename path)) as [[i|e]|] eqn:El; try discriminate.
  - (* rewriting the existing file i *)
    destruct (node w i) as [[| fdev fm fs fx |]|] eqn:Ei; try discriminate.
    intros H j d m s x Hj [di' [dv [pr [es [R [Nd Lk]]]]]]. injection H as Hw0. symmetry in Hw0.
    assert (S : same_dirs w w0 i).
    { split; [rewrite Hw0; reflexivity|]. split.
      - intros k Hk. rewrite Hw0. unfold node. cbn [w_nodes]. apply lookup_replace_other. exact Hk.
      - exists fdev, fm, fs, fx, fdev, mt, (N.of_nat (length data)), data. split; [exact Ei|].
        rewrite Hw0. unfold node. cbn [w_nodes]. eapply lookup_replace_same. exact Ei. }
    rewrite (resolve_same w w0 i S) in R.
    assert (Hne : di' <> i).
    { intros ->. destruct S as [_ [_ [? [? [? [? [? [? [? [? [_ Hi0]]]]]]]]]]]. rewrite Hi0 in Nd. discriminate. }
    destruct S as [_ [Ho _]]. rewrite (Ho di' Hne) in Nd. exists di', dv, pr, es. repeat split; assumption.
  - (* creating it *)
    intros H j d m s x Hj [di' [dv [pr [es [R [Nd Lk]]]]]]. injection H as Hw0. symmetry in Hw0.
    rewrite (existsb_lookup_none _ _ El) in Hw0.
    assert (Hdf : di <> fresh_ino w) by (intros E; rewrite E in En; rewrite fresh_not_in in En; discriminate).
    assert (C : created w w0 di dev par ents (basename path)).
    { split; [exact En|]. split; [exact El|]. split; [rewrite Hw0; reflexivity|]. split; [|split].
      - rewrite Hw0. unfold node. cbn [w_nodes]. apply lookup_app_some. eapply lookup_replace_same. exact En.
      - exists dev, mt, (N.of_nat (length data)), data. rewrite Hw0. unfold node. cbn [w_nodes].
        rewrite lookup_app_none; [cbn [lookup_ino]; rewrite N.eqb_refl; reflexivity|].
        apply lookup_replace_none. exact (fresh_not_in w).
      - intros k Hk1 Hk2. rewrite Hw0. unfold node. cbn [w_nodes].
        destruct (lookup_ino (w_nodes w) k) as [nk|] eqn:Ek.
        + apply lookup_app_some. rewrite lookup_replace_other by exact Hk1. exact Ek.
        + rewrite lookup_app_none by (apply lookup_replace_none; exact Ek). cbn [lookup_ino].
          destruct (k =? fresh_ino w) eqn:E; [apply N.eqb_eq in E; contradiction|reflexivity]. }
    pose proof C as [_ [_ [_ [Hd0 [[fd [fm [fs [fx Hf]]]] Ho]]]]].
    assert (Hnf : di' <> fresh_ino w) by (intros E; subst di'; congruence).
    pose proof (resolve_created w w0 di dev par ents (basename path) C _ _ R Hnf) as R'. rewrite Er in R'. inversion R'; subst di'.
    rewrite Hd0 in Nd. inversion Nd; subst. rewrite (lookup_name_app ents (basename path) _ (basename path) El) in Lk.
    rewrite (proj2 (ustr_eqb_eq _ _) eq_refl), El in Lk. inversion Lk; subst j. rewrite fresh_not_in in Hj. discriminate.
Qed.

(* ---- save_manifest: the one file the Manifest path names is the only regular file that can change ---- *)
Section SaveFrame.
  Variable compress : list N -> list N -> res (list N).
  Variable pgp_sign : list N -> option (list N) -> res (list N).
  Variable wmtime : Z.

  Theorem save_manifest_frame w l relpath sort w' l' n :
    save_manifest compress pgp_sign wmtime w l relpath sort = Ok (w', l', n) ->
    forall j d m s x, node w j = Some (IFile d m s x) -> ~ names w (pjoin rootdir relpath) j ->
    node w' j = Some (IFile d m s x).
  Proof.
    unfold save_manifest. destruct (get_m l relpath) as [mf|]; [|discriminate].
    destruct (write_file w (pjoin rootdir relpath) [] wmtime) as [w0|] eqn:W0; cbn [bind]; [|discriminate].
    destruct (dump_entries _) as [text|]; cbn [bind]; [|discriminate].
    match goal with |- context [if ?b then pgp_sign text _ else Ok text] => destruct (if b then pgp_sign text (o_keyid (l_opts l)) else Ok text) as [text'|] end;
      cbn [bind]; [|discriminate].
    destruct (utf8_encode text') as [raw|]; cbn [bind]; [|discriminate].
    match goal with |- context [match compressed_suffix relpath with Some fmt => _ | None => Ok raw end] =>
      destruct (match compressed_suffix relpath with
                | Some fmt => if mem_str fmt codec_suffixes then compress fmt raw else Err (XUnsupportedCompression fmt)
                | None => Ok raw end) as [data|] end; cbn [bind]; [|discriminate].
    destruct (write_file w0 (pjoin rootdir relpath) data wmtime) as [w1|] eqn:W1; cbn [bind]; [|discriminate].
    intros H j d m s x Hj Hn. inversion H; subst. clear H.
    pose proof (write_file_frame _ _ _ _ _ W0 j d m s x Hj Hn) as Hj0.
    apply (write_file_frame _ _ _ _ _ W1 j d m s x Hj0).
    intros Hn0. apply Hn. exact (write_names_stable _ _ _ _ _ W0 j d m s x Hj Hn0).
  Qed.
End SaveFrame.

(* ---- the same for any other path: a write or an unlink never makes a path name an old file it did not name before ---- *)
Lemma write_names_stable_any w path data mt w0 :
  write_file w path data mt = Ok w0 ->
  forall q j d m s x, node w j = Some (IFile d m s x) -> names w0 q j -> names w q j.
Proof.
  unfold write_file. destruct (resolve w (dirname path)) as [di|] eqn:Er; cbn [bind]; [|discriminate].
  destruct (node w di) as [[dev par ents| |]|] eqn:En; try discriminate.
  destruct (lookup_name ents (basename path)) as [[i|e]|] eqn:El; try discriminate.
  - destruct (node w i) as [[| fdev fm fs fx |]|] eqn:Ei; try discriminate.
    intros H q j d m s x Hj [di' [dv [pr [es [R [Nd Lk]]]]]]. injection H as Hw0. symmetry in Hw0.
    assert (S : same_dirs w w0 i).
    { split; [rewrite Hw0; reflexivity|]. split.
      - intros k Hk. rewrite Hw0. unfold node. cbn [w_nodes]. apply lookup_replace_other. exact Hk.
      - exists fdev, fm, fs, fx, fdev, mt, (N.of_nat (length data)), data. split; [exact Ei|].
        rewrite Hw0. unfold node. cbn [w_nodes]. eapply lookup_replace_same. exact Ei. }
    rewrite (resolve_same w w0 i S) in R.
    assert (Hne : di' <> i).
    { intros ->. destruct S as [_ [_ [? [? [? [? [? [? [? [? [_ Hi0]]]]]]]]]]]. rewrite Hi0 in Nd. discriminate. }
    destruct S as [_ [Ho _]]. rewrite (Ho di' Hne) in Nd. exists di', dv, pr, es. repeat split; assumption.
  - intros H q j d m s x Hj [di' [dv [pr [es [R [Nd Lk]]]]]]. injection H as Hw0. symmetry in Hw0.
    rewrite (existsb_lookup_none _ _ El) in Hw0.
    assert (Hdf : di <> fresh_ino w) by (intros E; rewrite E in En; rewrite fresh_not_in in En; discriminate).
    assert (C : created w w0 di dev par ents (basename path)).
    { split; [exact En|]. split; [exact El|]. split; [rewrite Hw0; reflexivity|]. split; [|split].
      - rewrite Hw0. unfold node. cbn [w_nodes]. apply lookup_app_some. eapply lookup_replace_same. exact En.
      - exists dev, mt, (N.of_nat (length data)), data. rewrite Hw0. unfold node. cbn [w_nodes].
        rewrite lookup_app_none; [cbn [lookup_ino]; rewrite N.eqb_refl; reflexivity|].
        apply lookup_replace_none. exact (fresh_not_in w).
      - intros k Hk1 Hk2. rewrite Hw0. unfold node. cbn [w_nodes].
        destruct (lookup_ino (w_nodes w) k) as [nk|] eqn:Ek.
        + apply lookup_app_some. rewrite lookup_replace_other by exact Hk1. exact Ek.
        + rewrite lookup_app_none by (apply lookup_replace_none; exact Ek). cbn [lookup_ino].
          destruct (k =? fresh_ino w) eqn:E; [apply N.eqb_eq in E; contradiction|reflexivity]. }
    pose proof C as [_ [_ [_ [Hd0 [[fd [fm [fs [fx Hf]]]] Ho]]]]].
    assert (Hnf : di' <> fresh_ino w) by (intros E; subst di'; congruence).
    pose proof (resolve_created w w0 di dev par ents (basename path) C _ _ R Hnf) as R'.
    destruct (N.eq_dec di' di) as [->|Hnd].
    + rewrite Hd0 in Nd. inversion Nd; subst. rewrite (lookup_name_app ents (basename path) _ (basename q) El) in Lk.
      destruct (ustr_eqb (basename q) (basename path)) eqn:E.
      * apply ustr_eqb_eq in E. rewrite E, El in Lk. inversion Lk; subst j. rewrite fresh_not_in in Hj. discriminate.
      * exists di, dv, pr, ents. repeat split; assumption.
    + rewrite (Ho di' Hnd Hnf) in Nd. exists di', dv, pr, es. repeat split; assumption.
Qed.

(* unlink: a directory loses one entry *)
Definition removed (w w0 : world) (di dev par : N) (ents : list (list N * target)) (name : list N) : Prop :=
  node w di = Some (IDir dev par ents) /\ w_root w0 = w_root w /\
  node w0 di = Some (IDir dev par (filter (fun e => negb (ustr_eqb (fst e) name)) ents)) /\
  (forall k, k <> di -> node w0 k = node w k).

Lemma lookup_name_filter ents name c t :
  lookup_name (filter (fun e : list N * target => negb (ustr_eqb (fst e) name)) ents) c = Some t -> lookup_name ents c = Some t.
Proof.
  induction ents as [|[m x] r IH]; [discriminate|]. cbn [filter fst]. destruct (ustr_eqb m name) eqn:E; cbn [negb].
  - intros H. cbn [lookup_name]. destruct (ustr_eqb c m) eqn:E2; [|apply IH; exact H].
    (* c = m = name: nothing named [name] is left in the filtered list *)
    exfalso. apply ustr_eqb_eq in E, E2. subst. clear IH. induction r as [|[m2 x2] r IH2]; [discriminate|].
    cbn [filter fst] in H. destruct (ustr_eqb m2 name) eqn:E3; cbn [negb] in H; [apply IH2; exact H|].
    cbn [lookup_name] in H. destruct (ustr_eqb name m2) eqn:E4; [|apply IH2; exact H].
    apply ustr_eqb_eq in E4. subst m2. rewrite (proj2 (ustr_eqb_eq name name) eq_refl) in E3. discriminate.
  - cbn [lookup_name]. destruct (ustr_eqb c m); [trivial|apply IH].
Qed.

Lemma resolve_comps_removed w w0 di dev par ents name : removed w w0 di dev par ents name ->
  forall comps cur k, resolve_comps w0 cur comps = Ok k -> resolve_comps w cur comps = Ok k.
Proof.
  intros [Hd [_ [Hd0 Ho]]]. induction comps as [|c r IH]; intros cur k H; [exact H|].
  cbn [resolve_comps] in *. destruct (N.eq_dec cur di) as [->|Hnd].
  - rewrite Hd0 in H. rewrite Hd. destruct c as [|c0 c']; [apply IH; exact H|].
    destruct (is_dot _); [apply IH; exact H|]. destruct (is_dotdot _); [apply IH; exact H|].
    destruct (lookup_name (filter _ ents) (c0 :: c')) as [t|] eqn:E; [|discriminate].
    rewrite (lookup_name_filter _ _ _ _ E). destruct t; [apply IH; exact H|exact H].
  - rewrite (Ho cur Hnd) in H. destruct (node w cur) as [[dv pr es| |]|]; try exact H.
    destruct c as [|c0 c']; [apply IH; exact H|].
    destruct (is_dot _); [apply IH; exact H|]. destruct (is_dotdot _); [apply IH; exact H|].
    destruct (lookup_name es (c0 :: c')) as [[j|e]|]; [apply IH; exact H|exact H|exact H].
Qed.

Lemma resolve_removed w w0 di dev par ents name : removed w w0 di dev par ents name ->
  forall p k, resolve w0 p = Ok k -> resolve w p = Ok k.
Proof.
  intros C p k H. pose proof C as [Hd [Hr [Hd0 Ho]]]. unfold resolve in *.
  destruct (existsb (N.eqb 0) p); [discriminate|]. destruct (existsb bad_surrogate p); [discriminate|].
  rewrite Hr in H. destruct (resolve_comps w0 (w_root w) _) as [k0|] eqn:E; cbn [bind] in H; [|discriminate].
  rewrite (resolve_comps_removed w w0 di dev par ents name C _ _ _ E). cbn [bind].
  destruct (py_endswith _ _); [|exact H].
  destruct (N.eq_dec k0 di) as [->|Hnd]; [rewrite Hd0 in H; rewrite Hd; exact H|rewrite (Ho k0 Hnd) in H; exact H].
Qed.

Lemma unlink_names_stable_any w path w0 :
  unlink_file w path = Ok w0 -> forall q j, names w0 q j -> names w q j.
Proof.
  unfold unlink_file. destruct (resolve w (dirname path)) as [di|] eqn:Er; cbn [bind]; [|discriminate].
  destruct (node w di) as [[dev par ents| |]|] eqn:En; try discriminate.
  destruct (lookup_name ents (basename path)); [|discriminate].
  intros H q j [di' [dv [pr [es [R [Nd Lk]]]]]]. injection H as Hw0. symmetry in Hw0.
  assert (C : removed w w0 di dev par ents (basename path)).
  { split; [exact En|]. split; [rewrite Hw0; reflexivity|]. split.
    - rewrite Hw0. unfold node. cbn [w_nodes set_dirent]. eapply lookup_replace_same. exact En.
    - intros k Hk. rewrite Hw0. unfold node. cbn [w_nodes]. apply lookup_replace_other. exact Hk. }
  pose proof C as [_ [Hr [Hd0 Ho]]].
  pose proof (resolve_removed w w0 di dev par ents _ C _ _ R) as R'.
  destruct (N.eq_dec di' di) as [->|Hnd].
  - rewrite Hd0 in Nd. inversion Nd; subst. exists di, dv, pr, ents. repeat split; try assumption.
    eapply lookup_name_filter. exact Lk.
  - rewrite (Ho di' Hnd) in Nd. exists di', dv, pr, es. repeat split; assumption.
Qed.

(* after unlink the path names nothing any more *)
Lemma lookup_name_filter_self ents name :
  lookup_name (filter (fun e : list N * target => negb (ustr_eqb (fst e) name)) ents) name = None.
Proof.
  induction ents as [|[m x] r IH]; [reflexivity|]. cbn [filter fst]. destruct (ustr_eqb m name) eqn:E; cbn [negb]; [exact IH|].
  cbn [lookup_name]. destruct (ustr_eqb name m) eqn:E2; [|exact IH].
  apply ustr_eqb_eq in E2. subst m. rewrite (proj2 (ustr_eqb_eq name name) eq_refl) in E. discriminate.
Qed.
Theorem unlink_removes_name w path w' : unlink_file w path = Ok w' -> forall j, ~ names w' path j.
Proof.
  unfold unlink_file. destruct (resolve w (dirname path)) as [di|] eqn:Er; cbn [bind]; [|discriminate].
  destruct (node w di) as [[dev par ents| |]|] eqn:En; try discriminate.
  destruct (lookup_name ents (basename path)); [|discriminate].
  intros H j [di' [dv [pr [es [R [Nd Lk]]]]]]. injection H as Hw0. symmetry in Hw0.
  assert (C : removed w w' di dev par ents (basename path)).
  { split; [exact En|]. split; [rewrite Hw0; reflexivity|]. split.
    - rewrite Hw0. unfold node. cbn [w_nodes set_dirent]. eapply lookup_replace_same. exact En.
    - intros k Hk. rewrite Hw0. unfold node. cbn [w_nodes]. apply lookup_replace_other. exact Hk. }
  pose proof (resolve_removed w w' di dev par ents _ C _ _ R) as R'. rewrite Er in R'. inversion R'; subst di'.
  destruct C as [_ [_ [Hd0 _]]]. rewrite Hd0 in Nd. inversion Nd; subst. rewrite lookup_name_filter_self in Lk. discriminate.
Qed.
