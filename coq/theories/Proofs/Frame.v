(* C10: who writes.  (1) Of all operations of the executable loader model only "save" returns a
   different filesystem; verification, lookups, update, set_timestamp and reload leave it untouched -
   also when they fail.  (2) Writing or unlinking one path changes no other file: every regular-file
   inode other than the one the path names keeps its device, mtime, size and content. *)
From Coq Require Import List NArith ZArith Bool Lia String.
From Gemato Require Import Py.PyStr Py.PyLit Py.PyPath Gen.Tables Model.Entry Model.Text Model.OpenPGP
  Model.Hash Model.FS Model.Verify Model.Loader Model.Update Gen.Profile Exec.Sx Exec.Oracles Exec.Tree.
Import ListNotations.
Open Scope N_scope.

Section OnlySave.
  Variable dt : otable.
  Variable ct : ctable.
  Variable wmtime : Z.
  Variable reload : world -> res loader.

  Definition is_save (op : sx) : bool :=
    match x_list op with SS c :: _ => ustr_eqb c (u "save") | _ => false end.

  Theorem only_save_writes w l op :
    is_save op = false -> fst (fst (run_op dt ct wmtime reload w l op)) = w.
  Proof.
    unfold is_save, run_op. destruct (x_list op) as [|h args]; [reflexivity|]. destruct h as [z|c|xs]; try reflexivity.
    intros Hs. rewrite Hs.
    repeat (match goal with |- context [if ustr_eqb c ?s then _ else _] => destruct (ustr_eqb c s) end);
      try reflexivity;
      repeat (match goal with |- context [match ?x with _ => _ end] => destruct x end; try reflexivity).
  Qed.

  (* a failing save returns the filesystem it was given (the model does not expose partial saves: see DESIGN) *)
  Fixpoint worlds_of (w : world) (l : loader) (ops : list sx) : list world :=
    match ops with
    | [] => [w]
    | op :: r => let '(w', l', _) := run_op dt ct wmtime reload w l op in w :: worlds_of w' l' r
    end.
  Theorem no_save_no_write ops : forall w l,
    forallb (fun op => negb (is_save op)) ops = true -> forall w', In w' (worlds_of w l ops) -> w' = w.
  Proof.
    induction ops as [|op r IH]; intros w l H w' Hin.
    - destruct Hin as [<-|[]]. reflexivity.
    - cbn [forallb] in H. apply andb_true_iff in H. destruct H as [H1 H2]. apply negb_true_iff in H1.
      cbn [worlds_of] in Hin. pose proof (only_save_writes w l op H1) as Hw.
      destruct (run_op dt ct wmtime reload w l op) as [[w1 l1] out]. cbn in Hw. subst w1.
      destruct Hin as [<-|Hin]; [reflexivity|]. eapply IH; eassumption.
  Qed.
End OnlySave.

(* ---- frame of the two writing primitives ---- *)
Lemma lookup_replace_other nodes i n j : j <> i -> lookup_ino (replace_node nodes i n) j = lookup_ino nodes j.
Proof.
  intros Hj. induction nodes as [|[k m] r IH]; [reflexivity|].
  cbn [replace_node map fst]. destruct (k =? i) eqn:E.
  - cbn [lookup_ino]. apply N.eqb_eq in E. subst k. destruct (j =? i) eqn:E2; [apply N.eqb_eq in E2; contradiction|].
    fold (replace_node r i n). exact IH.
  - cbn [lookup_ino]. destruct (j =? k); [reflexivity|]. fold (replace_node r i n). exact IH.
Qed.
Lemma lookup_app_some nodes extra j n : lookup_ino nodes j = Some n -> lookup_ino (nodes ++ extra) j = Some n.
Proof.
  induction nodes as [|[k m] r IH]; [discriminate|]. cbn [lookup_ino app]. destruct (j =? k); [auto|exact IH].
Qed.

Definition names (w : world) (path : list N) (j : N) : Prop :=
  exists di dev par ents, resolve w (dirname path) = Ok di /\ node w di = Some (IDir dev par ents) /\
                          lookup_name ents (basename path) = Some (TIno j).

Theorem write_file_frame w path data mt w' :
  write_file w path data mt = Ok w' ->
  forall j dev m s x, node w j = Some (IFile dev m s x) -> ~ names w path j -> node w' j = Some (IFile dev m s x).
Proof.
  unfold write_file. destruct (resolve w (dirname path)) as [di|] eqn:Er; cbn [bind]; [|discriminate].
  destruct (node w di) as [[dev par ents| |]|] eqn:En; try discriminate.
  destruct (lookup_name ents (basename path)) as [[i|e]|] eqn:El; try discriminate.
  - destruct (node w i) as [[| fdev fm fs fx |]|] eqn:Ei; try discriminate.
    intros H j d m s x Hj Hn. inversion H; subst. unfold node. cbn [w_nodes].
    rewrite lookup_replace_other; [exact Hj|].
    intros ->. apply Hn. exists di, dev, par, ents. repeat split; assumption.
  - intros H j d m s x Hj Hn. inversion H; subst. unfold node. cbn [w_nodes].
    apply lookup_app_some. rewrite lookup_replace_other; [exact Hj|].
    intros ->. rewrite En in Hj. discriminate.
Qed.

Theorem unlink_file_frame w path w' :
  unlink_file w path = Ok w' ->
  forall j dev m s x, node w j = Some (IFile dev m s x) -> node w' j = Some (IFile dev m s x).
Proof.
  unfold unlink_file. destruct (resolve w (dirname path)) as [di|] eqn:Er; cbn [bind]; [|discriminate].
  destruct (node w di) as [[dev par ents| |]|] eqn:En; try discriminate.
  destruct (lookup_name ents (basename path)); [|discriminate].
  intros H j d m s x Hj. inversion H; subst. unfold node. cbn [w_nodes].
  rewrite lookup_replace_other; [exact Hj|]. intros ->. rewrite En in Hj. discriminate.
Qed.

(* the in-place refresh keeps what the entry is: tag (entry type), path and AUX name *)
Theorem refresh_keeps_type e size c :
  e_tag (with_size_cks e size c) = e_tag e /\ e_path (with_size_cks e size c) = e_path e /\
  match e, with_size_cks e size c with
  | EFile _ _ a _ _, EFile _ _ a' _ _ => a' = a
  | ETs d, ETs d' => d = d'
  | EIgn p, EIgn p' => p = p'
  | _, _ => False
  end.
Proof. destruct e; cbn; repeat split; reflexivity. Qed.
