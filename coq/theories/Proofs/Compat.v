(* C01: when are two entries for one path compatible?  The answer of verify_entry_compatibility on two file entries is
   [true] exactly when the tags are equal or both of the MANIFEST/DATA/EBUILD/AUX family, the sizes are equal, and every
   hash that both entries carry has the same value in both - however many other hashes either entry carries, and in
   whatever order the dicts list them.  A single conflicting common hash is never forgiven. *)
From Coq Require Import List NArith ZArith Bool Lia Permutation.
From Gemato Require Import Py.PyStr Py.PyPath Py.PyTime Gen.Tables Model.Entry Model.Hash Model.FS Model.Verify.
From Gemato Require Import Proofs.Basics Proofs.SortTheory.
Import ListNotations.
Open Scope N_scope.

Definition tags_compatible (t1 t2 : tag) : Prop :=
  t1 = t2 \/ (mem_str (tag_str t1) compatible_tags = true /\ mem_str (tag_str t2) compatible_tags = true).

Definition common_hashes_agree (c1 c2 : sums) : Prop :=
  forall h a b, assoc h c1 = Some a -> assoc h c2 = Some b -> a = b.

Lemma in_nodup_str l x : In x (nodup_str l) <-> In x l.
Proof.
  induction l as [|y l IH]; [tauto|]. cbn [nodup_str]. destruct (mem_str y l) eqn:E.
  - rewrite IH. split; [intros H; right; exact H|]. intros [<-|H]; [|exact H].
    unfold mem_str in E. apply existsb_exists in E. destruct E as [z [Hz Ez]].
    apply Basics.ustr_eqb_eq in Ez. subst z. exact Hz.
  - cbn [In]. rewrite IH. tauto.
Qed.

Lemma in_sorted l x : In x (sorted_strs l) <-> In x l.
Proof.
  unfold sorted_strs. split; intros H.
  - eapply Permutation_in; [apply py_sorted_perm|exact H].
  - eapply Permutation_in; [apply Permutation_sym, py_sorted_perm|exact H].
Qed.

Lemma assoc_in_keys {A} h (c : list (ustr * A)) v : assoc h c = Some v -> In h (map fst c).
Proof.
  induction c as [|[k x] c IH]; [discriminate|]. cbn [assoc map fst].
  destruct (ustr_eqb h k) eqn:E; [apply Basics.ustr_eqb_eq in E; subst; intros _; left; reflexivity|].
  intros H. right. apply IH. exact H.
Qed.

Definition diff_of (c1 c2 : sums) (h : ustr) : compat_diff :=
  let h1 := assoc h c1 in let h2 := assoc h c2 in
  if match h1, h2 with
     | Some a, Some b => ustr_eqb a b
     | None, None => true
     | _, _ => false
     end then [] else [(h, h1, h2)].

Lemma forallb_flat_map {A B} (f : A -> list B) (p : B -> bool) l :
  forallb p (flat_map f l) = true <-> forall x, In x l -> forallb p (f x) = true.
Proof.
  induction l as [|y l IH]; cbn [flat_map]; [split; [intros _ x []|reflexivity]|].
  rewrite forallb_app, andb_true_iff, IH. split.
  - intros [H1 H2] x [<-|Hx]; [exact H1|apply H2; exact Hx].
  - intros H. split; [apply H; left; reflexivity|intros x Hx; apply H; right; exact Hx].
Qed.

Definition no_conflict (d : list N * option (list N) * option (list N)) : bool :=
  match d with (_, Some _, Some _) => false | _ => true end.

Lemma diff_of_ok c1 c2 h : forallb no_conflict (diff_of c1 c2 h) = true <->
  (forall a b, assoc h c1 = Some a -> assoc h c2 = Some b -> a = b).
Proof.
  unfold diff_of. destruct (assoc h c1) as [a|], (assoc h c2) as [b|]; cbn.
  - destruct (ustr_eqb a b) eqn:E; cbn.
    + apply Basics.ustr_eqb_eq in E. subst. split; [intros _ a' b' H1 H2; congruence|reflexivity].
    + split; [discriminate|]. intros H. specialize (H a b eq_refl eq_refl). subst.
      rewrite Basics.ustr_eqb_refl in E. discriminate.
  - split; [intros _ ? ? _ H; discriminate|reflexivity].
  - split; [intros _ ? ? H; discriminate|reflexivity].
  - split; [intros _ ? ? H; discriminate|reflexivity].
Qed.

Theorem compat_spec t1 p1 a1 s1 c1 t2 p2 a2 s2 c2 ok diff :
  t1 <> TTIMESTAMP -> t1 <> TIGNORE -> t2 <> TTIMESTAMP -> t2 <> TIGNORE ->
  verify_entry_compatibility (EFile t1 p1 a1 s1 c1) (EFile t2 p2 a2 s2 c2) = Ok (ok, diff) ->
  (ok = true <-> tags_compatible t1 t2 /\ s1 = s2 /\ common_hashes_agree c1 c2).
Proof.
  intros N1 N2 N3 N4. unfold verify_entry_compatibility. cbn [e_tag].
  destruct (negb (ustr_eqb (tag_str t1) (tag_str t2)) &&
            (negb (mem_str (tag_str t1) compatible_tags) || negb (mem_str (tag_str t2) compatible_tags))) eqn:Et.
  - intros H. inversion H; subst. split; [discriminate|]. intros [[->|[M1 M2]] _].
    + rewrite Basics.ustr_eqb_refl in Et. discriminate.
    + rewrite M1, M2 in Et. cbn in Et. rewrite andb_false_r in Et. discriminate.
  - assert (Htc : tags_compatible t1 t2).
    { apply andb_false_iff in Et. destruct Et as [E|E].
      - left. apply negb_false_iff in E. apply tag_str_inj in E. exact E.
      - right. apply orb_false_iff in E. destruct E as [E1 E2]. apply negb_false_iff in E1, E2. split; assumption. }
    destruct (negb (s1 =? s2)%Z) eqn:Es.
    + intros H. inversion H; subst. split; [discriminate|]. intros [_ [E _]]. subst. rewrite Z.eqb_refl in Es. discriminate.
    + apply negb_false_iff, Z.eqb_eq in Es. subst s2. intros H. inversion H as [[Hok Hd]]. clear H Hd.
      fold (diff_of c1 c2). change (fun d : list N * option (list N) * option (list N) => match d with (_, Some _, Some _) => false | _ => true end) with no_conflict.
      rewrite forallb_flat_map. split.
      * intros Hall. split; [exact Htc|]. split; [reflexivity|]. intros h a b H1 H2.
        assert (Hin : In h (sorted_strs (nodup_str (map fst (c1 ++ c2))))).
        { apply in_sorted, in_nodup_str. rewrite map_app. apply in_or_app. left. eapply assoc_in_keys; exact H1. }
        apply (proj1 (diff_of_ok c1 c2 h) (Hall h Hin)); assumption.
      * intros [_ [_ Hag]] h _. apply diff_of_ok. intros a b. apply Hag.
Qed.

(* one conflicting common hash makes the pair incompatible, whatever else the entries carry *)
Corollary conflict_not_forgiven t1 p1 a1 s1 c1 t2 p2 a2 s2 c2 ok diff h a b :
  t1 <> TTIMESTAMP -> t1 <> TIGNORE -> t2 <> TTIMESTAMP -> t2 <> TIGNORE ->
  assoc h c1 = Some a -> assoc h c2 = Some b -> a <> b ->
  verify_entry_compatibility (EFile t1 p1 a1 s1 c1) (EFile t2 p2 a2 s2 c2) = Ok (ok, diff) -> ok = false.
Proof.
  intros N1 N2 N3 N4 H1 H2 Hne H. destruct ok; [|reflexivity]. exfalso.
  destruct (proj1 (compat_spec _ _ _ _ _ _ _ _ _ _ _ _ N1 N2 N3 N4 H) eq_refl) as [_ [_ Hag]].
  apply Hne. eapply Hag; eassumption.
Qed.
