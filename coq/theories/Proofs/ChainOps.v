(* C02, the consumers of the chain.  Every reading operation of the loader - entry lookups, single-path verification,
   DIST / TIMESTAMP lookups, directory verification, in any order on one loader object - keeps the chain invariant of
   Proofs/Chain.v (every loaded Manifest other than the top-level one matched a MANIFEST entry of a loaded Manifest before
   it was parsed), and what the lookups answer is an entry of a Manifest that is loaded - hence vouched for - afterwards:
   no entry of an unvouched Manifest can influence an answer. *)
From Coq Require Import List NArith ZArith Bool Lia Permutation.
From Gemato Require Import Py.PyStr Py.PyPath Gen.Tables Gen.Util Model.Entry Model.Text Model.OpenPGP Model.Hash
  Model.FS Model.Verify Model.Loader.
From Gemato Require Import Proofs.Basics Proofs.Chain Proofs.ReadSafe.
Import ListNotations.
Open Scope N_scope.

Section ChainOps.
  Variable L : hashlib.
  Variable decompress : list N -> list N -> res (list N).
  Variable pgp_verify : list N -> res sigdata.
  Variable w : world.

  Definition Inv (l : loader) : Prop := Faithful decompress pgp_verify w l /\ Accepted L decompress pgp_verify w l.

  Lemma loads_inv l path rc l' : Inv l -> load_manifests_for_path L decompress pgp_verify rounds_fuel w l path rc true = Ok l' -> Inv l'.
  Proof. intros [HF HA] H. destruct (load_manifests_accepted L decompress pgp_verify w _ _ _ _ _ HF HA H) as [A [B _]]. split; assumption. Qed.

  (* an entry found by first_some over the Manifests governing a path belongs to a loaded Manifest *)
  Definition from_loaded (l : loader) (e : entry) : Prop := exists mp m, In (mp, m) (l_loaded l) /\ In e (entries_of m).

  Lemma first_some_in {A B} (f : A -> option B) l b : first_some f l = Some b -> exists a, In a l /\ f a = Some b.
  Proof.
    induction l as [|x r IH]; [discriminate|]. cbn [first_some]. destruct (f x) as [b'|] eqn:E.
    - intros H. inversion H; subst. exists x. split; [left; reflexivity|exact E].
    - intros H. destruct (IH H) as [a [Ha Hf]]. exists a. split; [right; exact Ha|exact Hf].
  Qed.

  Theorem find_path_entry_from_loaded l path l' e : Inv l ->
    find_path_entry_l L decompress pgp_verify w l path = Ok (l', Some e) -> Inv l' /\ from_loaded l' e.
  Proof.
    intros HI. unfold find_path_entry_l.
    destruct (load_manifests_for_path L decompress pgp_verify rounds_fuel w l path false true) as [l1|] eqn:El; cbn [bind]; [|discriminate].
    intros H. inversion H; subst. clear H. split; [eapply loads_inv; eassumption|].
    match goal with H : first_some _ _ = Some e |- _ => apply first_some_in in H; destruct H as [[[k d] m] [Hin Hf]] end.
    apply in_iter_manifests in Hin. destruct Hin as [Hin _]. apply first_some_in in Hf. destruct Hf as [e0 [He0 Hf]].
    exists k, m. split; [exact Hin|].
    destruct e0 as [dt|p|t p a s c]; [discriminate| |].
    - destruct (path_starts_with _ _); [inversion Hf; subst; exact He0|discriminate].
    - destruct (tag_eqb t TDIST); [discriminate|]. destruct (ustr_eqb _ _); [inversion Hf; subst; exact He0|discriminate].
  Qed.

  Theorem find_dist_entry_from_loaded l f relpath l' e : Inv l ->
    find_dist_entry_l L decompress pgp_verify w l f relpath = Ok (l', Some e) -> Inv l' /\ from_loaded l' e.
  Proof.
    intros HI. unfold find_dist_entry_l.
    destruct (load_manifests_for_path L decompress pgp_verify rounds_fuel w l (relpath ++ [sl]) false true) as [l1|] eqn:El; cbn [bind]; [|discriminate].
    intros H. inversion H; subst. clear H. split; [eapply loads_inv; eassumption|].
    match goal with H : first_some _ _ = Some e |- _ => apply first_some_in in H; destruct H as [[[k d] m] [Hin Hf]] end.
    apply in_iter_manifests in Hin. destruct Hin as [Hin _]. apply first_some_in in Hf. destruct Hf as [e0 [He0 Hf]].
    exists k, m. split; [exact Hin|].
    destruct e0 as [dt|p|t p a s c]; try discriminate. destruct t; try discriminate.
    destruct (ustr_eqb p f); [inversion Hf; subst; exact He0|discriminate].
  Qed.

  (* every reading operation keeps the invariant *)
  Lemma run_rop_inv l o l' : Inv l -> run_rop L decompress pgp_verify w l o = Ok l' -> Inv l'.
  Proof.
    intros HI. destruct o as [p|p|p|f p| |p pol lm]; cbn [run_rop].
    - unfold find_path_entry_l. destruct (load_manifests_for_path L decompress pgp_verify rounds_fuel w l p false true) as [l1|] eqn:El; cbn [bind]; [|discriminate].
      intros H. inversion H; subst. eapply loads_inv; eassumption.
    - unfold verify_path_l, find_path_entry_l. destruct (load_manifests_for_path L decompress pgp_verify rounds_fuel w l p false true) as [l1|] eqn:El; cbn [bind]; [|discriminate].
      destruct (Verify.verify_path L w _ _ None None); cbn [bind]; [|discriminate]. intros H. inversion H; subst. eapply loads_inv; eassumption.
    - unfold assert_path_verifies, find_path_entry_l. destruct (load_manifests_for_path L decompress pgp_verify rounds_fuel w l p false true) as [l1|] eqn:El; cbn [bind]; [|discriminate].
      destruct (Verify.verify_path L w _ _ _ None) as [[[] d]|]; cbn [bind]; try discriminate. intros H. inversion H; subst. eapply loads_inv; eassumption.
    - unfold find_dist_entry_l. destruct (load_manifests_for_path L decompress pgp_verify rounds_fuel w l (p ++ [sl]) false true) as [l1|] eqn:El; cbn [bind]; [|discriminate].
      intros H. inversion H; subst. eapply loads_inv; eassumption.
    - unfold find_timestamp_l. destruct (load_manifests_for_path L decompress pgp_verify rounds_fuel w l [] false true) as [l1|] eqn:El; cbn [bind]; [|discriminate].
      intros H. inversion H; subst. eapply loads_inv; eassumption.
    - unfold assert_directory_verifies, get_file_entry_dict.
      destruct (load_manifests_for_path L decompress pgp_verify rounds_fuel w l p true true) as [l1|] eqn:El; cbn [bind]; [|discriminate].
      match goal with |- context [bind (fold_left ?F ?a ?b) _] => destruct (fold_left F a b) as [ed|]; cbn [bind]; [|discriminate] end.
      destruct (walk_verify L (nodes_fuel w) w _ (walk_top p) p [] ed true []) as [[[[i e] r] lg]|]; cbn [bind]; [|discriminate].
      destruct (fold_left _ e (Ok (r, lg))) as [rr|]; cbn [bind]; [|discriminate].
      intros H. inversion H; subst. eapply loads_inv; eassumption.
  Qed.

  Theorem read_ops_inv ops : forall l l', Inv l -> run_rops L decompress pgp_verify w l ops = Ok l' -> Inv l'.
  Proof.
    induction ops as [|o r IH]; intros l l' HI H; [inversion H; subst; exact HI|]. cbn [run_rops] in H.
    destruct (run_rop L decompress pgp_verify w l o) as [l1|] eqn:E; cbn [bind] in H; [|discriminate].
    eapply IH; [eapply run_rop_inv; eassumption|exact H].
  Qed.

  (* after any history of reading operations on a freshly constructed loader, a lookup answers from a vouched Manifest *)
  Theorem lookup_after_history top opts xdev ops l0 l path l' e :
    new_loader L decompress pgp_verify w top opts false xdev = Ok l0 ->
    run_rops L decompress pgp_verify w l0 ops = Ok l ->
    find_path_entry_l L decompress pgp_verify w l path = Ok (l', Some e) ->
    Accepted L decompress pgp_verify w l' /\ from_loaded l' e.
  Proof.
    intros Hn Hr Hf. pose proof (new_loader_accepted L decompress pgp_verify w _ _ _ _ Hn) as H0.
    pose proof (read_ops_inv ops l0 l H0 Hr) as H1. destruct (find_path_entry_from_loaded l path l' e H1 Hf) as [[_ A] B]. split; assumption.
  Qed.
End ChainOps.
