(* C20: the fast generator scripts write entry lines without the escaping machinery.  For portable names (no
   character that gemato would escape) that line is, field for field, the line gemato's own writer produces for
   the entry - so (with the C08 round trip) the reference reader gets exactly the entry the script meant. *)
From Coq Require Import List NArith ZArith Bool Lia.
From Gemato Require Import Py.PyStr Py.PyPath Gen.Tables Gen.Util Model.Entry.
From Gemato Require Import Proofs.Basics.
Import ListNotations.
Open Scope N_scope.

Definition portable (p : ustr) : Prop := Forall (fun c => disallowed_path_char c = false) p.
Definition s_BLAKE2B : ustr := [66;76;65;75;69;50;66].
Definition s_SHA512 : ustr := [83;72;65;53;49;50].

Lemma encode_path_portable p : portable p -> encode_path p = p.
Proof.
  unfold portable, encode_path. induction p as [|c p IH]; intros H; [reflexivity|].
  inversion H as [|? ? Hc Hp]; subst. cbn [flat_map]. rewrite Hc. cbn [app]. f_equal. apply IH. exact Hp.
Qed.

Lemma sorted_two d1 d2 : sorted_cks [(s_BLAKE2B, d1); (s_SHA512, d2)] = [(s_BLAKE2B, d1); (s_SHA512, d2)].
Proof. reflexivity. Qed.

(* DATA / MISC / EBUILD / MANIFEST lines as gen_fast_manifest.py formats them: "<tag> <path> <size> BLAKE2B <d1> SHA512 <d2>" *)
Theorem fast_line_canonical t p size d1 d2 :
  t <> TAUX -> portable p ->
  to_list (EFile t p [] size [(s_BLAKE2B, d1); (s_SHA512, d2)])
  = Ok [tag_str t; p; str_of_Z size; s_BLAKE2B; d1; s_SHA512; d2].
Proof.
  intros Ht Hp. unfold to_list. rewrite (encode_path_portable p Hp), sorted_two. cbn [flat_map fst snd app].
  destruct t; try reflexivity. contradiction.
Qed.

(* AUX lines carry the path below files/ (a path that does not end in a slash) *)
Lemma rstrip_id s z : z <> 47 -> py_rstrip (s ++ [z]) [47] = s ++ [z].
Proof.
  intros Hz. unfold py_rstrip. rewrite rev_app_distr. cbn [rev app lstrip_set existsb].
  destruct (z =? 47) eqn:E; [apply N.eqb_eq in E; contradiction|]. cbn [orb].
  change (z :: rev s) with ([z] ++ rev s). rewrite rev_app_distr, rev_involutive. reflexivity.
Qed.

Theorem fast_aux_line_canonical q0 z size d1 d2 :
  let q := q0 ++ [z] in
  portable q -> z <> 47 ->
  to_list (EFile TAUX (s_files ++ 47 :: q) q size [(s_BLAKE2B, d1); (s_SHA512, d2)])
  = Ok [tag_str TAUX; q; str_of_Z size; s_BLAKE2B; d1; s_SHA512; d2].
Proof.
  intros q Hq Hz. unfold to_list.
  assert (Hp : portable (s_files ++ 47 :: q)).
  { unfold portable. apply Forall_app. split; [repeat constructor|]. constructor; [reflexivity|exact Hq]. }
  rewrite (encode_path_portable _ Hp), sorted_two. cbn [flat_map fst snd app].
  assert (Hin : path_inside_dir (s_files ++ 47 :: q) s_files = true).
  { unfold path_inside_dir, q. replace (s_files ++ 47 :: q0 ++ [z]) with ((s_files ++ 47 :: q0) ++ [z]) by (rewrite <- app_assoc; reflexivity).
    rewrite (rstrip_id _ z Hz). reflexivity. }
  rewrite Hin. reflexivity.
Qed.
