(* The parser only ever answers with entries, ManifestSyntaxError or ManifestUnsignedData,
   and each malformed class of line is rejected. *)
From Coq Require Import List NArith ZArith Bool Lia ZifyBool ZifyN Arith.
From Gemato Require Import Py.PyStr Py.PyTime Gen.PyFacts Gen.Tables Gen.Util Model.Entry Model.Text.
From Gemato Require Import Proofs.Basics.
Import ListNotations.
Open Scope N_scope.

Definition parser_exn (e : exn) : Prop := e = XSyntax \/ e = XUnsigned.
Definition only_syntax {A} (r : res A) : Prop := match r with Ok _ => True | Err e => e = XSyntax end.
Definition only_parser {A} (r : res A) : Prop := match r with Ok _ => True | Err e => parser_exn e end.

(* ---- decode ------------------------------------------------------------------------ *)
Lemma hexparse_len k : forall s acc v r, hexparse k s acc = Some (v, r) -> (length r + k = length s)%nat.
Proof.
  induction k as [|k IH]; intros s acc v r H.
  - cbn in H. inversion H; subst. lia.
  - cbn [hexparse] in H. destruct s as [|c s]; [discriminate|]. destruct (hexval c); [|discriminate].
    apply IH in H. cbn [length]. lia.
Qed.
Lemma try_forms_len forms : forall s v r, try_forms forms s = Some (v, r) -> (length r < length s)%nat.
Proof.
  induction forms as [|[l k] forms IH]; intros s v r H; [discriminate|].
  cbn [try_forms] in H. destruct s as [|c s]; [discriminate|].
  destruct (c =? l).
  - destruct (hexparse k s 0) as [[v' r']|] eqn:E.
    + inversion H; subst. apply hexparse_len in E. cbn [length]. lia.
    + apply IH in H. exact H.
  - apply IH in H. exact H.
Qed.

Lemma decode_fuel_enough f : forall s, (length s < f)%nat ->
  match decode_fuel f s with
  | Ok p => (s <> [] -> p <> [])
  | Err e => e = XSyntax
  end.
Proof.
  induction f as [|f IH]; intros s Hl; [lia|].
  cbn [decode_fuel]. destruct s as [|c r]; [intros H; congruence|].
  cbn [length] in Hl. destruct (c =? 92).
  - destruct (try_forms escape_forms r) as [[v r']|] eqn:E; [|reflexivity].
    destruct (v <=? max_cp); [|reflexivity].
    apply try_forms_len in E. specialize (IH r').
    destruct (decode_fuel f r'); cbn [bind]; [intros _; discriminate|apply IH; lia].
  - specialize (IH r). destruct (decode_fuel f r); cbn [bind]; [intros _; discriminate|apply IH; lia].
Qed.

Lemma decode_path_total s : match decode_path s with Ok p => (s <> [] -> p <> []) | Err e => e = XSyntax end.
Proof. unfold decode_path. apply decode_fuel_enough. lia. Qed.

(* ---- fields ------------------------------------------------------------------------ *)
(* process_path: accepted paths are non-empty and relative, whatever the escaping *)
Lemma process_path_spec data :
  match process_path data with
  | Ok p => p <> [] /\ hd 0 p <> slash /\ exists t e, data = [t; e] /\ decode_path e = Ok p
  | Err e => e = XSyntax
  end.
Proof.
  unfold process_path. destruct data as [|t [|e [|x data]]]; try reflexivity.
  destruct e as [|c r]; [reflexivity|]. destruct (c =? slash); [reflexivity|].
  pose proof (decode_path_total (c :: r)) as H.
  destruct (decode_path (c :: r)) as [p|ex] eqn:E; cbn [bind]; [|exact H].
  destruct p as [|c' p']; [exfalso; apply H; [discriminate|reflexivity]|].
  destruct (c' =? slash) eqn:E2; [reflexivity|].
  split; [discriminate|]. split; [cbn; unfold slash in *; lia|]. eexists; eexists; split; [reflexivity|exact E].
Qed.

Lemma pair_ind {A} (P : list A -> Prop) :
  P [] -> (forall k, P [k]) -> (forall k v l, P l -> P (k :: v :: l)) -> forall l, P l.
Proof.
  intros H0 H1 H2. assert (G : forall l, P l /\ forall k, P (k :: l)).
  { induction l as [|x l [IH1 IH2]]; [split; [exact H0|exact H1]|]. split; [apply IH2|]. intros k. apply H2. exact IH1. }
  intros l. apply G.
Qed.

Lemma parse_cks_total l : forall acc, only_syntax (parse_cks l acc).
Proof.
  induction l as [|k|k v l IH] using pair_ind; intros acc.
  - exact I.
  - reflexivity.
  - cbn [parse_cks]. apply IH.
Qed.
(* a checksum name without a value is rejected *)
Lemma parse_cks_odd l : forall acc, Nat.odd (length l) = true -> parse_cks l acc = Err XSyntax.
Proof.
  induction l as [|k|k v l IH] using pair_ind; intros acc H.
  - discriminate.
  - reflexivity.
  - cbn [parse_cks]. apply IH. cbn [length] in H.
    rewrite Nat.odd_succ, Nat.even_succ in H. exact H.
Qed.

Lemma process_checksums_spec data :
  match process_checksums data with
  | Ok (z, c) => (0 <= z)%Z /\ exists t p sz rest, data = t :: p :: sz :: rest /\
                 py_int nd_starts sz = Some z /\ Nat.even (length rest) = true
  | Err e => e = XSyntax
  end.
Proof.
  unfold process_checksums. destruct data as [|t [|p [|sz rest]]]; try reflexivity.
  destruct (py_int nd_starts sz) as [z|] eqn:E; [|reflexivity].
  destruct (z <? 0)%Z eqn:Ez; [reflexivity|].
  pose proof (parse_cks_total rest []) as H.
  destruct (parse_cks rest []) as [c|ex] eqn:Ec; cbn [bind]; [|exact H].
  split; [lia|]. exists t, p, sz, rest. split; [reflexivity|]. split; [exact E|].
  destruct (Nat.even (length rest)) eqn:Ev; [reflexivity|].
  rewrite parse_cks_odd in Ec; [discriminate|]. unfold Nat.odd. rewrite Ev. reflexivity.
Qed.

(* ---- from_list: total, and what acceptance implies ------------------------------------- *)
Definition entry_sane (e : entry) : Prop :=
  match e with
  | ETs d => dt_valid d = true
  | EIgn p => p <> [] /\ hd 0 p <> slash
  | EFile t p aux size _ =>
      (0 <= size)%Z /\
      match t with
      | TAUX => aux <> [] /\ hd 0 aux <> slash /\ p = path_join s_files aux
      | TDIST => p <> [] /\ hd 0 p <> slash /\ contains_cp slash p = false
      | _ => p <> [] /\ hd 0 p <> slash
      end
  end.

Lemma strptime_valid s d : strptime nd_starts s = Some d -> dt_valid d = true.
Proof.
  unfold strptime. destruct (strptime_matches nd_starts s) as [|[d' rest] l]; [discriminate|].
  destruct rest; [|discriminate]. destruct (dt_valid d') eqn:E; [|discriminate].
  intros H. inversion H; subst. exact E.
Qed.

Theorem from_list_spec t data :
  match from_list t data with
  | Ok e => entry_sane e /\ e_tag e = t
  | Err ex => ex = XSyntax
  end.
Proof.
  destruct t; cbn [from_list].
  - (* TIMESTAMP *) destruct data as [|a [|v [|x data]]]; try reflexivity.
    destruct (strptime nd_starts v) eqn:E; [|reflexivity]. split; [eapply strptime_valid; exact E|reflexivity].
  - (* MANIFEST *)
    pose proof (process_path_spec (firstn 2 data)) as Hp. destruct (process_path (firstn 2 data)) as [p|]; cbn [bind]; [|exact Hp].
    pose proof (process_checksums_spec data) as Hc. destruct (process_checksums data) as [[z c]|]; cbn [bind]; [|exact Hc].
    cbn. split; [|reflexivity]. split; [apply Hc|]. split; apply Hp.
  - (* IGNORE *)
    pose proof (process_path_spec data) as Hp. destruct (process_path data) as [p|]; cbn [bind]; [|exact Hp].
    split; [|reflexivity]. cbn. split; apply Hp.
  - (* DATA *)
    pose proof (process_path_spec (firstn 2 data)) as Hp. destruct (process_path (firstn 2 data)) as [p|]; cbn [bind]; [|exact Hp].
    pose proof (process_checksums_spec data) as Hc. destruct (process_checksums data) as [[z c]|]; cbn [bind]; [|exact Hc].
    cbn. split; [|reflexivity]. split; [apply Hc|]. split; apply Hp.
  - (* DIST *)
    pose proof (process_path_spec (firstn 2 data)) as Hp. destruct (process_path (firstn 2 data)) as [p|]; cbn [bind]; [|exact Hp].
    destruct (contains_cp slash p) eqn:Es; [reflexivity|].
    pose proof (process_checksums_spec data) as Hc. destruct (process_checksums data) as [[z c]|]; cbn [bind]; [|exact Hc].
    cbn. split; [|reflexivity]. split; [apply Hc|]. split; [apply Hp|]. split; [apply Hp|exact Es].
  - (* EBUILD *)
    pose proof (process_path_spec (firstn 2 data)) as Hp. destruct (process_path (firstn 2 data)) as [p|]; cbn [bind]; [|exact Hp].
    pose proof (process_checksums_spec data) as Hc. destruct (process_checksums data) as [[z c]|]; cbn [bind]; [|exact Hc].
    cbn. split; [|reflexivity]. split; [apply Hc|]. split; apply Hp.
  - (* MISC *)
    pose proof (process_path_spec (firstn 2 data)) as Hp. destruct (process_path (firstn 2 data)) as [p|]; cbn [bind]; [|exact Hp].
    pose proof (process_checksums_spec data) as Hc. destruct (process_checksums data) as [[z c]|]; cbn [bind]; [|exact Hc].
    cbn. split; [|reflexivity]. split; [apply Hc|]. split; apply Hp.
  - (* AUX *)
    pose proof (process_path_spec (firstn 2 data)) as Hp. destruct (process_path (firstn 2 data)) as [p|]; cbn [bind]; [|exact Hp].
    pose proof (process_checksums_spec data) as Hc. destruct (process_checksums data) as [[z c]|]; cbn [bind]; [|exact Hc].
    cbn. split; [|reflexivity]. split; [apply Hc|]. split; [apply Hp|]. split; [apply Hp|reflexivity].
Qed.

(* wrong number of fields *)
Lemma process_checksums_short data : (length data < 3)%nat -> process_checksums data = Err XSyntax.
Proof. destruct data as [|a [|b [|c data]]]; cbn [length]; intros H; try lia; reflexivity. Qed.

Lemma from_list_field_count t data :
  (match t with TTIMESTAMP | TIGNORE => length data <> 2%nat | _ => (length data < 3)%nat end) ->
  from_list t data = Err XSyntax.
Proof.
  intros H.
  assert (F : (length data < 3)%nat -> forall (k : list N -> res entry),
              (p <- process_path (firstn 2 data) ;; k p) = Err XSyntax \/
              exists p, (p <- process_path (firstn 2 data) ;; k p) = k p).
  { intros _ k. pose proof (process_path_spec (firstn 2 data)) as Hp.
    destruct (process_path (firstn 2 data)) as [p|e]; cbn [bind]; [right; exists p; reflexivity|left; congruence]. }
  destruct t; cbn [from_list].
  - destruct data as [|a [|b [|c data]]]; cbn [length] in H; try lia; reflexivity.
  - destruct (F H (fun p => '(sz, c) <- process_checksums data ;; Ok (mk_file TMANIFEST p sz c))) as [E|[p E]];
      rewrite E; [reflexivity|]. rewrite process_checksums_short by exact H. reflexivity.
  - unfold process_path. destruct data as [|a [|b [|c data]]]; cbn [length] in H; try lia; reflexivity.
  - destruct (F H (fun p => '(sz, c) <- process_checksums data ;; Ok (mk_file TDATA p sz c))) as [E|[p E]];
      rewrite E; [reflexivity|]. rewrite process_checksums_short by exact H. reflexivity.
  - destruct (F H (fun p => if contains_cp slash p then Err XSyntax else
                            '(sz, c) <- process_checksums data ;; Ok (mk_file TDIST p sz c))) as [E|[p E]];
      rewrite E; [reflexivity|]. destruct (contains_cp slash p); [reflexivity|].
    rewrite process_checksums_short by exact H. reflexivity.
  - destruct (F H (fun p => '(sz, c) <- process_checksums data ;; Ok (mk_file TEBUILD p sz c))) as [E|[p E]];
      rewrite E; [reflexivity|]. rewrite process_checksums_short by exact H. reflexivity.
  - destruct (F H (fun p => '(sz, c) <- process_checksums data ;; Ok (mk_file TMISC p sz c))) as [E|[p E]];
      rewrite E; [reflexivity|]. rewrite process_checksums_short by exact H. reflexivity.
  - destruct (F H (fun p => '(sz, c) <- process_checksums data ;; Ok (mk_file TAUX p sz c))) as [E|[p E]];
      rewrite E; [reflexivity|]. rewrite process_checksums_short by exact H. reflexivity.
Qed.

(* ---- whole texts ------------------------------------------------------------------------ *)
Lemma step_tail_total verify st es pgp line : only_parser (step_tail verify st es pgp line).
Proof.
  unfold step_tail. destruct (is_armor_line line); [left; reflexivity|].
  assert (Parse : forall st', only_parser (match split_ws (strip_ws line) with
            | [] => Ok (mk_ls st' es pgp)
            | t :: rest => match lookup_tag t with
                           | None => Err XSyntax
                           | Some tg => e <- from_list tg (t :: rest) ;; Ok (mk_ls st' (e :: es) pgp)
                           end
            end)).
  { intros st'. destruct (split_ws (strip_ws line)) as [|t rest]; [exact I|].
    destruct (lookup_tag t) as [tg|]; [|left; reflexivity].
    pose proof (from_list_spec tg (t :: rest)) as H. destruct (from_list tg (t :: rest)); cbn [bind];
      [exact I|left; exact H]. }
  destruct st.
  - apply Parse.
  - exact I.
  - apply Parse.
  - exact I.
  - destruct (split_ws (strip_ws line)); [exact I|right; reflexivity].
Qed.

Lemma load_step_total verify s line : only_parser (load_step verify s line).
Proof.
  unfold load_step. destruct (ls_state s).
  - destruct (ustr_eqb line l_begin_signed); [destruct (ls_entries s); [exact I|right; reflexivity]|apply step_tail_total].
  - destruct (strip_ws line); [apply step_tail_total|exact I].
  - destruct (ustr_eqb line l_begin_sig); [exact I|apply step_tail_total].
  - destruct (ustr_eqb line l_end_sig); [exact I|apply step_tail_total].
  - apply step_tail_total.
Qed.

Lemma load_lines_total verify ls : forall s, only_parser (load_lines verify s ls).
Proof.
  induction ls as [|l ls IH]; intros s; [exact I|].
  cbn [load_lines]. pose proof (load_step_total verify s l) as H.
  destruct (load_step verify s l); cbn [bind]; [apply IH|exact H].
Qed.

(* C09: every text is parsed or rejected with the syntax-error / unsigned-data exception *)
Theorem load_total text verify : only_parser (load text verify).
Proof.
  unfold load. pose proof (load_lines_total verify (py_lines text) (mk_ls SData [] [])) as H.
  destruct (load_lines verify _ _) as [s|]; cbn [bind]; [|exact H].
  destruct (ls_state s); try exact I; left; reflexivity.
Qed.

(* every accepted entry is sane: relative non-empty path however escaped, non-negative size,
   DIST without slash, valid timestamp *)
Lemma step_tail_sane verify st es pgp line s' : Forall entry_sane es ->
  step_tail verify st es pgp line = Ok s' -> Forall entry_sane (ls_entries s').
Proof.
  intros Hes. unfold step_tail. destruct (is_armor_line line); [discriminate|].
  assert (Keep : forall st', Ok (mk_ls st' es pgp) = Ok s' -> Forall entry_sane (ls_entries s')).
  { intros st' H. inversion H; subst. exact Hes. }
  assert (Parse : forall st', match split_ws (strip_ws line) with
            | [] => Ok (mk_ls st' es pgp)
            | t :: rest => match lookup_tag t with
                           | None => Err XSyntax
                           | Some tg => e <- from_list tg (t :: rest) ;; Ok (mk_ls st' (e :: es) pgp)
                           end
            end = Ok s' -> Forall entry_sane (ls_entries s')).
  { intros st'. destruct (split_ws (strip_ws line)) as [|t rest]; [apply Keep|].
    destruct (lookup_tag t) as [tg|]; [|discriminate].
    pose proof (from_list_spec tg (t :: rest)) as Hs. destruct (from_list tg (t :: rest)); cbn [bind]; [|discriminate].
    intros H. inversion H; subst. cbn [ls_entries]. constructor; [apply Hs|exact Hes]. }
  destruct st.
  - apply Parse.
  - apply Keep.
  - apply Parse.
  - apply Keep.
  - destruct (split_ws (strip_ws line)); [apply Keep|discriminate].
Qed.

Lemma load_step_sane verify s line s' : Forall entry_sane (ls_entries s) ->
  load_step verify s line = Ok s' -> Forall entry_sane (ls_entries s').
Proof.
  intros Hes. unfold load_step. destruct (ls_state s).
  - destruct (ustr_eqb line l_begin_signed).
    + destruct (ls_entries s) eqn:E; [|discriminate]. intros H. inversion H; subst. cbn. constructor.
    + apply step_tail_sane. exact Hes.
  - destruct (strip_ws line); [apply step_tail_sane; exact Hes|intros H; inversion H; subst; exact Hes].
  - destruct (ustr_eqb line l_begin_sig); [intros H; inversion H; subst; exact Hes|apply step_tail_sane; exact Hes].
  - destruct (ustr_eqb line l_end_sig); [intros H; inversion H; subst; exact Hes|apply step_tail_sane; exact Hes].
  - apply step_tail_sane. exact Hes.
Qed.

Theorem load_sane text verify es o : load text verify = Ok (es, o) -> Forall entry_sane es.
Proof.
  unfold load.
  assert (G : forall ls s s', Forall entry_sane (ls_entries s) -> load_lines verify s ls = Ok s' ->
                              Forall entry_sane (ls_entries s')).
  { induction ls as [|l ls IH]; intros s s' Hs H; [inversion H; subst; exact Hs|].
    cbn [load_lines] in H. destruct (load_step verify s l) as [s1|] eqn:E; [|discriminate].
    cbn [bind] in H. eapply IH; [|exact H]. eapply load_step_sane; eassumption. }
  destruct (load_lines verify _ (py_lines text)) as [s|] eqn:E; cbn [bind]; [|discriminate].
  specialize (G _ (mk_ls SData [] []) s (Forall_nil _) E).
  destruct (ls_state s); try discriminate; intros H; inversion H; subst; apply Forall_rev; exact G.
Qed.

(* nothing is silently skipped: for a text without cleartext-signature framing, the number
   of entries equals the number of non-blank lines *)
Definition nonblank (l : ustr) : bool := match split_ws (strip_ws l) with [] => false | _ => true end.
Lemma load_lines_count ls : forall s s', ls_state s = SData ->
  Forall (fun l => ustr_eqb l l_begin_signed = false) ls ->
  load_lines false s ls = Ok s' ->
  ls_state s' = SData /\ length (ls_entries s') = (length (filter nonblank ls) + length (ls_entries s))%nat.
Proof.
  induction ls as [|l ls IH]; intros s s' Hst Hb H.
  - inversion H; subst. split; [exact Hst|reflexivity].
  - inversion Hb as [|? ? Hl Hls]; subst. cbn [load_lines] in H.
    destruct (load_step false s l) as [s1|] eqn:E; [|discriminate]. cbn [bind] in H.
    unfold load_step in E. rewrite Hst, Hl in E. unfold step_tail in E.
    destruct (is_armor_line l); [discriminate|]. cbn [filter]. unfold nonblank at 1.
    destruct (split_ws (strip_ws l)) as [|t rest].
    + inversion E; subst. destruct (IH (mk_ls SData (ls_entries s) (ls_pgp s)) s' eq_refl Hls H) as [H1 H2]. split; [exact H1|exact H2].
    + destruct (lookup_tag t); [|discriminate]. destruct (from_list t0 (t :: rest)) as [e|]; [|discriminate].
      cbn [bind] in E. inversion E; subst. destruct (IH (mk_ls SData (e :: ls_entries s) (ls_pgp s)) s' eq_refl Hls H) as [H1 H2].
      split; [exact H1|]. rewrite H2. cbn [ls_entries length]. lia.
Qed.

Theorem load_no_skip text es o :
  Forall (fun l => ustr_eqb l l_begin_signed = false) (py_lines text) ->
  load text false = Ok (es, o) -> length es = length (filter nonblank (py_lines text)).
Proof.
  intros Hb. unfold load.
  destruct (load_lines false _ (py_lines text)) as [s|] eqn:E; cbn [bind]; [|discriminate].
  destruct (load_lines_count _ (mk_ls SData [] []) s eq_refl Hb E) as [H1 H2]. rewrite H1. intros H. inversion H; subst.
  rewrite rev_length, H2. cbn. lia.
Qed.

(* an unknown tag is a syntax error, in every state in which entries are read *)
Lemma unknown_tag_rejected verify st es pgp line t rest :
  is_armor_line line = false -> split_ws (strip_ws line) = t :: rest -> lookup_tag t = None ->
  st <> SPreamble -> st <> SSignature ->
  step_tail verify st es pgp line = Err (if match st with SPost => true | _ => false end then XUnsigned else XSyntax).
Proof.
  intros Ha Hs Ht H1 H2. unfold step_tail. rewrite Ha, Hs, Ht. destruct st; try congruence; reflexivity.
Qed.
