(* C18: places where the library must answer with its own exception types.  The entry compatibility check
   (verify.py:289-327, used whenever two entries name one path) is total on entries the parser can produce:
   it never fails, whatever the combination of IGNORE / file entries (duplicate IGNORE lines included). *)
From Coq Require Import List NArith ZArith Bool Lia.
From Gemato Require Import Py.PyStr Py.PyPath Py.PyTime Gen.Tables Model.Entry Model.Hash Model.FS Model.Verify.
From Gemato Require Import Proofs.Basics Proofs.SortTheory.
Import ListNotations.
Open Scope N_scope.

(* entries as the parser builds them: the IGNORE and TIMESTAMP tags belong to their own classes *)
Definition parsed_shape (e : entry) : Prop :=
  match e with
  | EFile TTIMESTAMP _ _ _ _ | EFile TIGNORE _ _ _ _ => False
  | ETs _ => False          (* TIMESTAMP entries are never compared (asserted by the callers) *)
  | _ => True
  end.

Lemma ignore_not_compatible : mem_str (tag_str TIGNORE) compatible_tags = false.
Proof. vm_compute. reflexivity. Qed.

Theorem compat_total e1 e2 : parsed_shape e1 -> parsed_shape e2 ->
  exists ok diff, verify_entry_compatibility e1 e2 = Ok (ok, diff).
Proof.
  intros W1 W2. unfold verify_entry_compatibility.
  destruct e1 as [d1|p1|t1 p1 a1 s1 c1]; [destruct W1| |]; (destruct e2 as [d2|p2|t2 p2 a2 s2 c2]; [destruct W2| |]).
  - (* IGNORE, IGNORE *) cbn [e_tag]. rewrite (proj2 (ustr_eqb_eq _ _) eq_refl). cbn. eauto.
  - (* IGNORE, file *) cbn [e_tag].
    destruct (ustr_eqb (tag_str TIGNORE) (tag_str t2)) eqn:E.
    + apply tag_str_inj in E. subst t2. destruct W2.
    + cbn [negb andb]. rewrite ignore_not_compatible. cbn. eauto.
  - (* file, IGNORE *) cbn [e_tag].
    destruct (ustr_eqb (tag_str t1) (tag_str TIGNORE)) eqn:E.
    + apply tag_str_inj in E. subst t1. destruct W1.
    + cbn [negb andb]. rewrite ignore_not_compatible. rewrite orb_true_r. eauto.
  - (* file, file *) cbn [e_tag].
    destruct (negb (ustr_eqb (tag_str t1) (tag_str t2)) &&
              (negb (mem_str (tag_str t1) compatible_tags) || negb (mem_str (tag_str t2) compatible_tags))); [eauto|].
    destruct (negb (s1 =? s2)%Z); eauto.
Qed.
