(* C04: the loader's state machine uses exactly the signed content.  One invariant over
   the fold, for line lists of any length. *)
From Coq Require Import List NArith ZArith Bool Lia ZifyBool ZifyN Arith.
From Gemato Require Import Py.PyStr Py.PyTime Gen.PyFacts Gen.Tables Gen.Util Model.Entry Model.Text Spec.Cleartext.
From Gemato Require Import Proofs.Basics.
Import ListNotations.
Open Scope N_scope.

Lemma break_app {A} (stop : A -> bool) a x b :
  Forall (fun y => stop y = false) a -> stop x = true -> break stop (a ++ x :: b) = (a, x :: b).
Proof.
  intros Ha Hx. induction Ha as [|y a Hy Ha IH]; cbn [app break].
  - rewrite Hx. reflexivity.
  - rewrite Hy, IH. reflexivity.
Qed.

Definition opt_cons {A} (o : option A) (l : list A) : list A := match o with Some a => a :: l | None => l end.

Lemma lines_entries_snoc ls l :
  lines_entries (ls ++ [l]) =
  (es <- lines_entries ls ;;
   if is_armor_line l then Err XSyntax else oe <- parse_line l ;; Ok (es ++ opt_cons oe [])).
Proof.
  induction ls as [|x ls IH]; cbn [app lines_entries].
  - destruct (is_armor_line l); [reflexivity|]. destruct (parse_line l) as [[e|]|]; reflexivity.
  - destruct (is_armor_line x); [reflexivity|]. destruct (parse_line x) as [oe|]; cbn [bind]; [|reflexivity].
    rewrite IH. destruct (lines_entries ls) as [es|]; cbn [bind]; [|reflexivity].
    destruct (is_armor_line l); [reflexivity|]. destruct (parse_line l) as [oe'|]; cbn [bind]; [|reflexivity].
    destruct oe; reflexivity.
Qed.

(* the tail of the loop body, in the two states that read entries, is parse_line *)
Lemma step_tail_parse verify st es pgp line : st = SData \/ st = SSigned ->
  step_tail verify st es pgp line =
  if is_armor_line line then Err XSyntax else
  oe <- parse_line line ;; Ok (mk_ls st (opt_cons oe es) pgp).
Proof.
  intros Hst. unfold step_tail, parse_line. destruct (is_armor_line line); [reflexivity|].
  destruct Hst as [-> | ->];
    (destruct (split_ws (strip_ws line)) as [|t rest]; [reflexivity|]);
    (destruct (lookup_tag t) as [tg|]; [|reflexivity]);
    (destruct (from_list tg (t :: rest)); reflexivity).
Qed.

Lemma parse_line_blank l : blank_line l = true -> parse_line l = Ok None.
Proof. unfold blank_line, parse_line. destruct (split_ws (strip_ws l)); [reflexivity|discriminate]. Qed.
Lemma parse_line_none_blank l : parse_line l = Ok None -> blank_line l = true.
Proof.
  unfold blank_line, parse_line. destruct (split_ws (strip_ws l)) as [|t r]; [reflexivity|].
  destruct (lookup_tag t); [|discriminate]. destruct (from_list t0 (t :: r)); discriminate.
Qed.

Definition not_line (m l : ustr) : Prop := ustr_eqb l m = false.

Lemma blank_not_begin l : blank_line l = true -> not_line l_begin_signed l.
Proof.
  unfold not_line. intros H. destruct (ustr_eqb l l_begin_signed) eqn:E; [|reflexivity].
  apply ustr_eqb_eq in E. subst. vm_compute in H. discriminate.
Qed.
Lemma blank_ws_only l : blank_line l = ws_only l.
Proof.
  unfold blank_line, ws_only. destruct (strip_ws l) as [|c r] eqn:E; [reflexivity|].
  (* a stripped non-empty string starts with a non-space character, so split_ws yields a word *)
  assert (Hc : is_space c = false).
  { unfold strip_ws, rstrip_ws in E.
    assert (G : forall s c r, lstrip_ws s = c :: r -> is_space c = false).
    { induction s as [|x s IH]; intros c0 r0 H; [discriminate|]. cbn in H.
      destruct (is_space x) eqn:Ex; [eapply IH; exact H|inversion H; subst; exact Ex]. }
    (* c is the first char of rev (lstrip_ws (rev (lstrip_ws l))) *)
    remember (lstrip_ws l) as m eqn:Em.
    destruct (lstrip_ws (rev m)) as [|d t] eqn:Ed; [discriminate|].
    (* m = lstrip_ws l is non-empty (else rev m = []) and starts with a non-space char;
       the result of rstrip keeps the first char of m *)
    destruct m as [|m0 m']; [discriminate|].
    assert (Hm0 : is_space m0 = false) by (eapply G; symmetry; exact Em).
    (* lstrip_ws (rev (m0 :: m')) ends with m0 *)
    assert (K : forall s x, is_space x = false -> exists p, lstrip_ws (s ++ [x]) = p ++ [x]).
    { induction s as [|y s IH]; intros x Hx.
      - exists []. cbn. rewrite Hx. reflexivity.
      - cbn [app lstrip_ws]. destruct (is_space y); [apply IH; exact Hx|exists (y :: s); reflexivity]. }
    cbn [rev] in Ed. destruct (K (rev m') m0 Hm0) as [p Hp]. rewrite Hp in Ed.
    rewrite <- Ed in E. rewrite rev_app_distr in E. cbn in E. inversion E; subst. exact Hm0. }
  unfold split_ws. cbn [split_ws_aux]. rewrite Hc.
  assert (W : forall s cur, cur <> [] -> split_ws_aux s cur <> []).
  { induction s as [|x s IH]; intros cur Hcur; cbn [split_ws_aux].
    - destruct cur; [congruence|discriminate].
    - destruct (is_space x); [destruct cur; [congruence|discriminate]|apply IH; discriminate]. }
  destruct (split_ws_aux r [c]) eqn:Es; [exfalso; eapply W; [|exact Es]; discriminate|reflexivity].
Qed.

(* the state of the loader after reading [done], when signatures are verified *)
Definition Inv (done : list ustr) (s : lstate) : Prop :=
  match ls_state s with
  | SData =>
      ls_pgp s = [] /\ Forall (not_line l_begin_signed) done /\
      (ls_entries s = [] -> Forall (fun l => blank_line l = true) done)
  | SPreamble =>
      exists pre hdr, done = pre ++ l_begin_signed :: hdr /\
        Forall (fun l => blank_line l = true) pre /\ Forall (fun l => ws_only l = false) hdr /\
        ls_pgp s = concat (l_begin_signed :: hdr) /\ ls_entries s = []
  | SSigned =>
      exists pre hdr sep body, done = pre ++ l_begin_signed :: hdr ++ sep :: body /\
        Forall (fun l => blank_line l = true) pre /\ Forall (fun l => ws_only l = false) hdr /\
        ws_only sep = true /\ Forall (not_line l_begin_sig) body /\
        ls_pgp s = concat (l_begin_signed :: hdr ++ sep :: body) /\
        lines_entries (map dash_unescape body) = Ok (rev (ls_entries s))
  | SSignature =>
      exists pre hdr sep body sig, done = pre ++ l_begin_signed :: hdr ++ sep :: body ++ l_begin_sig :: sig /\
        Forall (fun l => blank_line l = true) pre /\ Forall (fun l => ws_only l = false) hdr /\
        ws_only sep = true /\ Forall (not_line l_begin_sig) body /\
        Forall (fun l => not_line l_end_sig l /\ is_armor_line l = false) sig /\
        ls_pgp s = concat (l_begin_signed :: hdr ++ sep :: body ++ l_begin_sig :: sig) /\
        lines_entries (map dash_unescape body) = Ok (rev (ls_entries s))
  | SPost =>
      exists pre hdr sep body sig post,
        done = pre ++ l_begin_signed :: hdr ++ sep :: body ++ l_begin_sig :: sig ++ l_end_sig :: post /\
        Forall (fun l => blank_line l = true) pre /\ Forall (fun l => ws_only l = false) hdr /\
        ws_only sep = true /\ Forall (not_line l_begin_sig) body /\
        Forall (fun l => not_line l_end_sig l /\ is_armor_line l = false) sig /\
        Forall (fun l => blank_line l = true) post /\
        ls_pgp s = concat (l_begin_signed :: hdr ++ sep :: body ++ l_begin_sig :: sig ++ [l_end_sig]) /\
        lines_entries (map dash_unescape body) = Ok (rev (ls_entries s))
  end.

Lemma concat_snoc {A} (ls : list (list A)) l : concat (ls ++ [l]) = concat ls ++ l.
Proof. rewrite concat_app. cbn. rewrite app_nil_r. reflexivity. Qed.

Ltac snoc_assoc :=
  repeat (rewrite <- ?app_assoc; cbn [app]).

Lemma inv_step done s l s' : Inv done s -> load_step true s l = Ok s' -> Inv (done ++ [l]) s'.
Proof.
  unfold Inv, load_step. destruct s as [st es pgp]. cbn [ls_state ls_entries ls_pgp].
  destruct st.
  - (* SData *)
    intros [Hpgp [Hnb Hbl]]. subst pgp.
    destruct (ustr_eqb l l_begin_signed) eqn:Eb.
    + destruct es; [|discriminate]. intros H. inversion H; subst. cbn [ls_state ls_pgp ls_entries].
      apply ustr_eqb_eq in Eb. subst l. exists done, []. cbn [app concat]. rewrite app_nil_r.
      split; [reflexivity|]. split; [apply Hbl; reflexivity|]. split; [constructor|]. split; reflexivity.
    + rewrite step_tail_parse by (left; reflexivity).
      destruct (is_armor_line l); [discriminate|].
      destruct (parse_line l) as [oe|] eqn:Ep; cbn [bind]; [|discriminate].
      intros H. inversion H; subst. cbn [ls_state ls_pgp ls_entries].
      split; [reflexivity|]. split; [apply Forall_app; split; [exact Hnb|constructor; [exact Eb|constructor]]|].
      intros He. destruct oe; [discriminate|]. cbn in He.
      apply Forall_app. split; [apply Hbl; exact He|constructor; [apply parse_line_none_blank; exact Ep|constructor]].
  - (* SPreamble *)
    intros [pre [hdr [Hd [Hpre [Hhdr [Hpgp Hes]]]]]]. subst.
    destruct (strip_ws l) as [|c r] eqn:Es.
    + (* whitespace-only: end of the headers *)
      unfold step_tail. assert (Ha : is_armor_line l = false).
      { unfold is_armor_line. destruct (py_startswith l dashes5) eqn:E1; [|reflexivity].
        apply startswith_iff in E1. destruct E1 as [x ->].
        (* a line starting with dashes is not whitespace-only *)
        exfalso. unfold strip_ws, rstrip_ws, dashes5 in Es. cbn [app lstrip_ws] in Es.
        change (is_space 45) with false in Es. cbn iota in Es.
        remember (45 :: 45 :: 45 :: 45 :: 45 :: x) as m.
        assert (K : forall s x, is_space x = false -> exists p, lstrip_ws (s ++ [x]) = p ++ [x]).
        { induction s as [|y s IH]; intros x0 Hx.
          - exists []. cbn. rewrite Hx. reflexivity.
          - cbn [app lstrip_ws]. destruct (is_space y); [apply IH; exact Hx|exists (y :: s); reflexivity]. }
        subst m. cbn [rev] in Es. rewrite <- !app_assoc in Es.
        destruct (K (rev x ++ [45] ++ [45] ++ [45] ++ [45]) 45 eq_refl) as [p Hp].
        rewrite <- !app_assoc in Hp. rewrite Hp in Es. rewrite rev_app_distr in Es. discriminate. }
      rewrite Ha. assert (Hb : split_ws (strip_ws l) = []) by (rewrite Es; reflexivity). rewrite Hb.
      intros H. inversion H; subst. cbn [ls_state ls_pgp ls_entries].
      exists pre, hdr, l, []. snoc_assoc.
      split; [reflexivity|]. split; [exact Hpre|]. split; [exact Hhdr|].
      split; [unfold ws_only; rewrite Es; reflexivity|]. split; [constructor|].
      split; [|reflexivity].
      change (l_begin_signed :: hdr ++ [l]) with ((l_begin_signed :: hdr) ++ [l]). rewrite concat_snoc. reflexivity.
    + intros H. inversion H; subst. cbn [ls_state ls_pgp ls_entries].
      exists pre, (hdr ++ [l]). snoc_assoc.
      split; [reflexivity|]. split; [exact Hpre|].
      split; [apply Forall_app; split; [exact Hhdr|constructor; [unfold ws_only; rewrite Es; reflexivity|constructor]]|].
      split; [|reflexivity].
      change (l_begin_signed :: hdr ++ [l]) with ((l_begin_signed :: hdr) ++ [l]). rewrite concat_snoc. reflexivity.
  - (* SSigned *)
    intros [pre [hdr [sep [body [Hd [Hpre [Hhdr [Hsep [Hbody [Hpgp Hes]]]]]]]]]]. subst.
    destruct (ustr_eqb l l_begin_sig) eqn:Eb.
    + intros H. inversion H; subst. cbn [ls_state ls_pgp ls_entries].
      apply ustr_eqb_eq in Eb. subst l. exists pre, hdr, sep, body, []. snoc_assoc.
      split; [reflexivity|]. repeat (split; [assumption|]). split; [constructor|]. split; [|exact Hes].
      replace (l_begin_signed :: hdr ++ sep :: body ++ [l_begin_sig])
        with ((l_begin_signed :: hdr ++ sep :: body) ++ [l_begin_sig]) by (snoc_assoc; reflexivity).
      rewrite concat_snoc. reflexivity.
    + rewrite step_tail_parse by (right; reflexivity).
      fold (dash_unescape l).
      destruct (is_armor_line (dash_unescape l)) eqn:Ea; [discriminate|].
      destruct (parse_line (dash_unescape l)) as [oe|] eqn:Ep; cbn [bind]; [|discriminate].
      intros H. inversion H; subst. cbn [ls_state ls_pgp ls_entries].
      exists pre, hdr, sep, (body ++ [l]). snoc_assoc.
      split; [reflexivity|]. repeat (split; [assumption|]).
      split; [apply Forall_app; split; [exact Hbody|constructor; [exact Eb|constructor]]|].
      split.
      * replace (l_begin_signed :: hdr ++ sep :: body ++ [l])
          with ((l_begin_signed :: hdr ++ sep :: body) ++ [l]) by (snoc_assoc; reflexivity).
        rewrite concat_snoc. reflexivity.
      * rewrite map_app. cbn [map]. rewrite lines_entries_snoc, Hes. cbn [bind]. rewrite Ea, Ep. cbn [bind].
        destruct oe; cbn [opt_cons rev]; [reflexivity|rewrite app_nil_r; reflexivity].
  - (* SSignature *)
    intros [pre [hdr [sep [body [sig [Hd [Hpre [Hhdr [Hsep [Hbody [Hsig [Hpgp Hes]]]]]]]]]]]]. subst.
    destruct (ustr_eqb l l_end_sig) eqn:Eb.
    + intros H. inversion H; subst. cbn [ls_state ls_pgp ls_entries].
      apply ustr_eqb_eq in Eb. subst l. exists pre, hdr, sep, body, sig, []. snoc_assoc.
      split; [reflexivity|]. repeat (split; [assumption|]). split; [constructor|]. split; [|exact Hes].
      replace (l_begin_signed :: hdr ++ sep :: body ++ l_begin_sig :: sig ++ [l_end_sig])
        with ((l_begin_signed :: hdr ++ sep :: body ++ l_begin_sig :: sig) ++ [l_end_sig]) by (snoc_assoc; reflexivity).
      rewrite concat_snoc. reflexivity.
    + unfold step_tail. destruct (is_armor_line l) eqn:Ea; [discriminate|].
      intros H. inversion H; subst. cbn [ls_state ls_pgp ls_entries].
      exists pre, hdr, sep, body, (sig ++ [l]). snoc_assoc.
      split; [reflexivity|]. repeat (split; [assumption|]).
      split; [apply Forall_app; split; [exact Hsig|constructor; [split; [exact Eb|exact Ea]|constructor]]|]. split; [|exact Hes].
      replace (l_begin_signed :: hdr ++ sep :: body ++ l_begin_sig :: sig ++ [l])
        with ((l_begin_signed :: hdr ++ sep :: body ++ l_begin_sig :: sig) ++ [l]) by (snoc_assoc; reflexivity).
      rewrite concat_snoc. reflexivity.
  - (* SPost *)
    intros [pre [hdr [sep [body [sig [post [Hd [Hpre [Hhdr [Hsep [Hbody [Hsig [Hpost [Hpgp Hes]]]]]]]]]]]]]]. subst.
    unfold step_tail. destruct (is_armor_line l); [discriminate|].
    destruct (split_ws (strip_ws l)) as [|t r] eqn:Es; [|discriminate].
    intros H. inversion H; subst. cbn [ls_state ls_pgp ls_entries].
    exists pre, hdr, sep, body, sig, (post ++ [l]). snoc_assoc.
    split; [reflexivity|]. repeat (split; [assumption|]).
    split; [apply Forall_app; split; [exact Hpost|constructor; [unfold blank_line; rewrite Es; reflexivity|constructor]]|].
    split; [reflexivity|exact Hes].
Qed.

Lemma inv_lines ls : forall done s s', Inv done s -> load_lines true s ls = Ok s' -> Inv (done ++ ls) s'.
Proof.
  induction ls as [|l ls IH]; intros done s s' Hi H.
  - inversion H; subst. rewrite app_nil_r. exact Hi.
  - cbn [load_lines] in H. destruct (load_step true s l) as [s1|] eqn:E; [|discriminate]. cbn [bind] in H.
    replace (done ++ l :: ls) with ((done ++ [l]) ++ ls) by (rewrite <- app_assoc; reflexivity).
    eapply IH; [|exact H]. eapply inv_step; eassumption.
Qed.

Lemma sums_seqb_refl c : sums_seqb c c = true.
Proof. induction c as [|[k v] c IH]; [reflexivity|]. cbn. rewrite !ustr_eqb_refl, IH. reflexivity. Qed.
Lemma entry_seqb_refl e : entry_seqb e e = true.
Proof.
  destruct e as [d|p|t p a s c]; cbn.
  - unfold dt_eqb. rewrite !N.eqb_refl. reflexivity.
  - apply ustr_eqb_refl.
  - rewrite !ustr_eqb_refl, Z.eqb_refl, sums_seqb_refl. destruct t; reflexivity.
Qed.
Lemma entries_seqb_refl es : entries_seqb es es = true.
Proof. induction es as [|e es IH]; [reflexivity|]. cbn. rewrite entry_seqb_refl, IH. reflexivity. Qed.

Lemma forall_forallb {A} (f : A -> bool) l : Forall (fun x => f x = true) l -> forallb f l = true.
Proof. intros H. apply forallb_forall. rewrite Forall_forall in H. exact H. Qed.

(* C04 main theorem: whenever loading with verification reaches the point of calling
   verify_file, the text handed over is exactly the BEGIN..END slice of the unique
   framework, nothing but blank lines surrounds it, and the entries are exactly the
   entries of the dash-unescaped body *)
Theorem load_signed_spec text es t : load text true = Ok (es, Some t) -> c04_b text es t = true.
Proof.
  unfold load. destruct (load_lines true (mk_ls SData [] []) (py_lines text)) as [s|] eqn:E; cbn [bind]; [|discriminate].
  assert (Hi : Inv ([] ++ py_lines text) s).
  { eapply inv_lines; [|exact E]. unfold Inv. cbn. split; [reflexivity|]. split; [constructor|]. intros _. constructor. }
  cbn [app] in Hi. unfold Inv in Hi. destruct (ls_state s); try discriminate.
  intros H. inversion H; subst. clear H.
  destruct Hi as [pre [hdr [sep [body [sig [post [Hd [Hpre [Hhdr [Hsep [Hbody [Hsig [Hpost [Hpgp Hes]]]]]]]]]]]]]].
  unfold c04_b, find_framework. rewrite Hd.
  rewrite (break_app (fun l => ustr_eqb l l_begin_signed) pre l_begin_signed);
    [|eapply Forall_impl; [|exact Hpre]; intros a Ha; apply blank_not_begin; exact Ha|apply ustr_eqb_refl].
  rewrite (break_app ws_only hdr sep); [|exact Hhdr|exact Hsep].
  rewrite (break_app (fun l => ustr_eqb l l_begin_sig) body l_begin_sig); [|exact Hbody|apply ustr_eqb_refl].
  rewrite (break_app (fun l => ustr_eqb l l_end_sig) sig l_end_sig);
    [|eapply Forall_impl; [|exact Hsig]; intros a Ha; apply Ha|apply ustr_eqb_refl].
  cbn [fw_pre fw_post fw_body fw_sig].
  rewrite (forall_forallb _ _ Hpre), (forall_forallb _ _ Hpost). cbn [andb].
  assert (Hna : forallb (fun l => negb (is_armor_line l)) sig = true).
  { apply forallb_forall. rewrite Forall_forall in Hsig. intros x Hx. destruct (Hsig x Hx) as [_ ->]. reflexivity. }
  rewrite Hna. cbn [andb].
  unfold signed_slice. cbn [fw_begin fw_hdr fw_sep fw_body fw_sigbegin fw_sig fw_end].
  rewrite Hpgp. cbn [app]. rewrite ustr_eqb_refl. cbn [andb].
  rewrite Hes. apply entries_seqb_refl.
Qed.

(* the verify flag only controls whether the signed text is collected *)
Lemma load_step_verify_irrel s l s' : load_step true s l = Ok s' ->
  load_step false (mk_ls (ls_state s) (ls_entries s) []) l = Ok (mk_ls (ls_state s') (ls_entries s') []).
Proof.
  destruct s as [st es pgp]. unfold load_step. cbn [ls_state ls_entries ls_pgp].
  assert (T : forall st' pg l', step_tail true st' es pg l' = Ok s' ->
              step_tail false st' es [] l' = Ok (mk_ls (ls_state s') (ls_entries s') [])).
  { intros st' pg l'. unfold step_tail. destruct (is_armor_line l'); [discriminate|].
    destruct st'; try (intros H; inversion H; subst; reflexivity);
      (destruct (split_ws (strip_ws l')) as [|t r]; [intros H; inversion H; subst; reflexivity|]);
      try discriminate;
      (destruct (lookup_tag t) as [tg|]; [|discriminate]); (destruct (from_list tg (t :: r)); cbn [bind]; [|discriminate]);
      intros H; inversion H; subst; reflexivity. }
  destruct st.
  - destruct (ustr_eqb l l_begin_signed); [destruct es; [|discriminate]; intros H; inversion H; subst; reflexivity|apply T].
  - destruct (strip_ws l); [apply T|intros H; inversion H; subst; reflexivity].
  - destruct (ustr_eqb l l_begin_sig); [intros H; inversion H; subst; reflexivity|apply T].
  - destruct (ustr_eqb l l_end_sig); [intros H; inversion H; subst; reflexivity|apply T].
  - apply T.
Qed.

Lemma load_lines_verify_irrel ls : forall s s', load_lines true s ls = Ok s' ->
  load_lines false (mk_ls (ls_state s) (ls_entries s) []) ls = Ok (mk_ls (ls_state s') (ls_entries s') []).
Proof.
  induction ls as [|l ls IH]; intros s s' H.
  - inversion H; subst. reflexivity.
  - cbn [load_lines] in *. destruct (load_step true s l) as [s1|] eqn:E; [|discriminate]. cbn [bind] in H.
    rewrite (load_step_verify_irrel _ _ _ E). cbn [bind]. apply (IH s1 s' H).
Qed.

(* the entries do not depend on whether signature verification is requested *)
Theorem load_verify_irrel text es o : load text true = Ok (es, o) -> load text false = Ok (es, None).
Proof.
  unfold load. destruct (load_lines true _ (py_lines text)) as [s|] eqn:E; cbn [bind]; [|discriminate].
  pose proof (load_lines_verify_irrel _ _ _ E) as E2. cbn [ls_state ls_entries] in E2. rewrite E2. cbn [bind ls_state ls_entries].
  destruct (ls_state s); try discriminate; intros H; inversion H; subst; reflexivity.
Qed.

(* a BEGIN-SIGNED line anywhere means: either an error, or a complete, properly surrounded
   signed message whose text is handed to verification *)
Theorem begin_implies_signed text es o :
  In l_begin_signed (py_lines text) -> load text true = Ok (es, o) -> exists t, o = Some t.
Proof.
  intros Hin. unfold load. destruct (load_lines true (mk_ls SData [] []) (py_lines text)) as [s|] eqn:E; cbn [bind]; [|discriminate].
  assert (Hi : Inv ([] ++ py_lines text) s).
  { eapply inv_lines; [|exact E]. unfold Inv. cbn. split; [reflexivity|]. split; [constructor|]. intros _. constructor. }
  cbn [app] in Hi. unfold Inv in Hi. destruct (ls_state s); try discriminate.
  - destruct Hi as [_ [Hnb _]]. rewrite Forall_forall in Hnb. specialize (Hnb _ Hin).
    unfold not_line in Hnb. rewrite ustr_eqb_refl in Hnb. discriminate.
  - intros H. inversion H; subst. eexists; reflexivity.
Qed.
