(* strptime (strftime d) = Some d for every valid datetime: the TIMESTAMP writer and
   parser are inverse.  Per-field facts are established by exhaustive computation over the
   field's finite range (the bound is in each statement) and lifted to arbitrary
   continuations by structural lemmas about the regex matcher. *)
From Coq Require Import List NArith ZArith Bool Lia ZifyBool ZifyN Arith.
From Gemato Require Import Py.PyStr Py.PyTime Gen.PyFacts.
Import ListNotations.
Open Scope N_scope.

Notation match_atoms := (match_atoms nd_starts).
Notation match_alts := (match_alts nd_starts).

Lemma match_atoms_app al : forall p r acc, (length al <= length p)%nat ->
  match_atoms al (p ++ r) acc =
  match match_atoms al p acc with Some (v, s) => Some (v, s ++ r) | None => None end.
Proof.
  induction al as [|a al IH]; intros p r acc Hl; [reflexivity|].
  destruct p as [|c p]; [cbn in Hl; lia|]. cbn [app PyTime.match_atoms].
  destruct (match_atom nd_starts a c) as [[v|]|]; [apply IH|apply IH|reflexivity]; cbn in Hl; lia.
Qed.

Definition alts_short (alts : list (list atom)) (n : nat) : Prop :=
  Forall (fun al => (length al <= n)%nat) alts.

Lemma match_alts_app alts p r : alts_short alts (length p) ->
  match_alts alts (p ++ r) = map (fun vs => (fst vs, snd vs ++ r)) (match_alts alts p).
Proof.
  unfold PyTime.match_alts. induction alts as [|al alts IH]; intros H; [reflexivity|].
  inversion H as [|? ? Hal Halts]; subst. cbn [flat_map]. rewrite map_app, IH by exact Halts.
  f_equal. rewrite match_atoms_app by exact Hal.
  destruct (match_atoms al p 0) as [[v s]|]; reflexivity.
Qed.

Lemma match_lit_app sep c s r : match_lit sep ((c :: s) ++ r) = map (fun x => x ++ r) (match_lit sep (c :: s)).
Proof. cbn [app match_lit]. destruct ((c =? sep) || _); reflexivity. Qed.

(* what the field matcher yields on a concrete string, continuation abstracted away *)
Definition field_results (alts : list (list atom)) (sep : cp) (p : ustr) : list (N * ustr) :=
  flat_map (fun vs => map (pair (fst vs)) (match_lit sep (snd vs))) (match_alts alts p).
Definition field_check (alts : list (list atom)) (sep : cp) (p : ustr) (n : N) : bool :=
  forallb (fun vs => match snd vs with [] => false | _ => true end) (match_alts alts p) &&
  match field_results alts sep p with
  | [(v, [])] => v =? n
  | _ => false
  end.

Lemma field_lift {B} alts sep p n (K : N -> ustr -> list B) rest :
  alts_short alts (length p) -> field_check alts sep p n = true ->
  flat_map (fun '(v, s) => flat_map (K v) (match_lit sep s)) (match_alts alts (p ++ rest))
  = K n rest.
Proof.
  intros Hs Hc. unfold field_check in Hc. apply andb_true_iff in Hc. destruct Hc as [Hne Hres].
  rewrite match_alts_app by exact Hs.
  rewrite (flat_map_ext (fun '(v, s) => flat_map (K v) (match_lit sep s))
             (fun vs : N * list N => flat_map (K (fst vs)) (match_lit sep (snd vs))))
    by (intros [v s]; reflexivity).
  assert (G : forall L, forallb (fun vs : N * ustr => match snd vs with [] => false | _ => true end) L = true ->
     flat_map (fun vs => flat_map (K (fst vs)) (match_lit sep (snd vs))) (map (fun vs => (fst vs, snd vs ++ rest)) L)
     = flat_map (fun vs => K (fst vs) (snd vs ++ rest)) (flat_map (fun vs => map (pair (fst vs)) (match_lit sep (snd vs))) L)).
  { induction L as [|[v s] L IH]; intros HL; [reflexivity|].
    cbn [forallb snd] in HL. apply andb_true_iff in HL. destruct HL as [Hs1 HL].
    cbn [map flat_map fst snd]. rewrite flat_map_app, IH by exact HL. f_equal.
    destruct s as [|c s]; [discriminate|]. rewrite match_lit_app.
    generalize (match_lit sep (c :: s)). intros l. induction l as [|x l IHl]; [reflexivity|].
    cbn [map flat_map fst snd]. rewrite IHl. reflexivity. }
  rewrite G by exact Hne. fold (field_results alts sep p).
  destruct (field_results alts sep p) as [|[v [|? ?]] [|? ?]]; try discriminate.
  apply N.eqb_eq in Hres. subst v. cbn [flat_map fst snd app]. apply app_nil_r.
Qed.

(* finite ranges *)
Definition nrange (lo : N) (len : nat) : list N := map (fun k => lo + N.of_nat k) (seq 0 len).
Lemma in_nrange lo len n : lo <= n -> n < lo + N.of_nat len -> In n (nrange lo len).
Proof.
  intros H1 H2. unfold nrange. apply in_map_iff. exists (N.to_nat (n - lo)).
  split; [lia|]. apply in_seq. lia.
Qed.
Definition field_ok alts sep sepc w lo len : bool :=
  forallb (fun n => field_check alts sep (zpad w n ++ [sepc]) n) (nrange lo len).
Lemma field_ok_spec alts sep sepc w lo len n :
  field_ok alts sep sepc w lo len = true -> lo <= n -> n < lo + N.of_nat len ->
  field_check alts sep (zpad w n ++ [sepc]) n = true.
Proof.
  unfold field_ok. rewrite forallb_forall. intros H H1 H2. apply H. apply in_nrange; assumption.
Qed.

(* the six fields, each checked exhaustively over its whole range *)
Lemma year_ok : field_ok pat_Y 45 45 4 1 (N.to_nat 9999) = true.    Proof. vm_compute. reflexivity. Qed.
Lemma month_ok : field_ok pat_m 45 45 2 1 12 = true.     Proof. vm_compute. reflexivity. Qed.
Lemma day_ok : field_ok pat_d 84 84 2 1 31 = true.       Proof. vm_compute. reflexivity. Qed.
Lemma hour_ok : field_ok pat_H 58 58 2 0 24 = true.      Proof. vm_compute. reflexivity. Qed.
Lemma minute_ok : field_ok pat_M 58 58 2 0 60 = true.    Proof. vm_compute. reflexivity. Qed.
Lemma second_ok : field_ok pat_S 90 90 2 0 60 = true.    Proof. vm_compute. reflexivity. Qed.

Lemma zpad_len_ge w n : (w <= length (zpad w n))%nat.
Proof.
  unfold zpad. destruct (Nat.leb w (length (str_of_N n))) eqn:E.
  - apply Nat.leb_le in E. exact E.
  - assert (L : forall w n acc, length (pad_digits w n acc) = (w + length acc)%nat).
    { clear. induction w as [|w IH]; intros n acc; [reflexivity|]. cbn [pad_digits]. rewrite IH. cbn [length]. lia. }
    rewrite L. lia.
Qed.

Lemma short_Y (p : list N) : (4 <= length p)%nat -> alts_short pat_Y (length p).
Proof. intros H. repeat constructor; cbn [length]; lia. Qed.
Lemma short2 (alts : list (list atom)) (p : list N) : Forall (fun al : list atom => (length al <= 2)%nat) alts -> (2 <= length p)%nat -> alts_short alts (length p).
Proof. intros H Hp. eapply Forall_impl; [|exact H]. cbn. intros a Ha. lia. Qed.

Lemma days_le_31 y m : days_in_month y m <= 31.
Proof. unfold days_in_month. destruct (m =? 2); [destruct (is_leap y); lia|]. destruct (_ || _); lia. Qed.

Theorem strptime_strftime d : dt_valid d = true -> strptime nd_starts (strftime d) = Some d.
Proof.
  intros Hv. unfold strptime.
  assert (Hm : strptime_matches nd_starts (strftime d) = [(d, [])]).
  { unfold dt_valid in Hv. repeat (apply andb_true_iff in Hv; destruct Hv as [Hv ?]).
    pose proof (days_le_31 (dt_y d) (dt_mo d)) as Hd31.
    unfold strptime_matches, strftime.
    (* year *)
    rewrite (app_assoc (zpad 4 (dt_y d)) [45]).
    erewrite (field_lift pat_Y 45 (zpad 4 (dt_y d) ++ [45]) (dt_y d)
               (fun y s1' => flat_map _ (match_alts pat_m s1')));
      [|apply short_Y; rewrite app_length; pose proof (zpad_len_ge 4 (dt_y d)); lia
       |apply (field_ok_spec _ _ _ _ _ _ _ year_ok); lia].
    (* month *)
    rewrite (app_assoc (zpad 2 (dt_mo d)) [45]).
    erewrite (field_lift pat_m 45 (zpad 2 (dt_mo d) ++ [45]) (dt_mo d)
               (fun mo s2' => flat_map _ (match_alts pat_d s2')));
      [|apply short2; [repeat constructor|rewrite app_length; pose proof (zpad_len_ge 2 (dt_mo d)); lia]
       |apply (field_ok_spec _ _ _ _ _ _ _ month_ok); lia].
    (* day *)
    rewrite (app_assoc (zpad 2 (dt_d d)) [84]).
    erewrite (field_lift pat_d 84 (zpad 2 (dt_d d) ++ [84]) (dt_d d)
               (fun dd s3' => flat_map _ (match_alts pat_H s3')));
      [|apply short2; [repeat constructor|rewrite app_length; pose proof (zpad_len_ge 2 (dt_d d)); lia]
       |apply (field_ok_spec _ _ _ _ _ _ _ day_ok); lia].
    (* hour *)
    rewrite (app_assoc (zpad 2 (dt_h d)) [58]).
    erewrite (field_lift pat_H 58 (zpad 2 (dt_h d) ++ [58]) (dt_h d)
               (fun hh s4' => flat_map _ (match_alts pat_M s4')));
      [|apply short2; [repeat constructor|rewrite app_length; pose proof (zpad_len_ge 2 (dt_h d)); lia]
       |apply (field_ok_spec _ _ _ _ _ _ _ hour_ok); lia].
    (* minute *)
    rewrite (app_assoc (zpad 2 (dt_mi d)) [58]).
    erewrite (field_lift pat_M 58 (zpad 2 (dt_mi d) ++ [58]) (dt_mi d)
               (fun mi s5' => flat_map _ (match_alts pat_S s5')));
      [|apply short2; [repeat constructor|rewrite app_length; pose proof (zpad_len_ge 2 (dt_mi d)); lia]
       |apply (field_ok_spec _ _ _ _ _ _ _ minute_ok); lia].
    (* second *)
    rewrite <- (app_nil_r (zpad 2 (dt_s d) ++ [90])).
    erewrite (field_lift pat_S 90 (zpad 2 (dt_s d) ++ [90]) (dt_s d) (fun sec s6' => [(_, s6')]));
      [|apply short2; [repeat constructor|rewrite app_length; pose proof (zpad_len_ge 2 (dt_s d)); lia]
       |apply (field_ok_spec _ _ _ _ _ _ _ second_ok); lia].
    destruct d; reflexivity. }
  rewrite Hm. rewrite Hv. reflexivity.
Qed.
