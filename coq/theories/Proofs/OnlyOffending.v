(* C07, "and for no other path": every handler invocation of a directory verification is justified by a check of that very
   path that failed - verify_path on the object (with the entry recorded for it, or none for a stray file) answered
   "does not match" with exactly the differences handed to the handler.  Together with C07_directory_log (every failing item
   of a directory is reported, once, in order) and C07_result. *)
From Coq Require Import List NArith ZArith Bool Lia.
From Gemato Require Import Py.PyStr Py.PyPath Gen.Tables Model.Entry Model.Text Model.OpenPGP Model.Hash Model.FS
  Model.Verify Model.Loader.
Import ListNotations.
Open Scope N_scope.

Section OO.
  Variable L : hashlib.
  Variable decompress : list N -> list N -> res (list N).
  Variable pgp_verify : list N -> res sigdata.
  Variable w : world.
  Variable c : vctx.

  (* system path and tree-relative path that name the same object: they grow by the same names from (root/path, path) *)
  Inductive paired (path : list N) : list N -> list N -> Prop :=
  | paired_start : paired path (walk_top path) path
  | paired_step dp rp n : paired path dp rp -> paired path (pjoin dp n) (pjoin rp n).

  Definition justified (path : list N) (cl : call) : Prop :=
    (exists dp rp e, paired path dp rp /\ fst cl = rp /\
                     Verify.verify_path L w dp e (vc_dev c) (vc_lm c) = Ok (false, snd cl)) \/
    (exists e, Verify.verify_path L w (pjoin rootdir (fst cl)) e (vc_dev c) (vc_lm c) = Ok (false, snd cl)).

  Definition grows (path : list N) (log log' : list call) : Prop := exists new, log' = log ++ new /\ Forall (justified path) new.
  Lemma grows_refl path log : grows path log log.
  Proof. exists []. rewrite app_nil_r. split; [reflexivity|constructor]. Qed.
  Lemma grows_trans path a b d : grows path a b -> grows path b d -> grows path a d.
  Proof. intros [n1 [-> F1]] [n2 [-> F2]]. exists (n1 ++ n2). rewrite app_assoc. split; [reflexivity|apply Forall_app; split; assumption]. Qed.

  Lemma verify_one_grows path dp rp e log b log' : paired path dp rp ->
    verify_one L w c dp rp e log = Ok (b, log') -> grows path log log'.
  Proof.
    intros Hp. unfold verify_one. destruct (Verify.verify_path L w dp e (vc_dev c) (vc_lm c)) as [[ok diff]|] eqn:E; cbn [bind]; [|discriminate].
    destruct ok; [intros H; inversion H; subst; apply grows_refl|].
    assert (J : justified path (rp, diff)) by (left; exists dp, rp, e; split; [exact Hp|split; [reflexivity|exact E]]).
    destruct (apply_policy (vc_pol c) rp); [|intros H; inversion H; subst; exists [(rp, diff)]; split; [reflexivity|constructor; [exact J|constructor]]|discriminate].
    intros H; inversion H; subst. exists [(rp, diff)]. split; [reflexivity|constructor; [exact J|constructor]].
  Qed.

  Lemma fold_err_stays {A S} (f : res S -> A -> res S) : (forall e x, f (Err e) x = Err e) ->
    forall l e, fold_left f l (Err e) = Err e.
  Proof. intros Hf l. induction l as [|x l IH]; intros e; [reflexivity|]. cbn [fold_left]. rewrite Hf. apply IH. Qed.

  Lemma verify_dir_grows path dp rp dirnames filenames dirdict log b log' : paired path dp rp ->
    verify_dir L w c dp rp dirnames filenames dirdict log = Ok (b, log') -> grows path log log'.
  Proof.
    intros Hp. unfold verify_dir.
    assert (G1 : forall ds ret0 lg0 dd0 ret1 lg1 dd1,
      fold_left (fun (acc : res (bool * list call * list (list N * entry))) d =>
        '(ret, lg, dd) <- acc ;;
        match assoc d dd with
        | Some de => '(b, lg') <- verify_one L w c (pjoin dp d) (pjoin rp d) (Some de) lg ;; Ok (ret && b, lg', dict_del d dd)
        | None => Ok (ret, lg, dd)
        end) ds (Ok (ret0, lg0, dd0)) = Ok (ret1, lg1, dd1) -> grows path lg0 lg1).
    { induction ds as [|d ds IH]; intros ret0 lg0 dd0 ret1 lg1 dd1 H.
      - inversion H; subst. apply grows_refl.
      - cbn [fold_left bind] in H. destruct (assoc d dd0) as [de|].
        + destruct (verify_one L w c (pjoin dp d) (pjoin rp d) (Some de) lg0) as [[b0 lg0']|] eqn:E.
          * cbn [bind] in H. eapply grows_trans; [eapply verify_one_grows; [apply paired_step; exact Hp|exact E]|eapply IH; exact H].
          * exfalso. cbn [bind] in H. rewrite fold_err_stays in H by reflexivity. discriminate.
        + eapply IH. exact H. }
    assert (G2 : forall fs ret0 lg0 dd0 ret1 lg1 dd1,
      fold_left (fun (acc : res (bool * list call * list (list N * entry))) f =>
        '(ret, lg, dd) <- acc ;;
        if py_startswith f [46] then Ok (ret, lg, dd) else
        let fpath := pjoin rp f in
        if ustr_eqb fpath (vc_top c) then Ok (ret, lg, dd) else
        '(b, lg') <- verify_one L w c (pjoin dp f) fpath (assoc f dd) lg ;;
        Ok (ret && b, lg', dict_del f dd)) fs (Ok (ret0, lg0, dd0)) = Ok (ret1, lg1, dd1) -> grows path lg0 lg1).
    { induction fs as [|f fs IH]; intros ret0 lg0 dd0 ret1 lg1 dd1 H.
      - inversion H; subst. apply grows_refl.
      - cbn [fold_left bind] in H. destruct (py_startswith f [46]); [eapply IH; exact H|].
        cbv zeta in H. destruct (ustr_eqb (pjoin rp f) (vc_top c)); [eapply IH; exact H|].
        destruct (verify_one L w c (pjoin dp f) (pjoin rp f) (assoc f dd0) lg0) as [[b0 lg0']|] eqn:E.
        + cbn [bind] in H. eapply grows_trans; [eapply verify_one_grows; [apply paired_step; exact Hp|exact E]|eapply IH; exact H].
        + exfalso. cbn [bind] in H. rewrite fold_err_stays in H by reflexivity. discriminate. }
    assert (G3 : forall dd ret0 lg0 ret1 lg1,
      fold_left (fun (acc : res (bool * list call)) fe =>
        '(ret, lg) <- acc ;;
        '(b, lg') <- verify_one L w c (pjoin dp (fst fe)) (pjoin rp (fst fe)) (Some (snd fe)) lg ;;
        Ok (ret && b, lg')) dd (Ok (ret0, lg0)) = Ok (ret1, lg1) -> grows path lg0 lg1).
    { induction dd as [|fe dd IH]; intros ret0 lg0 ret1 lg1 H.
      - inversion H; subst. apply grows_refl.
      - cbn [fold_left bind] in H.
        destruct (verify_one L w c (pjoin dp (fst fe)) (pjoin rp (fst fe)) (Some (snd fe)) lg0) as [[b0 lg0']|] eqn:E.
        + cbn [bind] in H. eapply grows_trans; [eapply verify_one_grows; [apply paired_step; exact Hp|exact E]|eapply IH; exact H].
        + exfalso. cbn [bind] in H. rewrite fold_err_stays in H by reflexivity. discriminate. }
    destruct (fold_left _ dirnames (Ok (true, log, dirdict))) as [[[r1 l1] d1]|] eqn:E1; cbn [bind]; [|discriminate].
    destruct (fold_left _ filenames (Ok (r1, l1, d1))) as [[[r2 l2] d2]|] eqn:E2; cbn [bind]; [|discriminate].
    intros H3. eapply grows_trans; [eapply G1; exact E1|]. eapply grows_trans; [eapply G2; exact E2|]. eapply G3; exact H3.
  Qed.

  Lemma walk_verify_grows path fuel : forall dp rp ids ed ret log ids' ed' ret' log', paired path dp rp ->
    walk_verify L fuel w c dp rp ids ed ret log = Ok (ids', ed', ret', log') -> grows path log log'.
  Proof.
    induction fuel as [|f IH]; intros dp rp ids ed ret log ids' ed' ret' log' Hp H; [discriminate|].
    cbn [walk_verify] in H.
    destruct (p_scandir w dp) as [ents|]; cbn [bind] in H; [|discriminate].
    destruct (p_stat w dp) as [dst|]; cbn [bind] in H; [|discriminate].
    destruct (match vc_dev c with Some d => negb (st_dev dst =? d) | None => false end); [discriminate|].
    destruct (existsb _ _); [discriminate|].
    destruct (fold_left _ (map fst (filter snd ents)) ([], _)) as [keep dirdict1] eqn:Ek.
    destruct (verify_dir L w c dp rp keep _ dirdict1 log) as [[b log1]|] eqn:Ev; cbn [bind] in H; [|discriminate].
    assert (G : forall ds i0 e0 r0 l0 i1 e1 r1 l1,
      fold_left (fun (acc : res (ids_map * edict * bool * list call)) d =>
        '(i, e, r, lg) <- acc ;; walk_verify L f w c (pjoin dp d) (pjoin rp d) i e r lg)
        ds (Ok (i0, e0, r0, l0)) = Ok (i1, e1, r1, l1) -> grows path l0 l1).
    { induction ds as [|d ds IHd]; intros i0 e0 r0 l0 i1 e1 r1 l1 Hd.
      - inversion Hd; subst. apply grows_refl.
      - cbn [fold_left bind] in Hd.
        destruct (walk_verify L f w c (pjoin dp d) (pjoin rp d) i0 e0 r0 l0) as [[[[i2 e2] r2] l2]|] eqn:E.
        + eapply grows_trans; [eapply IH; [apply paired_step; exact Hp|exact E]|eapply IHd; exact Hd].
        + exfalso. rewrite fold_err_stays in Hd by reflexivity. discriminate. }
    eapply grows_trans; [eapply verify_dir_grows; [exact Hp|exact Ev]|]. eapply G. exact H.
  Qed.
End OO.

(* the whole operation: every call in the log of assert_directory_verifies is justified *)
Theorem only_offending_reported (L : hashlib) decompress pgp_verify w l path pol lm l' b log :
  assert_directory_verifies L decompress pgp_verify w l path pol lm = Ok (l', b, log) ->
  Forall (justified L w (mk_vctx (l_top l') (l_dev l') pol lm) path) log.
Proof.
  unfold assert_directory_verifies.
  destruct (get_file_entry_dict L decompress pgp_verify w l path None true) as [[l1 ed]|]; cbn [bind]; [|discriminate].
  set (c := mk_vctx (l_top l1) (l_dev l1) pol lm).
  destruct (walk_verify L (nodes_fuel w) w c _ path [] ed true []) as [[[[ids' ed'] ret] lg]|] eqn:Ew; cbn [bind]; [|discriminate].
  pose proof (walk_verify_grows L w c path _ _ _ _ _ _ _ _ _ _ _ (paired_start path) Ew) as [new [E1 F1]]. cbn in E1. subst lg.
  assert (G : forall dds r0 l0 r1 l1', Forall (justified L w c path) l0 ->
    fold_left (fun (acc : res (bool * list call)) (dd : list N * list (list N * entry)) =>
      fold_left (fun (acc2 : res (bool * list call)) (fe : list N * entry) =>
        '(rt, lg) <- acc2 ;;
        let fpath := pjoin (fst dd) (fst fe) in
        '(b, lg') <- verify_one L w c (pjoin rootdir fpath) fpath (Some (snd fe)) lg ;;
        Ok (rt && b, lg')) (snd dd) acc) dds (Ok (r0, l0)) = Ok (r1, l1') -> Forall (justified L w c path) l1').
  { assert (Inner : forall d fes r0 l0 r1 l1', Forall (justified L w c path) l0 ->
      fold_left (fun (acc2 : res (bool * list call)) (fe : list N * entry) =>
        '(rt, lg) <- acc2 ;;
        let fpath := pjoin d (fst fe) in
        '(b, lg') <- verify_one L w c (pjoin rootdir fpath) fpath (Some (snd fe)) lg ;;
        Ok (rt && b, lg')) fes (Ok (r0, l0)) = Ok (r1, l1') -> Forall (justified L w c path) l1').
    { intros d. induction fes as [|fe fes IHf]; intros r0 l0 r1 l1' F0 H; [inversion H; subst; exact F0|].
      cbn [fold_left bind] in H. cbv zeta in H.
      destruct (verify_one L w c (pjoin rootdir (pjoin d (fst fe))) (pjoin d (fst fe)) (Some (snd fe)) l0) as [[b0 l0']|] eqn:E; cbn [bind] in H.
      2:{ exfalso. rewrite fold_err_stays in H by reflexivity. discriminate. }
      eapply IHf; [|exact H]. clear H IHf.
      unfold verify_one in E.
      destruct (Verify.verify_path L w (pjoin rootdir (pjoin d (fst fe))) (Some (snd fe)) (vc_dev c) (vc_lm c)) as [[ok diff]|] eqn:Ev; cbn [bind] in E; [|discriminate].
      destruct ok; [inversion E; subst; exact F0|].
      assert (J : justified L w c path (pjoin d (fst fe), diff)) by (right; exists (Some (snd fe)); exact Ev).
      destruct (apply_policy (vc_pol c) (pjoin d (fst fe))); [| |discriminate].
      - inversion E; subst. apply Forall_app. split; [exact F0|constructor; [exact J|constructor]].
      - inversion E; subst. apply Forall_app. split; [exact F0|constructor; [exact J|constructor]]. }
    induction dds as [|dd dds IHd]; intros r0 l0 r1 l1' F0 H; [inversion H; subst; exact F0|].
    cbn [fold_left] in H.
    match type of H with fold_left _ dds ?x = _ => destruct x as [[r2 l2]|] eqn:E2 end.
    - eapply IHd; [|exact H]. eapply Inner; [exact F0|exact E2].
    - exfalso. rewrite fold_err_stays in H; [discriminate|]. intros e9 x9. apply fold_err_stays. reflexivity. }
  match goal with |- context [bind ?x _] => destruct x as [[r9 l9]|] eqn:E9 end; cbn [bind]; [|discriminate].
  intros H. inversion H; subst. cbn [snd]. eapply G; [|exact E9]. exact F1.
Qed.
